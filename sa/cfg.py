"""Statement-level control-flow graph with reachability / dominance queries (DESIGN 2.2).

Nodes are simple statements and the tests of compound statements.  Exceptions other than an
explicit `raise` are not modelled (ordering rules are stated over normal completion).
"""
from __future__ import annotations

import ast
from dataclasses import dataclass, field


@dataclass(eq=False)
class Node:
    kind: str            # entry | exit | raise | stmt | test | loop | with | match | handler
    ast: ast.AST | None
    idx: int = 0
    label: str = ""      # for tests: edge polarity is stored on edges

    def __repr__(self):
        if self.ast is None:
            return f"<{self.kind}>"
        return f"<{self.kind} L{getattr(self.ast, 'lineno', '?')}: {ast.unparse(self.ast)[:50]!r}>"


class CFG:
    def __init__(self, fnode: ast.FunctionDef | list):
        self.nodes: list[Node] = []
        self.succ: dict[Node, list] = {}
        self.pred: dict[Node, list] = {}
        self.edge_label: dict[tuple, str] = {}
        self.entry = self._new("entry", None)
        self.exit = self._new("exit", None)      # normal completion (return / fall off)
        self.raised = self._new("raise", None)   # explicit raise
        body = fnode.body if isinstance(fnode, (ast.FunctionDef, ast.AsyncFunctionDef)) else fnode
        self._loops: list = []
        outs = self._block(body, [(self.entry, "")])
        for n, lab in outs:
            self._edge(n, self.exit, lab)

    # ---- construction
    def _new(self, kind, a):
        n = Node(kind, a, len(self.nodes))
        self.nodes.append(n)
        self.succ[n] = []
        self.pred[n] = []
        return n

    def _edge(self, a, b, label=""):
        if b not in self.succ[a]:
            self.succ[a].append(b)
            self.pred[b].append(a)
        if label:
            self.edge_label[(a, b)] = label

    def _join(self, preds, node):
        for p, lab in preds:
            self._edge(p, node, lab)

    def _block(self, stmts, preds):
        for st in stmts:
            if not preds:
                break
            preds = self._stmt(st, preds)
        return preds

    def _stmt(self, st, preds):
        if isinstance(st, ast.If):
            t = self._new("test", st.test)
            t.owner = st
            self._join(preds, t)
            a = self._block(st.body, [(t, "T")])
            b = self._block(st.orelse, [(t, "F")]) if st.orelse else [(t, "F")]
            return a + b
        if isinstance(st, (ast.For, ast.AsyncFor, ast.While)):
            h = self._new("loop", st.iter if not isinstance(st, ast.While) else st.test)
            h.owner = st
            self._join(preds, h)
            self._loops.append({"head": h, "breaks": []})
            body_out = self._block(st.body, [(h, "T")])
            for n, lab in body_out:
                self._edge(n, h, lab)
            info = self._loops.pop()
            out = self._block(st.orelse, [(h, "F")]) if st.orelse else [(h, "F")]
            return out + info["breaks"]
        if isinstance(st, (ast.With, ast.AsyncWith)):
            w = self._new("with", st)
            w.owner = st
            self._join(preds, w)
            return self._block(st.body, [(w, "")])
        if isinstance(st, ast.Try):
            t = self._new("try", st)
            self._join(preds, t)
            body_out = self._block(st.body, [(t, "")])
            outs = []
            else_out = self._block(st.orelse, body_out) if st.orelse else body_out
            outs += else_out
            for h in st.handlers:
                hn = self._new("handler", h)
                self._edge(t, hn, "except")
                # any statement in the try body may raise into the handler
                for n in self.nodes:
                    pass
                outs += self._block(h.body, [(hn, "")])
            if st.finalbody:
                outs = self._block(st.finalbody, outs)
            return outs
        if isinstance(st, ast.Match):
            m = self._new("match", st.subject)
            m.owner = st
            self._join(preds, m)
            outs = []
            exhaustive = False
            for case in st.cases:
                cn = self._new("case", case.pattern)
                cn.owner = case
                self._edge(m, cn, "case")
                outs += self._block(case.body, [(cn, "")])
                if isinstance(case.pattern, ast.MatchAs) and case.pattern.pattern is None and case.guard is None:
                    exhaustive = True
            if not exhaustive:
                outs.append((m, "nomatch"))
            return outs
        n = self._new("stmt", st)
        self._join(preds, n)
        if isinstance(st, ast.Return):
            self._edge(n, self.exit)
            return []
        if isinstance(st, ast.Raise):
            self._edge(n, self.raised)
            return []
        if isinstance(st, ast.Break):
            if self._loops:
                self._loops[-1]["breaks"].append((n, ""))
            return []
        if isinstance(st, ast.Continue):
            if self._loops:
                self._edge(n, self._loops[-1]["head"])
            return []
        return [(n, "")]

    # ---- queries
    def reachable(self, src, removed=(), stop=None):
        removed = set(removed)
        seen, stack = set(), [src]
        while stack:
            n = stack.pop()
            if n in seen or n in removed:
                continue
            seen.add(n)
            if stop is not None and n is stop:
                continue
            stack.extend(self.succ[n])
        return seen

    def select(self, pred):
        return [n for n in self.nodes if n.ast is not None and pred(n)]

    def always_before(self, a_nodes, b_nodes) -> bool:
        """Every path from entry to any node of b_nodes passes a node of a_nodes first."""
        reach = self.reachable(self.entry, removed=a_nodes)
        return not any(b in reach for b in b_nodes)

    def always_after(self, a_nodes, b_nodes) -> bool:
        """Every path from any a-node to normal exit passes a b-node (b post-dominates a w.r.t. exit)."""
        for a in a_nodes:
            for s in self.succ[a]:
                if self.exit in self.reachable(s, removed=b_nodes):
                    return False
        return True

    def must_pass(self, nodes) -> bool:
        """Every path from entry to normal exit passes one of `nodes`."""
        return self.exit not in self.reachable(self.entry, removed=nodes)

    def can_follow(self, a, b) -> bool:
        """b reachable from a (strictly after)."""
        for s in self.succ[a]:
            if b in self.reachable(s):
                return True
        return False

    def guards_of(self, node):
        """Tests (node, polarity) that dominate `node` along *every* path: returns list of
        (test_ast, 'T'|'F') such that node is only reachable through that edge."""
        out = []
        for t in self.nodes:
            if t.kind != "test":
                continue
            for lab in ("T", "F"):
                # remove edges of t with label lab: is node still reachable?
                if self._reach_without_edge(t, lab, node) is False:
                    out.extend(self._split(t.ast, lab))
        return out

    @staticmethod
    def _split(test, lab):
        """`A and B` known true gives A true and B true; `A or B` known false gives A false and B false; `not A` flips."""
        if isinstance(test, ast.BoolOp) and ((isinstance(test.op, ast.And) and lab == "T") or (isinstance(test.op, ast.Or) and lab == "F")):
            res = []
            for v in test.values:
                res.extend(CFG._split(v, lab))
            return res
        return [(test, lab)]

    def _reach_without_edge(self, t, lab, target):
        seen, stack = set(), [self.entry]
        while stack:
            n = stack.pop()
            if n in seen:
                continue
            seen.add(n)
            if n is target:
                return True
            for s in self.succ[n]:
                if n is t and self.edge_label.get((n, s)) == lab:
                    continue
                stack.append(s)
        return False

    def stmt_nodes_calling(self, pred):
        """Nodes whose statement/test contains a Call satisfying pred(call)."""
        out = []
        for n in self.nodes:
            if n.ast is None:
                continue
            root = n.ast
            if n.kind == "with":
                root = ast.Module(body=[], type_ignores=[])  # with-items only
                items = [i.context_expr for i in n.ast.items]
                if any(isinstance(c, ast.Call) and pred(c) for it in items for c in ast.walk(it)):
                    out.append(n)
                continue
            if n.kind in ("try", "handler", "case"):
                continue
            for c in ast.walk(root):
                if isinstance(c, ast.Call) and pred(c):
                    out.append(n)
                    break
        return out

    def node_of(self, a: ast.AST):
        for n in self.nodes:
            if n.ast is a:
                return n
        # statement containing a
        for n in self.nodes:
            if n.ast is not None and n.kind in ("stmt", "test", "loop", "match"):
                for x in ast.walk(n.ast):
                    if x is a:
                        return n
        return None
