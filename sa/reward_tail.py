"""Reward modulation of the three-factor trainers (MSTDP, MSTDPET, DelayAdjustedMSTDP, DelayAdjustedMSTDPD): the block that
turns the two pair sums into the (potentiating, depressing) parts handed to the updater.  The four trainers document the
same rule; it is written here once over role names and each trainer's block is compared with it as a decision tree
(modulo the normal form):

  per-sample reward r_b: each sample's contribution is scaled by |r_b * scale|; a term with learning rate lr goes to the
  potentiating part for the samples where lr * r_b >= 0 and to the depressing part for the others; each part is reduced
  over the batch with the cell's batch reduction (None when empty);
  scalar reward r: both sums are batch-reduced, scaled by |r * scale|, and routed by the sign of lr * r."""
from __future__ import annotations

import ast

from .model import dotted, AnalysisError
from . import terms, nf, specs

SPEC = """
def spec():
    if isinstance(signal, torch.Tensor):
        scaledsignal = (signal * scale).abs().view(-1, *repeat(1, POST.ndim - 1))
        signal_pos = torch.argwhere(signal >= 0).view(-1)
        signal_neg = torch.argwhere(signal < 0).view(-1)
        dpost = POST * scaledsignal
        dpre = PRE * scaledsignal
        if LRA >= 0:
            post_p, post_n = dpost[signal_pos], dpost[signal_neg]
        else:
            post_p, post_n = dpost[signal_neg], dpost[signal_pos]
        if LRB >= 0:
            pre_p, pre_n = dpre[signal_pos], dpre[signal_neg]
        else:
            pre_p, pre_n = dpre[signal_neg], dpre[signal_pos]
        dpos = torch.cat((post_p, pre_p), 0)
        dneg = torch.cat((post_n, pre_n), 0)
        cell.updater.PARAM = (state.batchreduce(dpos, 0) if dpos.numel() else None, state.batchreduce(dneg, 0) if dneg.numel() else None)
    else:
        dpost = state.batchreduce(POST, 0) * abs(signal * scale)
        dpre = state.batchreduce(PRE, 0) * abs(signal * scale)
        if LRA * signal >= 0:
            if LRB * signal >= 0:
                cell.updater.PARAM = (dpost + dpre, None)
            else:
                cell.updater.PARAM = (dpost, dpre)
        else:
            if LRB * signal >= 0:
                cell.updater.PARAM = (dpre, dpost)
            else:
                cell.updater.PARAM = (None, dpost + dpre)
"""

ROLES = {   # trainer -> (input standing for the post-triggered sum, pre-triggered sum, its learning rate, the other, parameter)
    "MSTDP": ("dpost", "dpre", "state.lr_post", "state.lr_pre", "weight"),
    "MSTDPET": ("z_post", "z_pre", "state.lr_post", "state.lr_pre", "weight"),
    "DelayAdjustedMSTDP": ("dpost", "dpre", "state.lr_pos", "state.lr_neg", "weight"),
    "DelayAdjustedMSTDPD": ("dpost", "dpre", "state.lr_neg", "state.lr_pos", "delay"),
}


def check(ctx, rule: str, only=None):
    P = ctx.prog
    n = 0
    for cname, (post, pre, lra, lrb, param) in ROLES.items():
        if only is not None and cname not in only:
            continue
        c = P.cls(cname)
        f = c.methods.get("forward") if c is not None else None
        if f is None:
            raise AnalysisError(f"anchor vanished: {cname}.forward")
        ctx.touch(f)
        loops = [x for x in f.node.body if isinstance(x, ast.For)]
        tail = None
        for lp in loops:
            for st in lp.body:
                if isinstance(st, ast.If) and any(isinstance(y, ast.Call) and dotted(y.func) == "isinstance" and y.args and dotted(y.args[0]) == "signal" for y in ast.walk(st.test)):
                    tail = st
        n += 1
        if tail is None:
            ctx.ob(rule, f"{cname}.forward: reward-modulation block found", False, "no branch on the reward's type (per-sample tensor / scalar) in the cell loop", f.where)
            continue
        env = {post: nf.sym(post), pre: nf.sym(pre)}
        try:
            b = terms.Builder(P, f, dict(env), inline_depth=0)
            b.run([tail])
            code = b.stores.get(f"cell.updater.{param}")
        except terms.Opaque as e:
            code = None
        src = SPEC.replace("POST", post).replace("PRE", pre).replace("LRA", lra).replace("LRB", lrb).replace("PARAM", param)
        sb = terms.Builder(None, None, dict(env))
        sb.run(ast.parse(src.strip()).body[0].body)
        want = sb.stores.get(f"cell.updater.{param}")
        ok = code is not None and want is not None and nf.equal(code, want)
        others = sorted(k for k in b.stores if k.startswith("cell.updater.") and k != f"cell.updater.{param}") if code is not None else []
        ctx.ob(rule, f"{cname}.forward: (potentiating, depressing) parts = documented reward modulation of the two pair sums ({lra} with the post-triggered sum, {lrb} with the pre-triggered sum; updates {param})",
               ok and not others,
               "" if ok and not others else (f"also stores {others}" if ok else f"parts handed to the updater: {nf.show(code)[:300] if code is not None else 'not found'}\n      documented: {nf.show(want)[:300]}"),
               P.loc(f, tail), None)
    return n
