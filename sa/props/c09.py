"""C09 — every trainer's LTP/LTD split is non-negative and nets to the signed rule."""
from __future__ import annotations

import ast
from dataclasses import dataclass, replace

from ..model import walk_own, dotted, AnalysisError, strip_doc, kwarg
from .. import trainers as T, nf, terms
from . import c10

EXPLANATION = (
    "For every trainer class (14) the check walks `forward` path-sensitively through each case of each sign-mode "
    "`match` and decides: (a) the match has exactly the 2^k sign cases; each term stored to `cell.updater.<p>` is "
    "routed to the potentiating slot iff the learning rate it carries (by data flow through forward and the monitor "
    "amplitudes of register_cell) is non-negative in that case, taking the reward sign into account either in the test "
    "(lr*signal) or through the per-sample signal>=0 / <0 partition; no term is dropped in any mode; (b) an abstract sign "
    "analysis proves both stored parts >= 0 (spike indicators, traces with abs() amplitudes, exp, abs, clamp_min / "
    "negated clamp_max, sums/products/einsum/reductions of those); (c) clamp-split trainers net to the signed quantity "
    "(same operand under clamp_min in slot 0 and under negated clamp_max in slot 1); (d) Accumulator.update returns "
    "upper(pos) - lower(neg) with slot 0 <- upper bound, slot 1 <- lower bound. Not decided: that the routed terms are "
    "the rule's causal/anti-causal sums (C08's numerical remainder); user-supplied batch reductions are assumed "
    "sign-preserving."
)
TECHNIQUE = "static analysis: path-sensitive abstract interpretation (learning-rate dependence, reward-sign partition, sign domain) over every match case; exhaustiveness check"
LEVEL_TEXT = ("All-paths static decision of the LTP/LTD routing and non-negativity for every trainer and every sign mode; "
              "the numerical identity of the routed terms with the rule's pair sums is not decided.")
LEVEL_NOTE = ("Trusts the sign/transfer table of the torch ops used in the forwards, sign preservation of batch reductions "
              "and receptive-field reshapes, and the engine.")
DESIGN_REF = "DESIGN.md §5 C09"
TRUSTED = ["sign transfer table in sa/props/c09.py (one line per op)"]

SPIKE_ATTRS = {"neuron.spike", "synapse.spike", "connection.synspike"}
RESHAPE_FUNCS = {"postsyn_receptive", "presyn_receptive", "like_bias", "like_input", "like_synaptic"}   # data = argument 0
RESHAPES = {"view", "unsqueeze", "reshape", "squeeze", "to", "float", "type_as", "clone", "contiguous", "expand",
            "expand_as", "flatten"}                                                                          # data = receiver
SIGN_KEEP_REDUCE = {"nansum", "sum", "mean", "amax", "nanmean"}


@dataclass(frozen=True)
class Part:
    deps: frozenset          # state.<attr> names
    sig: str | None          # '+', '-', None
    signal: bool             # carries |signal|
    sign: str                # P N Z T


@dataclass(frozen=True)
class AV:
    parts: tuple             # leaf contributions
    idxpol: str | None = None
    none: bool = False

    @property
    def sign(self):
        s = "Z"
        for p in self.parts:
            s = nf._add_sign(s, p.sign)
        return s

    def merged(self):
        deps, sig, signal = frozenset(), None, False
        for p in self.parts:
            deps |= p.deps
            signal = signal or p.signal
            if p.sig is not None:
                sig = p.sig if sig in (None, p.sig) else "mixed"
        return deps, sig, signal


def leaf(deps=(), sign="T", signal=False, sig=None):
    return AV((Part(frozenset(deps), sig, signal, sign),))


def _mul_sign(a, b):
    if "Z" in (a, b):
        return "Z"
    if "T" in (a, b):
        return "T"
    return "P" if a == b else "N"


class Abs:
    """Abstract evaluator of trainer-forward expressions."""

    def __init__(self, ctx, cls, sites, mdeps):
        self.ctx, self.cls, self.sites, self.mdeps = ctx, cls, sites, mdeps
        self.unknown_ops = set()
        self.state_sign = state_attr_signs(cls)

    def monitor_sign(self, key, seen=()):
        s = self.sites.get(key)
        if s is None or key in seen:
            return "T"
        rc = s.reducer_cls
        if rc == "state.tracecls" or rc.endswith("TraceReducer") and rc != "EligibilityTraceReducer":
            amp = s.reducer_arg("amplitude", 2)
            if amp is None:
                return "T"
            return self.ev(amp, {}).sign if not (isinstance(amp, ast.Constant)) else ("P" if amp.value >= 0 else "N")
        if rc == "PassthroughReducer":
            return "P" if set(s.attr_options()) <= SPIKE_ATTRS and s.attr_options() else "T"
        if rc == "EligibilityTraceReducer":
            subs = [x.split(".")[0] for x in s.subattrs]
            return "P" if subs and all(self.monitor_sign(k, seen + (key,)) == "P" for k in subs) else "T"
        if rc in ("EMAReducer", "CAReducer"):
            return "P" if set(s.attr_options()) <= SPIKE_ATTRS and s.attr_options() else "T"
        return "T"

    def combine(self, avs, sign):
        deps, sig, signal = frozenset(), None, False
        for a in avs:
            d, s, g = a.merged()
            deps |= d
            signal = signal or g
            if s is not None:
                sig = s if sig in (None, s) else "mixed"
        return AV((Part(deps, sig, signal, sign),))

    def ev(self, e, env) -> AV:
        if isinstance(e, ast.Constant):
            if e.value is None:
                return AV((), none=True)
            if isinstance(e.value, (int, float)) and not isinstance(e.value, bool):
                return leaf(sign="Z" if e.value == 0 else ("P" if e.value > 0 else "N"))
            return leaf()
        if isinstance(e, ast.Name):
            if e.id in env:
                return env[e.id]
            if e.id == "signal":
                return leaf(signal=True)
            return leaf()
        if isinstance(e, ast.Attribute):
            if isinstance(e.value, ast.Name) and e.value.id == "state":
                return leaf(deps=[e.attr], sign=self.state_sign.get(e.attr, "T"))
            return self.ev(e.value, env) if not isinstance(e.value, ast.Name) else leaf()
        if isinstance(e, ast.UnaryOp):
            v = self.ev(e.operand, env)
            if isinstance(e.op, ast.USub):
                flip = {"P": "N", "N": "P"}
                return AV(tuple(replace(p, sign=flip.get(p.sign, p.sign)) for p in v.parts))
            return self.combine([v], "T")
        if isinstance(e, ast.BinOp):
            a, b = self.ev(e.left, env), self.ev(e.right, env)
            if isinstance(e.op, ast.Add):
                return AV(a.parts + b.parts)
            if isinstance(e.op, ast.Sub):
                flip = {"P": "N", "N": "P"}
                return AV(a.parts + tuple(replace(p, sign=flip.get(p.sign, p.sign)) for p in b.parts))
            if isinstance(e.op, (ast.Mult, ast.Div)):
                # distribute a multiplicative factor over a sum of parts only when the other side is one part
                sg = _mul_sign(a.sign, b.sign)
                if isinstance(e.op, ast.Div) and b.sign == "Z":
                    sg = "T"
                return self.combine([a, b], sg)
            if isinstance(e.op, ast.BitOr):
                return self.combine([a, b], "T")
            return self.combine([a, b], "T")
        if isinstance(e, ast.IfExp):
            a, b = self.ev(e.body, env), self.ev(e.orelse, env)
            if a.none:
                return b
            if b.none:
                return a
            if len(a.parts) == len(b.parts) == 1:
                pa, pb = a.parts[0], b.parts[0]
                return AV((Part(pa.deps | pb.deps, pa.sig if pa.sig == pb.sig else "mixed", pa.signal or pb.signal,
                                nf._join(pa.sign, pb.sign)),))
            return AV(a.parts + b.parts)
        if isinstance(e, ast.Compare):
            pol = None
            if isinstance(e.left, ast.Name) and e.left.id == "signal" and isinstance(e.comparators[0], ast.Constant) and e.comparators[0].value == 0:
                pol = "+" if isinstance(e.ops[0], (ast.GtE, ast.Gt)) else ("-" if isinstance(e.ops[0], (ast.Lt, ast.LtE)) else None)
            vs = [self.ev(x, env) for x in [e.left] + e.comparators]
            av = self.combine(vs, "P")
            return AV(av.parts, idxpol=pol)
        if isinstance(e, ast.Subscript):
            if isinstance(e.value, ast.Name) and e.value.id == "monitors" and isinstance(e.slice, ast.Constant):
                k = e.slice.value
                return leaf(deps=self.mdeps.get(k, ()), sign=self.monitor_sign(k))
            v = self.ev(e.value, env)
            i = self.ev(e.slice, env) if not isinstance(e.slice, (ast.Slice, ast.Tuple)) else AV(())
            if i.idxpol is not None:
                return AV(tuple(replace(p, sig=i.idxpol if p.sig in (None, i.idxpol) else "mixed") for p in v.parts))
            return v
        if isinstance(e, (ast.Tuple, ast.List)):
            parts = ()
            for x in e.elts:
                parts += self.ev(x, env).parts
            return AV(parts)
        if isinstance(e, ast.Starred):
            return self.ev(e.value, env)
        if isinstance(e, ast.Call):
            return self.call(e, env)
        if isinstance(e, (ast.Dict, ast.DictComp, ast.GeneratorExp, ast.ListComp, ast.Lambda, ast.JoinedStr)):
            return leaf()
        return leaf()

    def call(self, e: ast.Call, env) -> AV:
        f = e.func
        d = dotted(f)
        args = [self.ev(a, env) for a in e.args]
        name = f.attr if isinstance(f, ast.Attribute) else (f.id if isinstance(f, ast.Name) else None)
        recv = self.ev(f.value, env) if isinstance(f, ast.Attribute) and dotted(f.value) not in ("torch", "ein", "math", "F") else None
        if d == "abs" or name in ("abs", "absolute"):
            base = args[0] if d in ("abs", "torch.abs") else recv
            return self.combine([base], "P")
        if d in ("torch.exp", "math.exp") or name == "exp":
            return self.combine(args if args else [recv], "P")
        if name in ("clamp_min", "clamp_max", "clamp"):
            base = recv if recv is not None and d not in ("torch.clamp", "torch.clamp_min", "torch.clamp_max") else args[0]
            rest = e.args if base is recv else e.args[1:]
            lo = kwarg(e, "min") if name == "clamp" else (rest[0] if name == "clamp_min" and rest else None)
            hi = kwarg(e, "max") if name == "clamp" else (rest[0] if name == "clamp_max" and rest else None)
            sg = base.sign
            if lo is not None and self.ev(lo, env).sign in ("P", "Z"):
                sg = "P"
            elif hi is not None and self.ev(hi, env).sign in ("N", "Z"):
                sg = "N"
            out = self.combine([base], sg)
            return out
        if name in RESHAPE_FUNCS and args:
            return args[0]
        if name in RESHAPES:
            return recv if recv is not None and recv.parts else (args[0] if args else leaf())
        if name in SIGN_KEEP_REDUCE:
            return recv if recv is not None and d not in (f"torch.{name}",) else args[0]
        if name == "batchreduce" and args:
            return args[0]     # assumption: batch reductions are sign preserving (shipped: sum/mean/amax); which one is used is C08/C11's concern
        if d == "ein.einsum":
            ops = [a for a, n in zip(args, e.args) if not (isinstance(n, ast.Constant) and isinstance(n.value, str))]
            sg = "P"
            for o in ops:
                sg = _mul_sign(sg, o.sign)
            return self.combine(ops, sg)
        if d == "torch.cat":
            return args[0]
        if d in ("torch.argwhere", "torch.nonzero", "torch.where") and len(args) == 1:
            return args[0]
        if name in ("peek", "view", "read", "select", "pop", "dump"):
            base = recv if recv is not None else leaf()
            extra = [a for a in args]
            deps = frozenset().union(*[p.deps for p in base.parts]) if base.parts else frozenset()
            return AV(tuple(Part(p.deps, p.sig, p.signal, p.sign) for p in base.parts)) if base.parts else leaf()
        if name == "numel":
            return leaf()
        if d == "isinstance":
            return leaf()
        if d in ("torch.zeros_like", "torch.zeros"):
            return leaf(sign="Z")
        if d is not None and d.startswith("state.kernel"):
            return self.combine(args, "T")
        if d == "repeat" or name in ("named_buffers", "items", "ndim"):
            return leaf()
        self.unknown_ops.add(d or name or ast.unparse(f)[:30])
        return self.combine(([recv] if recv is not None else []) + args, "T")


def state_attr_signs(cls) -> dict:
    """Sign of `state.<k>` read off _build_cell_state: abs(...) and argtest.gt/gte(..., 0) are >= 0."""
    out = {}
    f = cls.find_method("_build_cell_state")
    if f is None:
        return out
    for n in walk_own(f.node):
        if isinstance(n, ast.Assign) and isinstance(n.targets[0], ast.Attribute) and dotted(n.targets[0].value) == "state":
            v, k = n.value, n.targets[0].attr
            sg = "T"
            if isinstance(v, ast.Call):
                d = dotted(v.func)
                if d == "abs":
                    sg = "P"
                elif d in ("argtest.gt", "argtest.gte") and len(v.args) >= 3 and isinstance(v.args[2], ast.Constant) \
                        and isinstance(v.args[2].value, (int, float)) and v.args[2].value >= 0:
                    sg = "P"
                elif d in ("argtest.lt", "argtest.lte") and len(v.args) >= 3 and isinstance(v.args[2], ast.Constant) \
                        and isinstance(v.args[2].value, (int, float)) and v.args[2].value <= 0:
                    sg = "N"
            out[k] = sg if k not in out or out[k] == sg else "T"
    return out


def sign_tests(subject: ast.AST):
    """Parse the subject of a sign-mode match: list of (state attr, True-means-nonnegative, mentions signal)."""
    if not isinstance(subject, (ast.Tuple, ast.List)):
        return None
    out = []
    for el in subject.elts:
        if not (isinstance(el, ast.Compare) and len(el.ops) == 1 and isinstance(el.comparators[0], ast.Constant)
                and el.comparators[0].value == 0):
            return None
        attrs = T.state_attrs(el.left)
        if len(attrs) != 1:
            return None
        op = el.ops[0]
        if isinstance(op, (ast.GtE, ast.Gt)):
            pol = True
        elif isinstance(op, (ast.Lt, ast.LtE)):
            pol = False
        else:
            return None
        has_signal = any(isinstance(n, ast.Name) and n.id == "signal" for n in ast.walk(el.left))
        out.append((next(iter(attrs)), pol, has_signal))
    return out


def case_truth(pattern):
    if isinstance(pattern, ast.MatchSequence):
        vals = []
        for p in pattern.patterns:
            if isinstance(p, ast.MatchSingleton) and isinstance(p.value, bool):
                vals.append(p.value)
            elif isinstance(p, ast.MatchValue) and isinstance(p.value, ast.Constant) and isinstance(p.value.value, bool):
                vals.append(p.value.value)
            else:
                return None
        return tuple(vals)
    return None


class Walker:
    def __init__(self, ctx, cls, f, ab: Abs):
        self.ctx, self.cls, self.f, self.ab = ctx, cls, f, ab
        self.n_match = 0
        self.n_store = 0
        self.case_sets = {}

    def walk(self, stmts, env, mode):
        """mode: None or (tests, truth, match_id)."""
        for i, st in enumerate(stmts):
            if isinstance(st, ast.Match):
                tests = sign_tests(st.subject)
                if tests is not None:
                    self.n_match += 1
                    self.check_exhaustive(st, tests)
                    for case in st.cases:
                        tr = case_truth(case.pattern)
                        if tr is None or len(tr) != len(tests):
                            continue
                        self.walk(case.body + stmts[i + 1:], dict(env), (tests, tr, id(st), st))
                    return
                subj = st.subject
                if isinstance(subj, (ast.Tuple, ast.List)) and subj.elts and all(
                        isinstance(el, ast.Compare) and len(el.comparators) == 1 and isinstance(el.comparators[0], ast.Constant) and el.comparators[0].value == 0
                        for el in subj.elts):
                    self.n_match += 1
                    self.ctx.ob("C09.a", f"{self.f.short}: match {ast.unparse(subj)} tests the cell's own learning rates", False,
                                "a sign-mode test must compare exactly one `state.<learning rate>` (optionally times the scalar signal) with 0; "
                                "this one does not read the per-cell state, so a cell registered with overriding learning rates is routed by the trainer's defaults",
                                self.ctx.prog.loc(self.f, st), subj)
                for case in st.cases:
                    self.walk(case.body, dict(env), mode)
                continue
            if isinstance(st, ast.If):
                e1, e2 = dict(env), dict(env)
                rest = stmts[i + 1:]
                self.walk(st.body + rest, e1, mode)
                self.walk(st.orelse + rest, e2, mode)
                return
            if isinstance(st, (ast.For, ast.While, ast.With)):
                self.walk(st.body, env, mode)
                continue
            if isinstance(st, ast.Assign):
                tgt = st.targets[0]
                if isinstance(tgt, ast.Attribute) and dotted(tgt.value) == "cell.updater":
                    self.store(st, tgt.attr, env, mode)
                    continue
                if isinstance(tgt, ast.Name):
                    env[tgt.id] = self.ab.ev(st.value, env)
                elif isinstance(tgt, (ast.Tuple, ast.List)) and isinstance(st.value, (ast.Tuple, ast.List)) and len(tgt.elts) == len(st.value.elts):
                    vals = [self.ab.ev(v, env) for v in st.value.elts]
                    for t_, v in zip(tgt.elts, vals):
                        if isinstance(t_, ast.Name):
                            env[t_.id] = v
                continue
            if isinstance(st, (ast.Continue, ast.Return, ast.Raise, ast.Break)):
                return

    def check_exhaustive(self, st: ast.Match, tests):
        seen = [case_truth(c.pattern) for c in st.cases]
        k = len(tests)
        want = {tuple(bool((i >> j) & 1) for j in range(k)) for i in range(2 ** k)}
        got = [s for s in seen if s is not None and len(s) == k]
        ok = set(got) == want and len(got) == len(set(got)) and all(c.guard is None for c in st.cases)
        self.ctx.ob("C09.a", f"{self.f.short}: match {ast.unparse(st.subject)} exhaustive", ok,
                    f"cases {sorted(got)}: exactly the {2 ** k} sign combinations" if ok else
                    f"cases present {sorted(map(str, seen))}; missing {sorted(want - set(got))} — in a missing sign mode nothing is handed to the updater",
                    self.ctx.prog.loc(self.f, st), st.subject)

    def store(self, st, param, env, mode):
        self.n_store += 1
        v = st.value
        where = self.ctx.prog.loc(self.f, st)
        if not (isinstance(v, ast.Tuple) and len(v.elts) == 2):
            self.ctx.ob("C09.a", f"{self.f.short}: cell.updater.{param} store", False,
                        f"`{ast.unparse(st)[:80]}` does not hand over an explicit (potentiating, depressing) pair", where, st)
            return
        slots = [self.ab.ev(x, env) for x in v.elts]
        label = f"{self.f.short}: cell.updater.{param}"
        # a part guarded as `X if T else None`: the guard must test the part it guards
        for si, x in enumerate(v.elts):
            if isinstance(x, ast.IfExp) and isinstance(x.orelse, ast.Constant) and x.orelse.value is None:
                tn = {n.id for n in ast.walk(x.test) if isinstance(n, ast.Name)}
                bn = {n.id for n in ast.walk(x.body) if isinstance(n, ast.Name)}
                okg = tn <= bn
                self.ctx.ob("C09.a", f"{label}: slot {si} is dropped only when it is itself empty", okg,
                            "" if okg else f"`{ast.unparse(x)[:70]}` drops the part depending on {sorted(tn - bn)}, a different quantity: "
                            f"when that one is empty a due {'potentiating' if si == 0 else 'depressing'} part is discarded", where, x)
        if mode is not None:
            tests, truth, mid, mst = mode
            label += f" in case {list(truth)} of match {ast.unparse(mst.subject)}"
            lrs = {t[0] for t in tests}
            nonneg = {t[0]: (tr == t[1]) for t, tr in zip(tests, truth)}
            test_signal = {t[0]: t[2] for t in tests}
            routed = set()
            for si, av in enumerate(slots):
                for p in av.parts:
                    dl = p.deps & lrs
                    if len(dl) != 1:
                        self.ctx.ob("C09.a", label, False,
                                    f"a term in slot {si} carries {sorted(dl) or 'none'} of the tested learning rates {sorted(lrs)}; "
                                    f"its sign mode cannot be decided by this match", where, st)
                        continue
                    lr = next(iter(dl))
                    if p.sig == "mixed":
                        self.ctx.ob("C09.a", label, False, f"term for {lr} mixes reward-positive and reward-negative samples", where, st)
                        continue
                    if p.signal and not test_signal[lr] and p.sig is None:
                        self.ctx.ob("C09.a", label, False,
                                    f"term for {lr} is scaled by |signal| but neither the test nor a signal>=0/<0 partition accounts for the reward's sign", where, st)
                        continue
                    if test_signal[lr] and p.sig is not None:
                        self.ctx.ob("C09.a", label, False, f"reward sign accounted twice for {lr}", where, st)
                        continue
                    pot = nonneg[lr] if p.sig != "-" else not nonneg[lr]
                    want = 0 if pot else 1
                    routed.add((lr, p.sig))
                    self.ctx.ob("C09.a", f"{label}: term {lr}{'' if p.sig is None else '[signal' + p.sig + ']'}", si == want,
                                f"{lr} is {'non-negative' if nonneg[lr] else 'negative'} in this case"
                                + (f", reward {'>=0' if p.sig == '+' else '<0'}" if p.sig else "")
                                + f" => {'potentiating (slot 0)' if want == 0 else 'depressing (slot 1)'}; found in slot {si}",
                                where, st)
            self.case_sets.setdefault((mid, param), []).append((truth, frozenset(routed), where, st, label))
        for si, av in enumerate(slots):
            if av.none or not av.parts:
                continue
            sg = av.sign
            self.ctx.ob("C09.b", f"{label}: slot {si} >= 0", sg in ("P", "Z"),
                        f"abstract sign of `{ast.unparse(v.elts[si])[:70]}` is {'>= 0' if sg in ('P', 'Z') else ('<= 0' if sg == 'N' else 'unknown')}"
                        + ("" if sg in ("P", "Z") else
                           (": the depressing part must be handed over as a non-negative magnitude (potentiation - depression is applied by the updater)"
                            if si == 1 else ": the potentiating part must be non-negative")),
                        where, v.elts[si])
        if mode is None:
            self.clamp_split(st, param, v, env, where)

    def clamp_split(self, st, param, v, env, where):
        """Trainers that split a signed quantity: slot 0 clamps x at min 0; slot 1 is the negated clamp of the *same* x at max 0."""
        def clamps(e, kind):
            out = []
            for n in ast.walk(e):
                if isinstance(n, ast.Call) and isinstance(n.func, ast.Attribute) and n.func.attr == kind:
                    out.append(ast.unparse(n.func.value))
            return sorted(out)
        a, b = v.elts
        mins, maxs = clamps(a, "clamp_min"), clamps(b, "clamp_max")
        if not mins and not maxs:
            return
        ok = mins == maxs and not clamps(a, "clamp_max") and not clamps(b, "clamp_min")
        self.ctx.ob("C09.c", f"{self.f.short}: cell.updater.{param} clamp split nets to the signed quantity", ok,
                    f"slot 0 keeps the positive part of {mins}, slot 1 the negative part of {maxs}"
                    + ("" if ok else " — the two parts do not split the same signed quantities"), where, st)


def check(ctx):
    P = ctx.prog
    classes = T.trainer_classes(P)
    ctx.require("C09", "trainer classes", len(classes), 14)
    total_match = total_store = 0
    unknown = set()
    for c in classes:
        f = c.methods["forward"]
        ctx.touch(f, c.methods["register_cell"])
        sites = T.monitor_sites(P, c)
        mdeps = T.monitor_state_deps(sites)
        ab = Abs(ctx, c, sites, mdeps)
        w = Walker(ctx, c, f, ab)
        loop = T.forward_loop(f)
        w.walk(loop.body, {}, None)
        total_match += w.n_match
        total_store += w.n_store
        unknown |= ab.unknown_ops
        # no term dropped in any mode: every case of one match routes the same set of (lr) terms
        for (mid, param), lst in w.case_sets.items():
            union = set()
            for _, r, *_ in lst:
                union |= {lr for lr, _ in r}
            for truth, r, where, st, label in lst:
                have = {lr for lr, _ in r}
                ctx.ob("C09.a", f"{label}: all terms routed", have == union,
                       f"routes terms of {sorted(have)}" + ("" if have == union else f"; other cases also route {sorted(union - have)} — a contribution is dropped in this sign mode"),
                       where, st)
        if w.n_store == 0:
            raise AnalysisError(f"no cell.updater store found in {f.short}")
    ctx.require("C09.a", "sign-mode match statements", total_match, 14)
    ctx.require("C09.b", "updater stores reached (per path)", total_store, 50)
    if unknown:
        ctx.note(f"operations evaluated as unknown-sign (never a pass by themselves): {sorted(unknown)}")
    c10.check_accumulator_update(ctx, "C09.d")
    c10.check_cache_pairing(ctx, "C09.e")
    # trace kernels preserve non-negativity (used by the sign table for trace monitors)
    assume = {"amplitude": "P", "decay": "P", "trace": "P", "scale": "P", "observation": "P"}
    for k in ("trace_nearest", "trace_cumulative", "trace_cumulative_value"):
        fn = P.fn(k, module="core.trace")
        t, _ = terms.function_term(P, fn)
        ctx.touch(fn)
        s = nf.sign_of(t, assume) if not nf._has_ite(t) else _tree_sign(nf.lift(t), assume)
        ctx.ob("C09.b", f"{k} preserves >= 0", s in ("P", "Z"),
               f"with amplitude, decay, previous trace >= 0 the result is {'>= 0' if s in ('P', 'Z') else s}", fn.where)
    ctx.assume("user-supplied batch reductions are sign-preserving (shipped defaults: torch.mean / torch.sum)")
    ctx.assume("receptive-field reshapes (postsyn_receptive, presyn_receptive, like_bias) only rearrange elements")
    ctx.assume("spike tensors are {0,1}-valued")
    # ---------------- (f) the (potentiating, depressing) split of every reward-modulated trainer, as a decision tree
    from .. import reward_tail
    reward_tail.check(ctx, "C09.f")
    # ---------------- (g) the accumulators the parts are handed to (shared with C10) and the pooled traces they are computed from (C15.f)
    ctx.import_clauses("C10", {"C10.t", "C10.a", "C10.b"}, "C09.g", pick=lambda s: s.startswith(("Updater", "Accumulator")), minimum=6)
    ctx.import_clauses("C15", {"C15.f"}, "C09.h", minimum=10)

    # ---------------- (i) homeostasis: the branch for parameter p hands its parts to the updater of p, and only p
    hf = P.cls("LinearHomeostasis").methods["forward"]
    nrt = 0
    for n in ast.walk(hf.node):
        if isinstance(n, ast.If) and isinstance(n.test, ast.Compare) and len(n.test.ops) == 1 and isinstance(n.test.ops[0], ast.Eq):
            sides = [n.test.left, n.test.comparators[0]]
            lit = [x.value for x in sides if isinstance(x, ast.Constant) and isinstance(x.value, str)]
            if len(lit) == 1 and any(dotted(x) == "state.param" for x in sides):
                nrt += 1
                tg = sorted({t.attr for st in n.body for a_ in ast.walk(st) if isinstance(a_, ast.Assign) for t in a_.targets
                             if isinstance(t, ast.Attribute) and dotted(t.value) == "cell.updater"})
                ctx.ob("C09.i", f"LinearHomeostasis.forward: the '{lit[0]}' branch updates cell.updater.{lit[0]}", tg == [lit[0]],
                       f"updates {tg}", P.loc(hf, n), n)
    ctx.require("C09.i", "homeostasis parameter branches", nrt, 3)



def _tree_sign(t, assume):
    if t[0] == "leaf":
        return nf.sign_of(t[1], assume)
    return nf._join(_tree_sign(t[2], assume), _tree_sign(t[3], assume))
