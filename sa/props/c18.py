"""C18 — delay-adjusted and kernel STDP agree with their formula and with each other (structure)."""
from __future__ import annotations

import ast

from ..model import walk_own, dotted, is_self_attr, strip_doc, AnalysisError, kwarg
from .. import specs, nf, terms, trainers as T
from . import c09

EXPLANATION = (
    "Decides for the seven trainers of the delay-adjusted / kernel family: (a) t_delta = t_pre - t_post - delay (no delay "
    "term only in KernelSTDP, which reads the delayed view instead), with t_pre / t_post read from the spike_pre / spike_post "
    "event monitors through the pre-/post-synaptic receptive reshapes; EventReducer.fold = 0 on event else previous + dt; "
    "(b) all event monitors start from NaN and every receptive reduction is a nansum over the last axis followed by the batch "
    "reduction over axis 0 (no change before both sides have spiked); (c) the two terms of each dedicated rule have the normal "
    "form of exp_stdp_post_kernel / exp_stdp_pre_kernel applied to the same t_delta with (|lr|, tc) of the documented branch "
    "(causal = t_delta >= 0), so the branch masks partition and the dedicated rules coincide with kernel STDP using the shipped "
    "exponential kernels; the kernel trainers apply kernel_post and kernel_pre to that same t_delta; (d) sign-mode routing as in "
    "C09. Not decided: agreement of values over spike histories."
)
TECHNIQUE = "static analysis: normal-form comparison of t_delta and of the dedicated terms against the shipped kernels (cross-implementation), monitor-table checks, routing abstract interpretation"
LEVEL_TEXT = "All-sites static decision of the t_delta term, NaN discipline, kernel/dedicated-rule equivalence and routing for the 7 trainers; numerical agreement over histories is not decided."
LEVEL_NOTE = "Trusts torch semantics, the engine and C07's decision of EventReducer.fold."
DESIGN_REF = "DESIGN.md §5 C18"

# class -> (has delay term, dedicated?, causal (lr, tc), anti-causal (lr, tc)) per class docstring
FAMILY = {
    "KernelSTDP": (False, False, None, None),
    "DelayAdjustedKernelSTDP": (True, False, None, None),
    "DelayAdjustedKernelSTDPD": (True, False, None, None),
    "DelayAdjustedSTDP": (True, True, ("lr_pos", "tc_pos"), ("lr_neg", "tc_neg")),
    "DelayAdjustedSTDPD": (True, True, ("lr_neg", "tc_neg"), ("lr_pos", "tc_pos")),
    "DelayAdjustedMSTDP": (True, True, ("lr_pos", "tc_pos"), ("lr_neg", "tc_neg")),
    "DelayAdjustedMSTDPD": (True, True, ("lr_neg", "tc_neg"), ("lr_pos", "tc_pos")),
}


def check(ctx):
    P = ctx.prog
    post_k = P.fn("exp_stdp_post_kernel", module="functional.stdkernels")
    pre_k = P.fn("exp_stdp_pre_kernel", module="functional.stdkernels")
    specs.compare(ctx, "C18.c", "exp_stdp_post_kernel = lr * exp(-|diff|/tc) * [diff >= 0]", post_k,
                  "learning_rate * torch.exp(-torch.abs(diff) / time_constant) * (diff >= 0)", source="functional/stdkernels.py docstring")
    specs.compare(ctx, "C18.c", "exp_stdp_pre_kernel = lr * exp(-|diff|/tc) * [diff < 0]", pre_k,
                  "learning_rate * torch.exp(-torch.abs(diff) / time_constant) * (diff < 0)", source="functional/stdkernels.py docstring")
    er = P.cls("EventReducer")
    specs.compare(ctx, "C18.a", "EventReducer.fold: 0 on event else previous + dt", er.methods["fold"],
                  "torch.where(self.criterion(obs), 0, self.__initial_value) if state is None else torch.where(self.criterion(obs), 0, state + self.dt)",
                  source="observe/reducers/general.py", inline_depth=0)
    init = er.methods["__init__"]
    ok = any(isinstance(n, ast.Assign) and is_self_attr(n.targets[0], "__initial_value") and isinstance(n.value, ast.Name) and n.value.id == "initial" for n in walk_own(init.node)) \
        and any(isinstance(c, ast.Call) and dotted(c.func) == "float" and c.args and isinstance(c.args[0], ast.Name) and c.args[0].id == "initial" for c in P.calls_in(init))
    ctx.ob("C18.a", "EventReducer: 'nan' / 'inf' initial values become float('nan') / float('inf')", ok, "", init.where)

    nterms = 0
    for cname, (has_delay, dedicated, causal, anti) in FAMILY.items():
        c = P.cls(cname)
        f = c.methods.get("forward")
        if f is None:
            raise AnalysisError(f"anchor vanished: {cname}.forward")
        ctx.touch(f, c.methods["register_cell"])
        loop = T.forward_loop(f)
        sites = T.monitor_sites(P, c)
        # (b) NaN discipline of the event monitors
        for m in ("spike_pre", "spike_post"):
            s = sites.get(m)
            ok = s is not None and s.reducer_cls == "EventReducer"
            ini = s.reducer_arg("initial", 2) if ok else None
            ok = ok and isinstance(ini, ast.Constant) and ini.value == "nan"
            crit = s.reducer_arg("criterion", 1) if s is not None else None
            ok = ok and crit is not None and ast.unparse(crit) in ("lambda x: x.bool()", "torch.Tensor.bool")
            ctx.ob("C18.b", f"{cname}: monitor '{m}' is an EventReducer on spikes starting from NaN", ok,
                   "" if ok else f"reducer {s.reducer_cls if s else None}, initial {ast.unparse(ini) if ini is not None else None}", P.loc(c.methods['register_cell'], s.call) if s else "")
        ok = sites.get("spike_post") is not None and sites["spike_post"].attr_options() == ["neuron.spike"]
        ctx.ob("C18.a", f"{cname}: spike_post observes the neuron's spikes", ok, "", f.where)
        opts = sites["spike_pre"].attr_options() if "spike_pre" in sites else []
        ok = bool(opts) and set(opts) <= {"synapse.spike", "connection.synspike"}
        ctx.ob("C18.a", f"{cname}: spike_pre observes the synapse's (undelayed or connection-delayed) spikes", ok, f"{opts}", f.where)

        # (a) t_delta
        asg = {}
        for st in loop.body:
            if isinstance(st, ast.Assign) and isinstance(st.targets[0], ast.Name):
                asg.setdefault(st.targets[0].id, st)
        need = ("t_post", "t_pre", "t_delta")
        if not all(k in asg for k in need):
            # role-based fallback: find the assignment whose value subtracts two receptive reshapes
            ctx.ob("C18.a", f"{cname}.forward: t_delta construction", False, "assignments of t_pre / t_post / t_delta not found", f.where)
            continue
        tp, tq = asg["t_post"].value, asg["t_pre"].value
        ok = isinstance(tp, ast.Call) and dotted(tp.func) == "cell.connection.postsyn_receptive" and T.monitor_keys(tp) == {"spike_post"} and \
            any(isinstance(x, ast.Call) and isinstance(x.func, ast.Attribute) and x.func.attr == "peek" for x in ast.walk(tp))
        ctx.ob("C18.a", f"{cname}.forward: t_post = postsyn_receptive(spike_post.peek())", ok, "", P.loc(f, asg["t_post"]))
        ok = isinstance(tq, ast.Call) and dotted(tq.func) == "cell.connection.presyn_receptive" and T.monitor_keys(tq) == {"spike_pre"}
        if has_delay:
            ok = ok and not any(isinstance(x, ast.Call) and isinstance(x.func, ast.Attribute) and x.func.attr == "view" for x in ast.walk(tq))
        ctx.ob("C18.a", f"{cname}.forward: t_pre = presyn_receptive(spike_pre" + (".peek())" if has_delay else " peek / delayed view)"), ok,
               "" if ok else "the delay would be applied twice (delayed view and explicit delay term) or the wrong monitor is read", P.loc(f, asg["t_pre"]))
        b = terms.Builder(P, f, {"t_pre": nf.sym("t_pre"), "t_post": nf.sym("t_post")}, inline_depth=0)
        got = b.t(asg["t_delta"].value)
        want = specs.spec_term("t_pre - t_post - cell.connection.delay.unsqueeze(-1)" if has_delay else "t_pre - t_post")
        ok = nf.equal(got, want)
        ctx.ob("C18.a", f"{cname}.forward: t_delta = t_pre - t_post" + (" - delay" if has_delay else ""), ok,
               f"computes {nf.show(got)}" + ("" if ok else f", documented {nf.show(want)}"), P.loc(f, asg["t_delta"]), asg["t_delta"])

        # (c) the two terms
        env = {"t_delta": nf.sym("t_delta")}
        b = terms.Builder(P, f, dict(env), inline_depth=0)
        for st in loop.body:
            if isinstance(st, ast.Assign) and isinstance(st.targets[0], ast.Name) and st.targets[0].id not in ("t_delta", "t_pre", "t_post"):
                if any(isinstance(x, ast.Name) and x.id in ("t_delta", "t_delta_abs") for x in ast.walk(st.value)) and st.targets[0].id == "t_delta_abs":
                    b.stmt(st)
        if dedicated:
            sums = []
            for st in loop.body:
                for x in ast.walk(st) if isinstance(st, ast.Assign) else []:
                    if isinstance(x, ast.Call) and ((isinstance(x.func, ast.Attribute) and x.func.attr == "nansum" and dotted(x.func) != "torch.nansum")
                                                    or dotted(x.func) == "torch.nansum"):
                        arg = x.args[0] if dotted(x.func) == "torch.nansum" else x.func.value
                        dim = (x.args[1] if dotted(x.func) == "torch.nansum" and len(x.args) > 1 else (x.args[0] if x.args and dotted(x.func) != "torch.nansum" else kwarg(x, "dim")))
                        sums.append((st, arg, dim))
            ctx.ob("C18.b", f"{cname}.forward: two receptive nansum reductions", len(sums) == 2, f"{len(sums)} found", f.where)
            seen = set()
            for st, arg, dim in sums:
                nterms += 1
                t = b.t(arg)
                hit = None
                for kind, (lr, tc), kern in (("causal", causal, post_k), ("anti-causal", anti, pre_k)):
                    kt, _ = terms.function_term(P, kern, {"diff": nf.sym("t_delta"), "learning_rate": specs.spec_term(f"abs(state.{lr})"),
                                                          "time_constant": nf.sym(f"state.{tc}")})
                    if nf.equal(t, kt):
                        hit = kind
                seen.add(hit)
                ctx.ob("C18.c", f"{cname}.forward: term `{st.targets[0].id}` = shipped exponential kernel of its documented branch", hit is not None,
                       f"equals exp_stdp_{'post' if hit == 'causal' else 'pre'}_kernel(t_delta, |lr|, tc) of the {hit} branch" if hit else
                       f"computes {nf.show(t)[:200]}, which is neither exp_stdp_post_kernel(t_delta, |{causal[0]}|, {causal[1]}) nor exp_stdp_pre_kernel(t_delta, |{anti[0]}|, {anti[1]})",
                       P.loc(f, st), st)
                okd = isinstance(dim, ast.UnaryOp) and isinstance(dim.operand, ast.Constant) and dim.operand.value == 1
                ctx.ob("C18.b", f"{cname}.forward: `{st.targets[0].id}` reduces the receptive axis (-1) with nansum", okd, "", P.loc(f, st))
            ctx.ob("C18.b", f"{cname}.forward: one causal (t_delta >= 0) and one anti-causal (t_delta < 0) term", seen == {"causal", "anti-causal"},
                   "the branch masks partition the synapse pairs", f.where)
        else:
            for kname in ("kernel_post", "kernel_pre"):
                calls = [x for st in loop.body for x in ast.walk(st) if isinstance(x, ast.Call) and dotted(x.func) == f"state.{kname}"]
                nterms += 1
                ok = len(calls) == 1 and calls[0].args and isinstance(calls[0].args[0], ast.Name) and calls[0].args[0].id == "t_delta"
                kwok = ok and any(k.arg is None and f"state.{kname}_kwargs" in ast.unparse(k.value) for k in calls[0].keywords)
                ctx.ob("C18.c", f"{cname}.forward: {kname}(t_delta, **its own kwargs)", ok and kwok, "", f.where)
            # nansum over the receptive axis then batch reduction over axis 0, for all four clamp terms
            red = [x for st in loop.body for x in ast.walk(st) if isinstance(x, ast.Call) and dotted(x.func) == "state.batchreduce"]
            ok = len(red) == 4 and all(len(x.args) == 2 and isinstance(x.args[1], ast.Constant) and x.args[1].value == 0 and
                                       isinstance(x.args[0], ast.Call) and isinstance(x.args[0].func, ast.Attribute) and x.args[0].func.attr == "nansum" and
                                       ast.unparse(kwarg(x.args[0], "dim", 0)) == "-1" for x in red)
            ctx.ob("C18.b", f"{cname}.forward: every part = batchreduce(nansum(clamp(kernel value), dim=-1), 0)", ok, "", f.where)
    ctx.require("C18.c", "trainers of the delay-adjusted / kernel family", len(FAMILY), 7)
    # the kernel trainers store the user's kernels and kwargs unchanged
    for cname in ("KernelSTDP", "DelayAdjustedKernelSTDP", "DelayAdjustedKernelSTDPD"):
        c = P.cls(cname)
        bs = c.find_method("_build_cell_state")
        ok = bs is not None and all(any(isinstance(n, ast.Assign) and dotted(n.targets[0]) == f"state.{k}" and isinstance(n.value, ast.Name) and n.value.id == k
                                        for n in walk_own(bs.node)) for k in ("kernel_post", "kernel_pre"))
        ctx.ob("C18.c", f"{cname}: state.kernel_post / kernel_pre are the configured kernels", ok, "", bs.where if bs else "")

    # (d) routing for this family (same abstract interpretation as C09, restricted to the seven trainers)
    for cname in FAMILY:
        c = P.cls(cname)
        f = c.methods["forward"]
        sites = T.monitor_sites(P, c)
        ab = c09.Abs(ctx, c, sites, T.monitor_state_deps(sites))
        w = c09.Walker(ctx, c, f, ab)
        w.walk(T.forward_loop(f).body, {}, None)
    # keep only the routing obligations under this property's rule names
    for o in ctx.obs:
        if o.rule.startswith("C09."):
            o.rule = "C18.d/" + o.rule
    ctx.assume("user-supplied batch reductions and kernels behave as documented")
    # ---------------- (e) the event-time monitors of different cells are distinct pooled monitors (shared with C15.f / C15.h)
    ctx.import_clauses("C15", {"C15.f", "C15.h"}, "C18.e", minimum=4,
                       pick=lambda s: s.startswith(("DelayAdjusted", "Kernel", "Observable", "alias", "MonitorPool")))
    # ---------------- (f) reward modulation block of the delay-adjusted three-factor trainers
    from .. import reward_tail
    reward_tail.check(ctx, "C18.f", only=("DelayAdjustedMSTDP", "DelayAdjustedMSTDPD"))
