"""C03 — neuron step contract: threshold, reset, absolute refractory period, spike flag (structure)."""
from __future__ import annotations

import ast

from ..model import walk_own, dotted, is_self_attr, strip_doc, AnalysisError, kwarg
from .. import specs, nf, terms

EXPLANATION = (
    "Decides for the two thresholding kernels, three integration kernels, three adaptation kernels and all eight neuron "
    "classes: (a) both thresholding kernels have the normal form of the documented template (refractory decrement clamped at "
    "0, mask = out of refractory, dynamics applied to masked input, locked neurons keep their voltage, spike = mask and "
    "v >= threshold, spiking neurons get refrac_t and the documented reset term in the same step); (b) the returned "
    "refractory time is >= 0 for refrac_t >= 0 (sign analysis) and every constructor validates refrac_t >= 0; (c) the "
    "integration kernels equal the documented update equations (docs/zoo); (d) every forward passes refracs, voltages (iff "
    "refrac_lock), step_time, thresh_v, refrac_t from the like-named state, stores tuple element 1 to voltage, element 2 to "
    "refrac and returns element 0, dynamics = the class's _integrate_v which integrates self.voltage, and the string given "
    "to SpikeRefractoryMixin names the attribute passed as refrac_t; keyword arguments are not cross-wired; (e) adaptation "
    "kernels freeze the decay / Euler part under refracs > 0 and add the spike increment outside it; (f) the spike attribute "
    "(refrac == refrac_t) identifies the last step's spikes only if refrac_t cannot equal the resting value 0. Not decided: "
    "multi-step trajectories."
)
TECHNIQUE = "static analysis: normal-form comparison with documented kernels, sign domain, sibling wiring agreement over 8 classes, validated-interval overlap"
LEVEL_TEXT = "All-paths static decision of the step template, formulas, wiring and the spike-flag domain condition; trajectories are not decided."
LEVEL_NOTE = "Trusts torch element-wise semantics, the documented formulas in docs/zoo and the engine."
DESIGN_REF = "DESIGN.md §5 C03"

THRESH_CONST = """
def spec(inputs, refracs, dynamics, voltages, step_time, reset_v, thresh_v, refrac_t):
    r1 = torch.clamp(refracs - step_time, min=0)
    mask = r1 == 0
    D = dynamics(inputs * mask)
    v1 = D if voltages is None else torch.where(mask, D, voltages)
    spikes = mask & (v1 >= thresh_v)
    return spikes, torch.where(spikes, reset_v, v1), torch.where(spikes, refrac_t, r1)
"""
THRESH_LINEAR = """
def spec(inputs, refracs, dynamics, voltages, step_time, rest_v, v_slope, v_intercept, thresh_v, refrac_t):
    r1 = torch.clamp(refracs - step_time, min=0)
    mask = r1 == 0
    D = dynamics(inputs * mask)
    v1 = D if voltages is None else torch.where(mask, D, voltages)
    spikes = mask & (v1 >= thresh_v)
    return spikes, torch.where(spikes, rest_v + v_slope * (v1 - rest_v) - v_intercept, v1), torch.where(spikes, refrac_t, r1)
"""
INTEGRATION = {
    "voltage_integration_linear": ("rest_v + (voltages - rest_v - resistance * masked_inputs) * torch.exp(-step_time / time_constant) + resistance * masked_inputs",
                                   "docs/zoo/neurons-linear.md: LIF exact solution"),
    "voltage_integration_quadratic": ("voltages + step_time / time_constant * (affinity * (voltages - rest_v) * (voltages - crit_v) + resistance * masked_inputs)",
                                      "docs/zoo/neurons-nonlinear.md: QIF Euler step"),
    "voltage_integration_exponential": ("voltages + step_time / time_constant * (-(voltages - rest_v) + sharpness * torch.exp((voltages - rheobase_v) / sharpness) + resistance * masked_inputs)",
                                        "docs/zoo/neurons-nonlinear.md: EIF Euler step"),
}
ADAPT = {
    "adaptive_currents_linear": ("""
def spec(adaptations, voltages, spikes, step_time, rest_v, time_constant, voltage_coupling, spike_increment, refracs):
    new = adaptations + step_time / time_constant * (voltage_coupling * (voltages - rest_v).unsqueeze(-1) - adaptations)
    kept = new if refracs is None else torch.where(refracs.unsqueeze(-1) > 0, adaptations, new)
    return kept + spike_increment * spikes.unsqueeze(-1)
""", "docs/zoo/neurons-adaptation.md: linear current adaptation"),
    "adaptive_thresholds_linear_spike": ("""
def spec(adaptations, spikes, step_time, time_constant, spike_increment, refracs):
    new = adaptations * torch.exp(-step_time / time_constant)
    kept = new if refracs is None else torch.where(refracs.unsqueeze(-1) > 0, adaptations, new)
    return kept + spike_increment * spikes.unsqueeze(-1)
""", "docs/zoo/neurons-adaptation.md: spike-dependent threshold adaptation"),
    "adaptive_thresholds_linear_voltage": ("""
def spec(adaptations, voltages, step_time, rest_v, adapt_rate, rebound_rate, adapt_reset_min, spikes, refracs):
    new = adaptations + step_time * (adapt_rate * (voltages - rest_v).unsqueeze(-1) - rebound_rate * adaptations)
    kept = new if refracs is None else torch.where(refracs.unsqueeze(-1) > 0, adaptations, new)
    return torch.where(spikes.unsqueeze(-1) == 0, kept, kept.clamp_min(adapt_reset_min)) if (adapt_reset_min is not None and spikes is not None) else kept
""", "docs/zoo/neurons-adaptation.md: voltage-dependent threshold adaptation"),
    "apply_adaptive_currents": ("current - torch.sum(adaptations, dim=-1)", "docs/zoo/neurons-adaptation.md"),
    "apply_adaptive_thresholds": ("threshold + torch.sum(adaptations, dim=-1)", "docs/zoo/neurons-adaptation.md"),
}


def _sign_tree(t, assume):
    if t[0] == "leaf":
        return nf.sign_of(t[1], assume)
    return nf._join(_sign_tree(t[2], assume), _sign_tree(t[3], assume))


def check(ctx):
    P = ctx.prog
    mod = "neural.functional.neuron_dynamics"
    # ---------------- (a) thresholding template, (b) sign
    for name, spec in (("voltage_thresholding_constant", THRESH_CONST), ("voltage_thresholding_linear", THRESH_LINEAR)):
        f = P.fn(name, module=mod)
        specs.compare(ctx, "C03.a", f"{name} = documented step template", f, spec, source="function docstring / docs/guide/pragmatics.md (refractory periods)")
        t, _ = terms.function_term(P, f)
        ok = False
        if isinstance(t, tuple) and len(t) == 3:
            s = _sign_tree(nf.lift(t[2]), {"refrac_t": "P"})
            ok = s in ("P", "Z")
        ctx.ob("C03.b", f"{name}: returned refractory time >= 0 for refrac_t >= 0", ok,
               "clamp(refracs - dt, min=0) and refrac_t are both non-negative" if ok else "sign of the returned refractory term is not provably >= 0", f.where)
    # ---------------- (c) integration kernels
    for name, (spec, src) in INTEGRATION.items():
        specs.compare(ctx, "C03.c", f"{name} = documented update equation", P.fn(name, module=mod), spec, source=src)
    # ---------------- (e) adaptation kernels
    for name, (spec, src) in ADAPT.items():
        specs.compare(ctx, "C03.e", f"{name}: freeze under refracs > 0, increment outside", P.fn(name, module="neural.functional.neuron_adaptation"), spec, source=src)

    # ---------------- (d) wiring of the eight neuron classes
    classes = [c for c in P.subclasses.get("InfernoNeuron", []) if "forward" in c.methods and ".neural.neurons." in c.module.name]
    ctx.require("C03.d", "neuron classes", len(classes), 8)
    for c in sorted(classes, key=lambda c: c.name):
        f = c.methods["forward"]
        ctx.touch(f)
        # explicit delegation `Other.forward(self, ...)` is accepted as a whole (the delegate is checked itself)
        deleg = [x for x in P.calls_in(f) if isinstance(x.func, ast.Attribute) and x.func.attr == "forward" and isinstance(x.func.value, ast.Name)
                 and x.func.value.id in P.classes and x.args and isinstance(x.args[0], ast.Name) and x.args[0].id == "self"]
        if deleg:
            tgt = P.classes[deleg[0].func.value.id]
            ok = tgt in classes or tgt.name in [k.name for k in classes]
            lock = kwarg(deleg[0], "refrac_lock", 2)
            ok = ok and isinstance(lock, ast.Name) and lock.id == "refrac_lock"
            ctx.ob("C03.d", f"{c.name}.forward delegates to {tgt.name}.forward with refrac_lock", ok, "", f.where)
            init = c.methods.get("__init__")
            di = [x for x in P.calls_in(init) if dotted(x.func) == f"{tgt.name}.__init__"] if init else []
            okk = bool(di) and all(isinstance(k.value, ast.Name) and k.value.id == k.arg for k in di[0].keywords if k.arg)
            ctx.ob("C03.d", f"{c.name}.__init__ forwards every hyper-parameter under its own name", okk, "", init.where if init else "")
            continue
        tc = [x for x in P.calls_in(f) if (dotted(x.func) or "").startswith("nf.voltage_thresholding_")]
        if len(tc) != 1:
            ctx.ob("C03.d", f"{c.name}.forward calls one thresholding kernel", False, f"{len(tc)} calls", f.where)
            continue
        call = tc[0]
        kw = {k.arg: k.value for k in call.keywords if k.arg}
        want = {"refracs": "self.refrac", "step_time": "self.step_time", "refrac_t": "self.refrac_t", "dynamics": "self._integrate_v"}
        for k, v in want.items():
            got = kw.get(k)
            ctx.ob("C03.d", f"{c.name}.forward: {k}={v}", got is not None and dotted(got) == v, ast.unparse(got) if got is not None else "missing", P.loc(f, call), None)
        v = kw.get("voltages")
        ok = isinstance(v, ast.IfExp) and dotted(v.body) == "self.voltage" and isinstance(v.test, ast.Name) and v.test.id == "refrac_lock" \
            and isinstance(v.orelse, ast.Constant) and v.orelse.value is None
        ctx.ob("C03.d", f"{c.name}.forward: voltages = self.voltage iff refrac_lock", ok, ast.unparse(v) if v is not None else "missing", P.loc(f, call), None)
        th = kw.get("thresh_v")
        ok = th is not None and (dotted(th) == "self.thresh_v" or (isinstance(th, ast.Call) and dotted(th.func) == "nf.apply_adaptive_thresholds"
                                                                  and len(th.args) == 2 and dotted(th.args[0]) == "self.thresh_eq_v" and dotted(th.args[1]) == "self.threshold_adaptation"))
        ctx.ob("C03.d", f"{c.name}.forward: threshold = thresh_v (+ adaptations)", ok, ast.unparse(th) if th is not None else "missing", P.loc(f, call), None)
        inp = kw.get("inputs")
        ok = inp is not None and ((isinstance(inp, ast.Name) and inp.id == "inputs") or
                                  (isinstance(inp, ast.Call) and dotted(inp.func) == "nf.apply_adaptive_currents" and len(inp.args) == 2
                                   and isinstance(inp.args[0], ast.Name) and inp.args[0].id == "inputs" and dotted(inp.args[1]) == "self.current_adaptation"))
        ctx.ob("C03.d", f"{c.name}.forward: drive = inputs (- adaptation currents)", ok, ast.unparse(inp) if inp is not None else "missing", P.loc(f, call), None)
        # keyword / attribute cross-wiring: kw=self.A where the class has an attribute named kw and A != kw
        init_attrs = {n.targets[0].attr for k in c.mro for m in [k.methods.get("__init__")] if m for n in walk_own(m.node)
                      if isinstance(n, ast.Assign) and len(n.targets) == 1 and is_self_attr(n.targets[0])}
        for kcall in [call] + [x for x in P.calls_in(c.methods["_integrate_v"])] if "_integrate_v" in c.methods else [call]:
            for k in kcall.keywords:
                if k.arg and is_self_attr(k.value) and k.arg in init_attrs and k.value.attr != k.arg:
                    ctx.ob("C03.d", f"{c.name}: keyword {k.arg}= receives self.{k.value.attr}", False,
                           f"the class has its own attribute '{k.arg}', yet passes self.{k.value.attr} for it", P.loc(f, kcall), None)
                elif k.arg and is_self_attr(k.value):
                    ctx.ob("C03.d", f"{c.name}: keyword {k.arg}= receives self.{k.value.attr}", True, "", P.loc(f, kcall), None)
        # result unpacking
        asg = [n for n in walk_own(f.node) if isinstance(n, ast.Assign) and n.value is call]
        ok = False
        if asg and isinstance(asg[0].targets[0], ast.Tuple) and len(asg[0].targets[0].elts) == 3:
            s_, v_, r_ = [e.id for e in asg[0].targets[0].elts]
            st_v = [n for n in walk_own(f.node) if isinstance(n, ast.Assign) and is_self_attr(n.targets[0], "voltage") and isinstance(n.value, ast.Name) and n.value.id == v_]
            st_r = [n for n in walk_own(f.node) if isinstance(n, ast.Assign) and is_self_attr(n.targets[0], "refrac") and isinstance(n.value, ast.Name) and n.value.id == r_]
            rets = [n for n in walk_own(f.node) if isinstance(n, ast.Return)]
            ok = bool(st_v) and bool(st_r) and bool(rets) and all(isinstance(r.value, ast.Name) and r.value.id == s_ for r in rets)
        ctx.ob("C03.d", f"{c.name}.forward: (spikes, voltage, refrac) = kernel result -> return, self.voltage, self.refrac", ok, "", f.where)
        # _integrate_v integrates the present membrane voltage
        iv = c.methods.get("_integrate_v")
        if iv is not None:
            ic = [x for x in P.calls_in(iv) if (dotted(x.func) or "").startswith("nf.voltage_integration_")]
            ok = len(ic) == 1 and len(ic[0].args) >= 2 and isinstance(ic[0].args[0], ast.Name) and ic[0].args[0].id == iv.params()[0] and dotted(ic[0].args[1]) == "self.voltage"
            st = kwarg(ic[0], "step_time") if ic else None
            ok = ok and st is not None and dotted(st) == "self.step_time"
            ctx.ob("C03.d", f"{c.name}._integrate_v(masked_inputs) integrates self.voltage over self.step_time", ok, "", iv.where)
        # absrefrac names refrac_t
        init = c.methods.get("__init__")
        sr = [x for x in P.calls_in(init) if dotted(x.func) == "SpikeRefractoryMixin.__init__"] if init else []
        rt_attr = dotted(kw.get("refrac_t")) if kw.get("refrac_t") is not None else None
        ok = bool(sr) and len(sr[0].args) >= 3 and isinstance(sr[0].args[2], ast.Constant) and rt_attr == f"self.{sr[0].args[2].value}"
        ctx.ob("C03.d", f"{c.name}: spike flag compares refrac with the attribute passed as refrac_t", ok, "", init.where if init else "")

    # ---------------- (b)/(f) refrac_t domain and spike attribute
    srm = P.cls("SpikeRefractoryMixin")
    sp = srm.props.get("spike", {}).get("get")
    if sp is None:
        raise AnalysisError("anchor vanished: SpikeRefractoryMixin.spike")
    derived = "self.refrac == getattr(self, self.__absrefrac_attr)" in ast.unparse(sp.node)
    for c in sorted(classes, key=lambda c: c.name):
        guard = None
        for k in [c] + [P.classes[x.func.value.id] for m in [c.methods.get("__init__")] if m for x in P.calls_in(m)
                        if isinstance(x.func, ast.Attribute) and x.func.attr == "__init__" and isinstance(x.func.value, ast.Name) and x.func.value.id in P.classes
                        and P.classes[x.func.value.id] in classes]:
            init = k.methods.get("__init__")
            for n in walk_own(init.node):
                if isinstance(n, ast.Assign) and is_self_attr(n.targets[0], "refrac_t") and isinstance(n.value, ast.Call) and (dotted(n.value.func) or "").startswith("argtest."):
                    guard = (dotted(n.value.func).split(".")[1], ast.unparse(n.value.args[2]) if len(n.value.args) > 2 else "?")
        ok_dom = guard is not None and guard[0] in ("gte", "gt") and guard[1] == "0"
        ctx.ob("C03.b", f"{c.name}: refrac_t validated >= 0", ok_dom, f"argtest.{guard[0]}(..., {guard[1]})" if guard else "no guard found", c.methods["__init__"].where)
        if derived:
            strict = guard is not None and guard[0] == "gt"
            ctx.ob("C03.f", f"{c.name}: spike attribute vs refrac_t domain", strict,
                   "refrac_t > 0, so refrac == refrac_t holds exactly for neurons that just spiked" if strict else
                   "spike is derived as refrac == refrac_t and refrac_t = 0 is accepted: the resting value clamp(...)=0 then equals refrac_t, "
                   "so every non-refractory neuron reports a spike although the step returned none",
                   sp.where)
    # ---------------- (g) initial state: at rest, not refractory, no adaptation (what step 1 starts from)
    ninit = 0
    for c in sorted(classes, key=lambda c: c.name):
        init = c.methods.get("__init__")
        if init is None:
            continue
        b = terms.Builder(P, init, {}, inline_depth=0)
        for x in P.calls_in(init):
            d = dotted(x.func) or ""
            if not d.endswith("Mixin.__init__") or len(x.args) < 2:
                continue
            mix = d.split(".")[0]
            st_arg = x.args[1]
            if mix == "VoltageMixin":
                ok = nf.equal(b.t(st_arg), specs.spec_term("torch.full(self.batchedshape, self.rest_v)"))
                what = "voltages start at the resting potential"
            elif mix in ("SpikeRefractoryMixin", "RefractoryMixin"):
                ok = isinstance(st_arg, ast.Call) and dotted(st_arg.func) in ("torch.zeros", "zeros") and len(st_arg.args) == 1 and dotted(st_arg.args[0]) == "self.batchedshape"
                what = "no neuron starts refractory (zeros over the batched shape)"
            elif mix.startswith("Adaptive"):
                ok = isinstance(st_arg, ast.Call) and dotted(st_arg.func) in ("torch.zeros", "zeros") and len(st_arg.args) == 2 \
                    and isinstance(st_arg.args[0], ast.Starred) and dotted(st_arg.args[0].value) == "self.shape" \
                    and isinstance(st_arg.args[1], ast.Call) and isinstance(st_arg.args[1].func, ast.Attribute) and st_arg.args[1].func.attr == "numel"
                what = "adaptations start at zero, one slot per adaptation time constant, shared over the batch"
            else:
                continue
            ninit += 1
            ctx.ob("C03.g", f"{c.name}: {what}", ok, ast.unparse(st_arg)[:80], P.loc(init, x), x)
    ctx.require("C03.g", "initial-state arguments of the neuron constructors", ninit, 16)
    ctx.assume("`dynamics` (the class's _integrate_v) is element-wise")
