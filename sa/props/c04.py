"""C04 — synapse currents equal the impulse-response sum; delayed reads see the past (structure)."""
from __future__ import annotations

import ast

from ..model import walk_own, dotted, is_self_attr, strip_doc, AnalysisError, kwarg
from ..cfg import CFG
from .. import grules as G, specs, nf, terms

EXPLANATION = (
    "Decides for the four synapse classes and the shared delayed-read helper: (a) every call of _synparam_at passes "
    "(record, selector, interpolation, kwargs, tolerance, overbound, transform) in the callee's parameter order (role check "
    "on the tolerance / overbound slots, name-swap rule) and binds to its signature; (b) each per-step recurrence has the "
    "normal form of the documented one (delta Q/dt*s; delta-plus + injected; single exponential I*exp(-dt/tau) + Q/tau*s; "
    "double exponential with Q/(tau_d - tau_r) and I = I_d - I_r); (c) every synapse forward assigns each record-backed "
    "property exactly once on every path, the spike record from inputs[0].bool(), and every record push receives "
    "self.inplace; (d) _synparam_at and its hand-inlined twin DoubleExponentialCurrent.current_at: undelayed iff recordsz == 1, "
    "selector clamped to [0, duration], out-of-range replacement iff overbound is not None with predicate "
    "|selector - bounded| <= tolerance; (e) every delay record is created with (self.dt, self.delay, inclusive=True), "
    "registered through add_delayed and add_batched, and clear() resets exactly the records the constructors created. "
    "Not decided: equality of the trajectories with the closed-form impulse sum."
)
TECHNIQUE = "static analysis: call-role/signature rules, normal-form comparison with documented recurrences, CFG exactly-once rule, sibling agreement, constructor/clear pairing"
LEVEL_TEXT = "All-paths static decision of argument roles, recurrence formulas, one-push-per-step, the delayed-read selector/overbound structure and record sizing/clearing."
LEVEL_NOTE = "Trusts RecordTensor (C01/C02), torch semantics and the engine."
DESIGN_REF = "DESIGN.md §5 C04"

SYNPARAM_SPEC = """
def spec(value, selector, interpolation, interp_kwargs, tolerance, overbound, transform):
    t = (lambda x: x) if not transform else transform
    if value.recordsz == 1:
        b = 0
        res = t(value.peek())
    else:
        b = selector.clamp(min=0, max=value.duration)
        res = t(value.select(b, interpolation, tolerance=tolerance, interp_kwargs=interp_kwargs))
    if overbound is not None:
        res = torch.where((selector - b).abs() <= tolerance, res, overbound)
    return res
"""

DEXP_AT_SPEC = """
def spec(self, selector):
    if self.spike_.recordsz == 1:
        b = 0
        res = self.pos_current_.peek() - self.neg_current_.peek()
    else:
        b = selector.clamp(min=0, max=self.spike_.duration)
        res = self.pos_current_.select(b, interp_expdecay, tolerance=self.__tolerance, interp_kwargs={'time_constant': self.tc_decay}) - self.neg_current_.select(b, interp_expdecay, tolerance=self.__tolerance, interp_kwargs={'time_constant': self.tc_rise})
    if self.__current_overbound is not None:
        res = torch.where((selector - b).abs() <= self.__tolerance, res, self.__current_overbound)
    return res
"""

RECURRENCES = {
    "DeltaPlusCurrent": {"self.current": "sum((inputs[0] * (self.spike_charge / self.dt), *inputs[1:]))"},
    "SingleExponentialCurrent": {"self.current": "self.current * math.exp(-self.dt / self.time_constant) + self.spike_charge / self.time_constant * inputs[0]"},
    "DoubleExponentialCurrent": {
        "self.pos_current": "self.pos_current * math.exp(-self.dt / self.tc_decay) + self.spike_charge / (self.tc_decay - self.tc_rise) * inputs[0]",
        "self.neg_current": "self.neg_current * math.exp(-self.dt / self.tc_rise) + self.spike_charge / (self.tc_decay - self.tc_rise) * inputs[0]",
    },
}
SYNAPSES = ("DeltaCurrent", "DeltaPlusCurrent", "SingleExponentialCurrent", "DoubleExponentialCurrent")


def _record_names(P, c):
    """RecordTensor.create(self, 'name', ...) in any constructor of the MRO -> {name: call}."""
    out = {}
    for k in c.mro:
        init = k.methods.get("__init__")
        if init is None:
            continue
        for call in P.calls_in(init):
            if dotted(call.func) == "RecordTensor.create" and len(call.args) >= 2 and isinstance(call.args[1], ast.Constant):
                out[call.args[1].value] = (call, init)
    return out


def check(ctx):
    P = ctx.prog
    helper = P.fn("_synparam_at", module="synapses.mixins")
    ctx.touch(helper)

    # ---------------- (a) roles at every _synparam_at call site
    sites = []
    for f in P.funcs:
        for c in P.calls_in(f):
            r = P.resolve_call(f, c)
            if r is not None and r[0] is helper:
                sites.append((f, c))
    ctx.require("C04.a", "_synparam_at call sites", len(sites), 6)
    G.g2_name_swap(ctx, sorted({f for f, _ in sites}, key=lambda f: f.short), rule="C04.a/G2")
    G.g1_signatures(ctx, sorted({f for f, _ in sites}, key=lambda f: f.short), rule="C04.a/G1")
    params = helper.params(skip_self=False)
    for f, c in sites:
        bound = {p: a for p, a in zip(params, c.args)}
        bound.update({k.arg: k.value for k in c.keywords if k.arg})
        for role in ("tolerance", "overbound"):
            a = bound.get(role)
            stem = (a.attr if isinstance(a, ast.Attribute) else getattr(a, "id", "")).lower() if a is not None else ""
            ok = role in stem
            ctx.ob("C04.a", f"{f.short} -> _synparam_at: '{role}' slot", ok,
                   f"receives {ast.unparse(a) if a is not None else 'nothing'}" + ("" if ok else f" — not the {role} configured for this record"),
                   P.loc(f, c), c)
        ctx.touch(f)
    # the fields hold what the constructor was given under that name
    for cname in ("CurrentMixin", "SpikeMixin"):
        c = P.cls_in(cname, "synapses.mixins")
        init = c.methods["__init__"]
        for fld, par in (("__tolerance", "tolerance"), ("__overbound", "overbound"), ("__interp", "interpolation"), ("__interp_kwargs", "interp_kwargs")):
            st = [n for n in walk_own(init.node) if isinstance(n, ast.Assign) and is_self_attr(n.targets[0], fld)]
            ok = bool(st) and all(any(isinstance(x, ast.Name) and x.id == par for x in ast.walk(s.value)) and
                                  not any(isinstance(x, ast.Name) and x.id in {"tolerance", "overbound", "interpolation", "interp_kwargs"} - {par} for x in ast.walk(s.value))
                                  for s in st)
            ctx.ob("C04.a", f"{cname}.__init__: self.{fld} <- {par}", ok, "", init.where)

    # ---------------- (d) selector / overbound structure
    specs.compare(ctx, "C04.d", "_synparam_at: undelayed iff recordsz==1; clamp to [0, duration]; overbound replacement", helper, SYNPARAM_SPEC,
                  source="_synparam_at docstring / C04", inline_depth=0)
    dexp = P.cls("DoubleExponentialCurrent")
    cat = dexp.methods.get("current_at")
    if cat is None:
        raise AnalysisError("anchor vanished: DoubleExponentialCurrent.current_at")
    specs.compare(ctx, "C04.d", "DoubleExponentialCurrent.current_at agrees with _synparam_at (hand-inlined twin)", cat, DEXP_AT_SPEC,
                  source="sibling _synparam_at", inline_depth=0)

    # ---------------- (b) recurrences
    dc = P.cls("DeltaCurrent")
    tc = dc.methods.get("_to_current")
    if tc is None:
        raise AnalysisError("anchor vanished: DeltaCurrent._to_current")
    specs.compare(ctx, "C04.b", "DeltaCurrent._to_current = spikes * Q/dt", tc, "spikes * (self.spike_charge / self.dt)",
                  source="docs/zoo/synapses-current.md (Delta)")
    init = dc.methods["__init__"]
    inner = [n for n in init.node.body if isinstance(n, ast.FunctionDef) and n.name == "spike_to_current"]
    ok = False
    if inner:
        b = terms.Builder(P, init, {})
        got = b.run(strip_doc(inner[0].body))
        ok = got is not None and nf.equal(got, specs.spec_term("spikes * (synapse.spike_charge / synapse.dt)"))
    ctx.ob("C04.b", "DeltaCurrent derived current = spikes * Q/dt", ok, "", init.where)
    nrec = 0
    for cname, table in RECURRENCES.items():
        c = P.cls(cname)
        f = c.methods.get("forward")
        if f is None:
            raise AnalysisError(f"anchor vanished: {cname}.forward")
        ctx.touch(f)
        b = terms.Builder(P, f, {}, inline_depth=0)
        b.run(strip_doc(f.node.body))
        for attr, spec in table.items():
            nrec += 1
            got = b.stores.get(attr)
            want = specs.spec_term(spec)
            ok = got is not None and nf.equal(got, want)
            ctx.ob("C04.b", f"{cname}.forward: {attr} recurrence", ok,
                   f"= {nf.show(want)[:160]}" if ok else f"stores {nf.show(got)[:200] if got is not None else 'nothing'}; documented {nf.show(want)[:200]}",
                   f.where)
    ctx.require("C04.b", "recurrences", nrec, 4)
    cur = dexp.props.get("current", {}).get("get")
    specs.compare(ctx, "C04.b", "DoubleExponentialCurrent.current = I_d - I_r", cur, "self.pos_current_.peek() - self.neg_current_.peek()",
                  source="docs/zoo/synapses-current.md (double exponential)", inline_depth=0)

    # ---------------- (c) one observation per record per step
    for cname in SYNAPSES:
        c = P.cls(cname)
        f = c.methods.get("forward")
        ctx.touch(f)
        g = CFG(f.node)
        recs = _record_names(P, c)
        # properties whose setter pushes to a record created in the MRO
        rec_props = {}
        for k in c.mro:
            for pname, fs in k.props.items():
                s = fs.get("set")
                if s is None or pname in rec_props:
                    continue
                if c.find_prop(pname, "set") is not s:
                    continue
                for call in P.calls_in(s):
                    if isinstance(call.func, ast.Attribute) and call.func.attr == "push" and is_self_attr(call.func.value) and call.func.value.attr in recs:
                        rec_props[pname] = (s, call)
        ctx.ob("C04.c", f"{cname}: spike record is record-backed", "spike" in rec_props, f"record-backed properties {sorted(rec_props)}", f.where)
        for pname, (s, pcall) in sorted(rec_props.items()):
            nodes = [n for n in g.nodes if n.kind == "stmt" and isinstance(n.ast, ast.Assign) and any(is_self_attr(t, pname) for t in n.ast.targets)]
            once = len(nodes) == 1 and g.must_pass(nodes) and not g.can_follow(nodes[0], nodes[0])
            ctx.ob("C04.c", f"{cname}.forward assigns '{pname}' exactly once per step", once,
                   "all histories advance in lock step" if once else f"{len(nodes)} assignment site(s): the '{pname}' history advances a different number of slots than the others",
                   f.where)
            inp = kwarg(pcall, "inplace", 1)
            ok = inp is not None and dotted(inp) == "self.inplace"
            ctx.ob("C04.c", f"{s.short}: push receives self.inplace", ok, ast.unparse(pcall), s.where)
        sp = [n for n in g.nodes if n.kind == "stmt" and isinstance(n.ast, ast.Assign) and any(is_self_attr(t, "spike") for t in n.ast.targets)]
        ok = False
        if sp:
            bsp = terms.Builder(P, f, {}, inline_depth=0, erase_casts=False)
            terms.prime(bsp, f.node, sp[0].ast)
            got = bsp.t(sp[0].ast.value)
            ok = any(nf.equal(got, terms.Builder(P, f, {}, inline_depth=0, erase_casts=False).t(ast.parse(w, mode="eval").body))
                     for w in ("inputs[0].bool()", "inputs[0].to(dtype=torch.bool)"))
        ctx.ob("C04.c", f"{cname}.forward records spikes = inputs[0].bool()", ok, "", f.where)
        rets = [s for s in walk_own(f.node) if isinstance(s, ast.Return)]
        ok = bool(rets) and all(dotted(r.value) == "self.current" for r in rets)
        ctx.ob("C04.c", f"{cname}.forward returns the present current", ok, "", f.where)

    # ---------------- (e) sizing and ctor/clear pairing
    records_sized_and_registered(ctx, "C04.e")
    for cname in SYNAPSES:
        c = P.cls(cname)
        recs = _record_names(P, c)
        clr = c.find_method("clear")
        ctx.touch(clr)
        reset = {x.func.value.attr for x in P.calls_in(clr) if isinstance(x.func, ast.Attribute) and x.func.attr == "reset" and is_self_attr(x.func.value)}
        ok = reset == set(recs)
        ctx.ob("C04.e", f"{cname}.clear resets exactly the records its constructors created", ok,
               f"records {sorted(recs)}, reset {sorted(reset)}" + ("" if ok else " — a history survives clear() (or a non-record is reset)"), clr.where)
        # reset values: spikes False, currents 0.0
        for x in P.calls_in(clr):
            if isinstance(x.func, ast.Attribute) and x.func.attr == "reset" and is_self_attr(x.func.value):
                v = x.args[0] if x.args else None
                rest = isinstance(v, ast.Constant) and ((x.func.value.attr.startswith("spike") and v.value is False) or (not x.func.value.attr.startswith("spike") and v.value == 0))
                ctx.ob("C04.e", f"{cname}.clear: {x.func.value.attr} reset to the resting value", rest, ast.unparse(x), P.loc(clr, x), x)
    # ---------------- (f) the delay / step-time setters every synapse inherits reach its records (tables shared with C14)
    ctx.import_clauses("C14", {"C14.t", "C14.c"}, "C04.f", pick=lambda s: s.startswith(("DelayedMixin", "BatchMixin")), minimum=4)
    ctx.assume("RecordTensor.select/peek/push behave as decided in C01/C02")


def records_sized_and_registered(ctx, rule):
    """Every history record of a synapse is created with (self.dt, self.delay, inclusive=True) and registered through
    add_delayed and add_batched, so that the dt / delay / batch-size setters reach it (shared with C06.f: a record the delay
    setter does not reach is read at the old step time)."""
    P = ctx.prog
    for cname in SYNAPSES:
        c = P.cls(cname)
        recs = _record_names(P, c)
        ctx.require(rule, f"records of {cname}", len(recs), 1)
        for name, (call, init) in sorted(recs.items()):
            a = call.args
            ok = len(a) >= 4 and dotted(a[2]) == "self.dt" and dotted(a[3]) == "self.delay" and \
                isinstance(kwarg(call, "inclusive"), ast.Constant) and kwarg(call, "inclusive").value is True
            ctx.ob(rule, f"{cname}: record '{name}' created with (self.dt, self.delay, inclusive=True)", ok, ast.unparse(call)[:120], P.loc(init, call), call)
            regs = {dotted(x.func): [y.value for y in x.args if isinstance(y, ast.Constant)] for x in P.calls_in(init)
                    if dotted(x.func) in ("self.add_delayed", "self.add_batched") and any(isinstance(y, ast.Constant) and y.value == name for y in x.args)}
            ok = "self.add_delayed" in regs and "self.add_batched" in regs
            ctx.ob(rule, f"{cname}: record '{name}' registered through add_delayed and add_batched", ok, f"{sorted(regs)}", P.loc(init, call), call)
