"""C01.j - decision tables of RecordTensor's small state-changing methods.

Each method is summarised on all paths (returned value, refusals, stores to the pointer / storage, and the ordered calls it
makes) and compared, modulo the normal form, with the table written here from the method's documentation.  The tables are
the list model's operations: push = (initialise if needed) ; write at the write position ; advance -- pop = step back ; read
the slot just vacated -- reset = refill / realign and return to slot 0 -- and so on."""
from __future__ import annotations

from ..model import AnalysisError
from .. import specs

OPTS = dict(inline_depth=0, keep_raises=True, track_locals=True, track_effects=True, erase_validation=True, erase_persistence=True, inline_new=2, bind_args=True)

TABLES = {
    "push": ("push = initialise absent storage like the observation (its dtype only when the storage is untyped), write at offset 0, advance by one", """
def spec(self, obs, inplace=False):
    if self._ignore(self.__data):
        self.initialize(obs.shape, device=obs.device, dtype=(obs.dtype if self.__data is None else None), fill=0)
    self.write(obs, offset=0, inplace=inplace)
    self.incr(1)
"""),
    "pop": ("pop = None on absent storage, else step back one slot and return the slot now at the write position", """
def spec(self):
    if self._ignore(self.__data):
        return None
    self.decr(1)
    return self.read(0)
"""),
    "peek": ("peek = None on absent storage, else the newest observation (one step back)", """
def spec(self):
    if self._ignore(self.__data):
        return None
    return self.read(1)
"""),
    "incr": ("incr refuses absent storage, else moves the write position forward by pos (mod recordsz)", """
def spec(self, pos=1):
    if self._ignore(self.__data):
        raise RuntimeError("uninitialized")
    self.__pointer = _unwind_ptr(self.__pointer, -pos, self.__recordsz)
    return self.__pointer
"""),
    "decr": ("decr refuses absent storage, else moves the write position back by pos (mod recordsz)", """
def spec(self, pos=1):
    if self._ignore(self.__data):
        raise RuntimeError("uninitialized")
    self.__pointer = _unwind_ptr(self.__pointer, pos, self.__recordsz)
    return self.__pointer
"""),
    "reset": ("reset(fill) = overwrite every slot of present storage with fill and return to slot 0; reset(None) = align(0)", """
def spec(self, fill=0):
    data = self.__data
    if fill is None:
        self.align(0)
    else:
        if not self._ignore(data):
            with torch.no_grad():
                data.fill_(fill)
        self.__pointer = 0
"""),
    "align": ("align(i) refuses absent storage, else rolls the ring by i - pointer and sets the pointer to i", """
def spec(self, index=0):
    data = self.__data
    if self._ignore(data):
        raise RuntimeError("uninitialized")
    self.__data = data.roll(index - self.__pointer, 0)
    self.__pointer = index
"""),
    "initialize": ("initialize = storage of shape (recordsz, *shape) filled with fill (materialised in place, like the typed empty tensor, or fresh) and pointer 0", """
def spec(self, shape, device=None, dtype=None, fill=0):
    data, recordsz = self.__data, self.__recordsz
    if isinstance(data, nn.UninitializedBuffer | nn.UninitializedParameter):
        data.materialize((recordsz, *shape), device=device, dtype=dtype)
        with torch.no_grad():
            data.fill_(fill)
    elif isinstance(data, torch.Tensor):
        self.__data = full(data, fill, shape=(recordsz, *shape), dtype=dtype, device=device)
    else:
        self.__data = torch.full((recordsz, *shape), fill, dtype=dtype, device=device)
    self.__pointer = 0
    return self.__data
"""),
    "deinitialize": ("deinitialize = storage replaced by an empty (or uninitialised) tensor of the same kind, dtype, device and requires_grad; pointer 0", """
def spec(self, use_uninitialized=False):
    data = self.__data
    if isinstance(data, nn.Parameter):
        if use_uninitialized:
            self.__data = nn.UninitializedParameter(requires_grad=data.requires_grad, device=data.device, dtype=data.dtype)
        elif isinstance(data, nn.UninitializedParameter):
            self.__data = nn.Parameter(torch.empty(0, dtype=data.dtype, device=data.device), data.requires_grad)
        else:
            data.data = empty(data, shape=(0,))
    elif isinstance(data, torch.Tensor):
        if use_uninitialized:
            self.__data = nn.UninitializedBuffer(requires_grad=data.requires_grad, device=data.device, dtype=data.dtype)
        elif isinstance(data, nn.UninitializedBuffer):
            self.__data = torch.empty(0, dtype=data.dtype, device=data.device, requires_grad=data.requires_grad)
        else:
            self.__data = empty(data, shape=(0,))
    elif use_uninitialized:
        self.__data = nn.UninitializedBuffer()
    else:
        self.__data = torch.empty(0)
    self.__pointer = 0
    return self.__data
"""),
    "__init__": ("construction = size max(ceil(duration/dt) + inclusive, 1); given storage is copied into every slot (unsqueeze + repeat: each slot owns its memory); constraints shifted past the time dimension; dt / duration / inclusive / pointer registered on the owner", """
def spec(self, owner, name, step_time, duration, value, constraints=None, persist_data=True, persist_constraints=False,
         persist_temporal=False, strict=True, live=False, inclusive=False):
    size = max(math.ceil(duration / step_time) + bool(inclusive), 1)
    constraints = {(d + 1 if d >= 0 else d): s for d, s in (constraints if constraints else {}).items()} | {0: size}
    if not self._ignore(value):
        if isinstance(value, nn.Parameter):
            value.data = value.data.unsqueeze(0).repeat(*chain((size,), repeat(1, times=value.ndim)))
        else:
            value = value.unsqueeze(0).repeat(*chain((size,), repeat(1, times=value.ndim)))
    ShapedTensor.__init__(self, owner, name, value, constraints, persist_data=persist_data,
                          persist_constraints=persist_constraints, strict=strict, live=live)
    self.__owner = weakref.ref(owner)
    self.__finalizer = weakref.finalize(self, _recordtensor_finalization, self.__owner, self.name)
    self.__attributes = RecordTensor.LinkedAttributes(
        ShapedTensor.attributes.fget(self).data, ShapedTensor.attributes.fget(self).constraints,
        f"_{self.name}_dt", f"_{self.name}_duration", f"_{self.name}_inclusive", f"_{self.name}_pointer")
    if isinstance(owner, Module) and persist_temporal:
        owner.register_extra(self.__attributes.dt, step_time)
        owner.register_extra(self.__attributes.duration, duration)
        owner.register_extra(self.__attributes.inclusive, inclusive)
    else:
        setattr(owner, self.__attributes.dt, step_time)
        setattr(owner, self.__attributes.duration, duration)
        setattr(owner, self.__attributes.inclusive, inclusive)
    if isinstance(owner, Module):
        owner.register_extra(self.__attributes.pointer, 0)
    else:
        setattr(owner, self.__attributes.pointer, 0)
"""),
}


def check(ctx, rt):
    for name, (what, src) in TABLES.items():
        f = rt.methods.get(name)
        if f is None:
            raise AnalysisError(f"anchor vanished: RecordTensor.{name}")
        specs.compare_full(ctx, "C01.j", f"RecordTensor.{name}: {what}", f, src, source="method docstring / list model", **OPTS)
