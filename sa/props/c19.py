"""C19 — spike encoders respect shape, rate limit, silence at zero and refractory gap (structure)."""
from __future__ import annotations

import ast

from ..model import walk_own, dotted, is_self_attr, strip_doc, AnalysisError, kwarg, walk_ordered
from .. import grules as G, nf, terms, specs

EXPLANATION = (
    "Decides for the seven encoding functions and the encoder classes: (a) every returned / yielded value is boolean "
    "(dtype abstract interpretation); (b) offline encoders return a leading (time) length of exactly `steps` - symbolic "
    "leading-length analysis through expand / new_zeros / scatter_ / slicing / repeat - with every scatter index bounded below "
    "the target's length, and online encoders yield once per iteration of range(steps); the online interval encoder masks "
    "spikes with inputs > 0; (c) every documented hyper-parameter (refrac, compensate, step_time, steps) has a value flow to the "
    "result (no conditional with identical arms that kills a parameter); (d) every random draw receives the `generator` "
    "argument; (e) in a masked store X[m] = e every tensor operand of e aligned with X is indexed by m (sibling agreement "
    "between the two online interval encoders); (f) the encoder mixins' setters read no undefined private, and each encoder "
    "class passes its own steps / dt / refrac / compensated / generator to the function it calls, with frequency * inputs as "
    "the rate. Not decided: for-all-seeds gap and silence guarantees (distributional facts)."
)
TECHNIQUE = "static analysis: dtype and symbolic leading-length abstract interpretation, dead-parameter rule, generator threading, mask-index consistency, name-mangling resolution, keyword/attribute wiring"
LEVEL_TEXT = "All-paths static decision of output dtype, time length, parameter flow, generator threading and mask indexing of the encoders; random-schedule guarantees are not decided."
LEVEL_NOTE = "Trusts torch's dtype/shape semantics for the ops in the transfer table and the engine."
DESIGN_REF = "DESIGN.md §5 C19"

OFFLINE = ("poisson_interval", "homogeneous_poisson_exp_interval", "homogenous_poisson_bernoulli_approx")
ONLINE = ("poisson_interval_online", "homogeneous_poisson_exp_interval_online", "homogenous_poisson_bernoulli_approx_online")
ALL = OFFLINE + ONLINE + ("inhomogeneous_poisson_bernoulli_approx",)
DRAWS = {"torch.poisson", "torch.bernoulli", "torch.rand", "torch.rand_like", "torch.randn", "torch.multinomial", "torch.normal"}
DRAW_METHODS = {"exponential_", "uniform_", "normal_", "bernoulli_", "random_", "geometric_", "poisson"}


class Shape:
    """Abstract value: (is_bool: True/False/None, lead: nf term or None)."""

    def __init__(self, isbool=None, lead=None):
        self.isbool, self.lead = isbool, lead


class Interp:
    def __init__(self, ctx, f):
        self.ctx, self.f = ctx, f
        self.env: dict[str, Shape] = {}
        self.b = terms.Builder(None, None, {"steps": nf.sym("steps")})
        self.scatter_bounds = []
        self.unknown = set()

    def term(self, e):
        try:
            return self.b.t(e)
        except Exception:
            return None

    def ev(self, e) -> Shape:
        if isinstance(e, ast.Name):
            return self.env.get(e.id, Shape())
        if isinstance(e, ast.Compare):
            l = self.ev(e.left)
            return Shape(True, l.lead)
        if isinstance(e, ast.UnaryOp) and isinstance(e.op, ast.Invert):
            v = self.ev(e.operand)
            return Shape(v.isbool, v.lead)
        if isinstance(e, ast.BinOp):
            a, b = self.ev(e.left), self.ev(e.right)
            return Shape(False, a.lead if a.lead is not None else b.lead)
        if isinstance(e, ast.Subscript):
            v = self.ev(e.value)
            sl = e.slice.elts[0] if isinstance(e.slice, ast.Tuple) else e.slice
            lead = v.lead
            if isinstance(sl, ast.Slice) and lead is not None:
                lo = self.term(sl.lower) if sl.lower is not None else nf.C(0)
                if sl.upper is None:
                    hi = lead
                else:
                    u = self.term(sl.upper)
                    c = u.as_const() if isinstance(u, nf.Rat) else None
                    hi = lead + u if c is not None and c < 0 else u
                lead = hi - lo
            elif not isinstance(sl, ast.Slice):
                lead = None
            return Shape(v.isbool, lead)
        if isinstance(e, ast.Call):
            d = dotted(e.func)
            name = e.func.attr if isinstance(e.func, ast.Attribute) else d
            recv = self.ev(e.func.value) if isinstance(e.func, ast.Attribute) and not (d or "").startswith(("torch.", "ein.", "math.")) else None
            if name == "bool":
                return Shape(True, recv.lead if recv else None)
            if d in ("torch.logical_and", "torch.logical_or", "torch.logical_not", "torch.logical_xor"):
                a = self.ev(e.args[0])
                return Shape(True, a.lead)
            if d in ("torch.zeros_like", "torch.ones_like", "torch.empty_like", "torch.full_like"):
                a = self.ev(e.args[0])
                dt = kwarg(e, "dtype")
                return Shape((dotted(dt) == "torch.bool") if dt is not None else a.isbool, a.lead)
            if name in ("new_zeros", "new_empty", "new_ones", "new_full") and recv is not None:
                dt = kwarg(e, "dtype")
                lead = self.term(e.args[0]) if e.args and not isinstance(e.args[0], ast.Starred) else None
                return Shape((dotted(dt) == "torch.bool") if dt is not None else recv.isbool, lead)
            if name == "expand" and recv is not None:
                lead = self.term(e.args[0]) if e.args and not isinstance(e.args[0], ast.Starred) else None
                return Shape(recv.isbool, lead)
            if name in ("scatter_", "scatter") and recv is not None:
                idx = e.args[1] if len(e.args) > 1 else None
                if idx is not None:
                    self.scatter_bounds.append((e, recv.lead, idx))
                return Shape(recv.isbool, recv.lead)
            if name in ("cumsum", "clamp_max_", "clamp_max", "clamp_min", "clamp", "exponential_", "abs", "float") and recv is not None:
                return Shape(False if recv.isbool is not True or name != "clamp" else None, recv.lead)
            if name in ("long", "int") and recv is not None:
                return Shape(False, recv.lead)
            if d in ("torch.poisson", "torch.bernoulli"):
                a = self.ev(e.args[0])
                return Shape(False, a.lead)
            if d == "ein.repeat":
                pat = e.args[1].value if len(e.args) > 1 and isinstance(e.args[1], ast.Constant) else ""
                a = self.ev(e.args[0])
                out = pat.split("->")[1].split() if "->" in pat else []
                lead = None
                if out:
                    kw = kwarg(e, out[0])
                    lead = self.term(kw) if kw is not None else None
                return Shape(a.isbool, lead)
            self.unknown.add(d or name or "?")
            return Shape()
        return Shape()

    def run(self, stmts):
        for st in stmts:
            if isinstance(st, ast.With):
                self.run(st.body)
            elif isinstance(st, ast.Assign):
                tg = st.targets[0]
                if isinstance(tg, ast.Name):
                    self.env[tg.id] = self.ev(st.value)
                    if tg.id == "steps":
                        self.env.pop("steps", None)
                elif isinstance(tg, ast.Tuple) and isinstance(st.value, ast.Tuple):
                    for t_, v_ in zip(tg.elts, st.value.elts):
                        if isinstance(t_, ast.Name):
                            self.env[t_.id] = self.ev(v_)
            elif isinstance(st, ast.AugAssign):
                pass   # in-place arithmetic keeps dtype and shape
            elif isinstance(st, (ast.For, ast.If)):
                self.run(st.body)
                self.run(getattr(st, "orelse", []))


def check(ctx):
    P = ctx.prog
    mod = "neural.functional.encoding"
    funcs = {n: P.fn(n, module=mod) for n in ALL}
    unknown = set()
    for name, f in funcs.items():
        ctx.touch(f)
        it = Interp(ctx, f)
        it.run(strip_doc(f.node.body))
        unknown |= it.unknown
        outs = [(n, n.value) for n in walk_own(f.node) if isinstance(n, ast.Return) and n.value is not None]
        outs += [(n, n.value) for n in walk_own(f.node) if isinstance(n, ast.Yield) and n.value is not None]
        # ---------------- (a) boolean outputs
        for n, v in outs:
            sh = it.ev(v)
            ctx.ob("C19.a", f"{name}: `{ast.unparse(v)[:40]}` is a boolean spike train", sh.isbool is True,
                   "" if sh.isbool is True else ("dtype is not boolean" if sh.isbool is False else "dtype could not be established as boolean"), P.loc(f, n), n)
        ctx.ob("C19.a", f"{name} produces an output", bool(outs), "", f.where)
        # ---------------- (b) time length
        if name in OFFLINE:
            for n, v in outs:
                sh = it.ev(v)
                ok = sh.lead is not None and nf.equal(sh.lead, nf.sym("steps"))
                ctx.ob("C19.b", f"{name}: output has exactly `steps` time slices", ok,
                       f"leading length = {nf.show(sh.lead) if sh.lead is not None else 'unknown'}", P.loc(f, n), n)
            for call, lead, idx in it.scatter_bounds:
                # index bounded by clamp_max(_)(B) with B < lead
                bound = None
                if isinstance(idx, ast.Name):
                    for st in walk_ordered(f.node):
                        if isinstance(st, ast.Assign) and isinstance(st.targets[0], ast.Name) and st.targets[0].id == idx.id:
                            for c in ast.walk(st.value):
                                if isinstance(c, ast.Call) and isinstance(c.func, ast.Attribute) and c.func.attr in ("clamp_max_", "clamp_max") and c.args:
                                    bound = it.term(c.args[0])
                ok = bound is not None and lead is not None and (lead - bound).as_const() is not None and (lead - bound).as_const() >= 1
                ctx.ob("C19.b", f"{name}: scatter index is clamped below the target's time length", ok,
                       f"index <= {nf.show(bound) if bound is not None else '?'}, target length {nf.show(lead) if lead is not None else '?'}", P.loc(f, call), call)
        elif name in ONLINE:
            loops = [n for n in walk_own(f.node) if isinstance(n, ast.For)]
            ok = len(loops) == 1 and isinstance(loops[0].iter, ast.Call) and dotted(loops[0].iter.func) == "range" and len(loops[0].iter.args) == 1 \
                and ast.unparse(loops[0].iter.args[0]) in ("steps", "int(steps)")
            ys = [n for lp in loops for n in ast.walk(lp) if isinstance(n, ast.Yield)]
            cond = [n for lp in loops for n in ast.walk(lp) if isinstance(n, (ast.If, ast.Continue, ast.Break))]
            allys = [n for n in walk_own(f.node) if isinstance(n, ast.Yield)]
            ctx.ob("C19.b", f"{name}: one yield per iteration of range(steps)", ok and len(ys) == 1 and len(allys) == 1 and not cond, "", f.where)
    # zero-intensity masking in the online interval encoder
    f = funcs["poisson_interval_online"]
    mk = [n for n in walk_own(f.node) if isinstance(n, ast.Assign) and isinstance(n.targets[0], ast.Name) and n.targets[0].id == "mask"]
    sp = [n for n in walk_own(f.node) if isinstance(n, ast.Assign) and isinstance(n.targets[0], ast.Name) and n.targets[0].id == "spikes"]
    ok = len(mk) == 1 and ast.unparse(mk[0].value) == "inputs > 0" and len(sp) == 1 and isinstance(sp[0].value, ast.Call) \
        and dotted(sp[0].value.func) == "torch.logical_and" and any(isinstance(a, ast.Name) and a.id == "mask" for a in sp[0].value.args)
    ctx.ob("C19.b", "poisson_interval_online: spikes are masked by inputs > 0 (silence at zero intensity)", ok, "", f.where)
    f = funcs["poisson_interval"]
    # the rate handed to the sampler is (1000 / (f dt)) where f > 0 and exactly 0 elsewhere, however the masking is written
    pois = [c for c in P.calls_in(f) if dotted(c.func) == "torch.poisson"]

    def rate_before(stmts, stop_call):
        b_ = terms.Builder(P, f, {}, inline_depth=0)
        def run(block):
            for st_ in block:
                if isinstance(st_, ast.With):
                    if run(st_.body):
                        return True
                    continue
                if any(x is stop_call for x in ast.walk(st_)):
                    return True
                try:
                    b_.stmt(st_)
                except terms.Opaque:
                    pass
            return False
        run(stmts)
        return b_
    ok = False
    got = None
    if len(pois) == 1 and pois[0].args:
        b_ = rate_before(strip_doc(f.node.body), pois[0])
        arg = pois[0].args[0]
        base = arg.func.value if isinstance(arg, ast.Call) and isinstance(arg.func, ast.Attribute) and arg.func.attr in ("expand", "expand_as", "repeat") else arg
        got = b_.t(base)
        want = terms.Builder(P, f, {}, inline_depth=0)
        for st_ in ast.parse("mask = inputs > 0\ninputs = (1 / inputs) * (1000.0 / step_time)\ninputs[~mask] = 0").body:
            want.stmt(st_)
        ok = isinstance(got, nf.Rat) and nf.equal(got, want.env["inputs"])
    ctx.ob("C19.b", "poisson_interval: zero-intensity elements get rate 0 (their cumulative index stays 0 and is sliced off)", ok,
           f"rate handed to the sampler: {nf.show(got)[:160] if got is not None else 'not found'}", f.where)
    if unknown:
        ctx.note(f"ops without a transfer function (evaluated as unknown, never a pass): {sorted(unknown)}")

    # ---------------- (g) interval terms of the refractory encoders: mean interval 1000/(f*dt) steps, minus the refractory
    # period iff compensated, every drawn interval shifted by the refractory period (in steps)
    R = "(step_time if refrac is None else refrac) / step_time"
    base = f"(1 / inputs) * (1000.0 / step_time) - (({R}) if compensate else 0)"
    for name in ("homogeneous_poisson_exp_interval", "homogeneous_poisson_exp_interval_online"):
        f = funcs[name]
        b = terms.Builder(None, None, {})
        body = strip_doc(f.node.body)
        # the scale applied to the exponential draw and the additive refractory offset
        draws = [c for c in P.calls_in(f) if isinstance(c.func, ast.Attribute) and c.func.attr == "exponential_"]
        ok_all = bool(draws)
        for d in draws:
            # parent expression: <draw> * scale + offset
            parent = scale_e = off_e = None
            for n in ast.walk(f.node):
                if isinstance(n, ast.BinOp) and isinstance(n.op, ast.Add):
                    for mul, other in ((n.left, n.right), (n.right, n.left)):
                        if isinstance(mul, ast.BinOp) and isinstance(mul.op, ast.Mult) and (mul.left is d or mul.right is d):
                            parent, off_e, scale_e = n, other, (mul.right if mul.left is d else mul.left)
            if parent is None:
                ok_all = False
                continue
            bb = terms.Builder(None, None, {})
            terms.prime(bb, f.node, parent, take_if=lambda t: t == "compensate")
            scale_c = bb.t(scale_e)
            off = bb.t(off_e)
            bb2 = terms.Builder(None, None, {})
            terms.prime(bb2, f.node, parent, take_if=None)
            scale_n = bb2.t(scale_e)
            want_c = specs.spec_term(f"(1 / inputs) * (1000.0 / step_time) - ({R})")
            want_n = specs.spec_term("(1 / inputs) * (1000.0 / step_time)")
            want_off = specs.spec_term(R)
            idx_ok = True
            if isinstance(scale_e, ast.Subscript):
                scale_c = scale_n = None   # masked online re-draw: inputs[spikes] (checked by C19.e); compare the underlying name
                nm = scale_e.value
                scale_c, scale_n = bb.t(nm), bb2.t(nm)
            ok = nf.equal(scale_c, want_c) and nf.equal(scale_n, want_n) and nf.equal(off, want_off)
            ok_all = ok_all and ok
        ctx.ob("C19.g", f"{name}: interval = Exp(1) * (1000/(f*dt) - [refrac/dt if compensate]) + refrac/dt", ok_all,
               "" if ok_all else "the drawn inter-spike interval is not scaled / shifted as documented: the minimum gap or the mean rate is wrong", f.where)
        cps = [n for n in walk_own(f.node) if isinstance(n, ast.If) and isinstance(n.test, ast.Name) and n.test.id == "compensate"]
        ctx.ob("C19.g", f"{name}: the refractory compensation is applied iff `compensate`", len(cps) == 1 and not cps[0].orelse, "", f.where)
    # ---------------- (c) parameter flow
    n = G.g10_identical_arms(ctx, list(funcs.values()), rule="C19.c/G10")
    for name, f in funcs.items():
        params = [a.arg for a in f.node.args.args + f.node.args.kwonlyargs]
        for p in params:
            uses = [x for x in walk_own(f.node) if isinstance(x, ast.Name) and x.id == p and isinstance(x.ctx, ast.Load)]
            ctx.ob("C19.c", f"{name}: parameter '{p}' is used", bool(uses), "" if uses else "documented parameter never read", f.where)

    # ---------------- (d) generator threading
    nd = 0
    for name, f in funcs.items():
        for c in P.calls_in(f):
            d = dotted(c.func)
            is_draw = d in DRAWS or (isinstance(c.func, ast.Attribute) and c.func.attr in DRAW_METHODS and d not in DRAWS and not (d or "").startswith("torch."))
            if not is_draw:
                continue
            nd += 1
            g = kwarg(c, "generator")
            ok = isinstance(g, ast.Name) and g.id == "generator"
            ctx.ob("C19.d", f"{name}: random draw `{ast.unparse(c.func)[-30:]}` uses the caller's generator", ok,
                   "" if ok else "draw from the global RNG: the result is not reproducible from the generator state", P.loc(f, c), c)
    ctx.require("C19.d", "random draws", nd, 9)

    # ---------------- (e) mask-index consistency
    ne = 0
    for name in ONLINE:
        f = funcs[name]
        tensorish = {"inputs"}
        changed = True
        while changed:
            changed = False
            for st in walk_own(f.node):
                if isinstance(st, ast.Assign) and isinstance(st.targets[0], ast.Name) and st.targets[0].id not in tensorish:
                    if any(isinstance(x, ast.Name) and x.id in tensorish for x in ast.walk(st.value)):
                        tensorish.add(st.targets[0].id)
                        changed = True
        for st in walk_own(f.node):
            if isinstance(st, ast.Assign) and isinstance(st.targets[0], ast.Subscript) and isinstance(st.targets[0].slice, ast.Name) \
                    and isinstance(st.targets[0].value, ast.Name):
                m = st.targets[0].slice.id
                ne += 1
                indexed = {id(x.value) for x in ast.walk(st.value) if isinstance(x, ast.Subscript) and isinstance(x.slice, ast.Name) and x.slice.id == m}
                bad = [x.id for x in ast.walk(st.value) if isinstance(x, ast.Name) and x.id in tensorish and isinstance(x.ctx, ast.Load)
                       and id(x) not in indexed and x.id != m]
                ctx.ob("C19.e", f"{name}: masked store `{ast.unparse(st.targets[0])} = ...` indexes every aligned operand by {m}", not bad,
                       "" if not bad else f"operand(s) {bad} are full-sized while the target is `[{m}]`-selected: shapes only agree when every element spikes at once "
                       f"(sibling encoder indexes `inputs[{m}]`)", P.loc(f, st), st)
    ctx.require("C19.e", "masked stores in online encoders", ne, 2)

    # ---------------- (f) encoder classes
    enc_classes = [c for c in P.all_classes if ".neural.encoders." in c.module.name]
    ctx.require("C19.f", "encoder classes", len(enc_classes), 6)
    G.g3_mangled(ctx, enc_classes, rule="C19.f/G3")
    want = {"steps": "self.steps", "step_time": "self.dt", "refrac": "self.refrac", "compensate": "self.compensated", "generator": "self.generator"}
    for c in enc_classes:
        fw = c.methods.get("forward")
        if fw is None:
            continue
        ctx.touch(fw)
        for call in P.calls_in(fw):
            d = dotted(call.func) or ""
            if not d.startswith("nf."):
                continue
            callee = funcs.get(d[3:])
            if callee is None:
                continue
            bad = [f"{k.arg}={ast.unparse(k.value)}" for k in call.keywords if k.arg in want and dotted(k.value) != want[k.arg]]
            given = {k.arg for k in call.keywords}
            missing = [p.arg for p in callee.node.args.kwonlyargs if p.arg in want and p.arg not in given and p.arg != "generator"] + \
                      [p for p in ("generator",) if "generator" not in given]
            rate = call.args[0] if call.args else None
            rate_ok = rate is not None and ast.unparse(rate) in ("self.frequency * inputs", "inputs * self.frequency", "inputs")
            ctx.ob("C19.f", f"{c.name}.forward -> {d}: passes its own configuration", not bad and not missing and rate_ok,
                   "" if not bad and not missing and rate_ok else f"wrong {bad}, not passed {missing}, rate {ast.unparse(rate) if rate is not None else None}", P.loc(fw, call), call)
        onl = [s for s in walk_own(fw.node) if isinstance(s, ast.If) and isinstance(s.test, ast.Name) and s.test.id == "online"]
        if onl:
            t_ = [dotted(c_.func) for s in onl[0].body for c_ in ast.walk(s) if isinstance(c_, ast.Call)]
            e_ = [dotted(c_.func) for s in onl[0].orelse for c_ in ast.walk(s) if isinstance(c_, ast.Call)]
            ok = any(x and x.endswith("_online") for x in t_) and not any(x and x.endswith("_online") for x in e_)
            ctx.ob("C19.f", f"{c.name}.forward: online flag selects the generator variant", ok, "", fw.where)
    ctx.assume("torch ops in the transfer table preserve dtype / leading length as tabulated (scatter_, cumsum, expand, new_zeros, slicing, ein.repeat)")
