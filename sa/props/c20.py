"""C20 — numerical helpers are self-consistent (algebraic part)."""
from __future__ import annotations

import ast

from ..model import walk_own, dotted, strip_doc, AnalysisError
from ..cfg import CFG
from .. import grules as G, specs, nf, terms

EXPLANATION = (
    "Decides algebraically (rational-function / exp normal form): (a) for the seven matching pairs, interpolating at the "
    "sample time the value was extrapolated from returns the sample: interp_X(*extrap_X(s, t, p, n, dt), t, dt) == s; linear "
    "interpolation equals the convex combination (1 - t/dt)*prev + (t/dt)*next, hence prev at t = 0 and next at t = dt; the "
    "interp/extrap kernels equal their documented forms; (b) in every distribution one of (density, log-density) is defined "
    "from the other through exp / log with the same arguments, and logcdf = log(cdf(same arguments)); no function of the stats "
    "package unconditionally calls itself; (c) Poisson.logpmf, Normal.pdf, Normal.cdf, LogNormal.logpdf, the stated means and "
    "variances and the Normal mean/variance parameterisation round trip equal the documented formulas. Not decided: integration "
    "to one, moment matching by quadrature, the LogNormal parameter round trip (needs log/sqrt laws), ISI re-integration and the "
    "Victor-Purpura metric laws (dynamic programme over run-time values)."
)
TECHNIQUE = "static analysis: algebraic identity proofs by normal-form equality (rational functions, exp law, guarded ite), sibling exp/log structure, self-recursion rule on the CFG, documented-formula comparison"
LEVEL_TEXT = "Static algebraic proof of the interp/extrap inverses and the distribution formulas/sibling structure; integrals, moments by quadrature, ISI and metric laws are not decided."
LEVEL_NOTE = "Trusts the normaliser's theory (ring laws, exp law, ite under path facts, sign-preserving comparison scaling) and torch's special functions."
DESIGN_REF = "DESIGN.md §5 C20"

PAIRS = [("extrap_previous", "interp_previous"), ("extrap_next", "interp_next"), ("extrap_nearest", "interp_nearest"),
         ("extrap_linear_forward", "interp_linear"), ("extrap_linear_backward", "interp_linear"),
         ("extrap_expdecay", "interp_expdecay"), ("extrap_expratedecay", "interp_expratedecay")]
INTERP_SPECS = {
    "interp_previous": "prev_data", "interp_next": "next_data",
    "interp_nearest": "torch.where(sample_at / step_time > 0.5, next_data, prev_data)",
    "interp_linear": "prev_data + (next_data - prev_data) / step_time * sample_at",
    "interp_expdecay": "prev_data * torch.exp(-sample_at / time_constant)",
    "interp_expratedecay": "prev_data * torch.exp(-sample_at * rate_constant)",
}
EXTRAP_SPECS = {
    "extrap_previous": "(sample, next_data)", "extrap_next": "(prev_data, sample)", "extrap_neighbors": "(sample, sample)",
    "extrap_nearest": "(torch.where(sample_at > step_time / 2, prev_data, sample), torch.where(sample_at > step_time / 2, sample, next_data))",
    "extrap_linear_forward": "(prev_data, prev_data + (sample - prev_data) / sample_at * step_time)",
    "extrap_linear_backward": "(next_data - (next_data - sample) / (step_time - sample_at) * step_time, next_data)",
    "extrap_expdecay": "(sample * torch.exp(sample_at / time_constant), sample * torch.exp((sample_at - step_time) / time_constant))",
    "extrap_expratedecay": "(sample * torch.exp(sample_at * rate_constant), sample * torch.exp((sample_at - step_time) * rate_constant))",
}
DIST_SPECS = {
    ("Poisson", "logpmf"): ("torch.special.xlogy(support, rate) - rate - torch.lgamma(support + 1)", "docstring: k log(lambda) - lambda - log(k!)"),
    ("Poisson", "cdf"): ("torch.special.gammaincc(torch.floor(support + 1), rate)", "docstring: Q(floor(k + 1), lambda)"),
    ("Poisson", "mean"): ("rate", "docstring"), ("Poisson", "variance"): ("rate", "docstring"),
    ("Normal", "pdf"): ("1 / (scale * math.sqrt(math.tau)) * torch.exp(-0.5 * ((support - loc) / scale) ** 2)", "docstring"),
    ("Normal", "cdf"): ("0.5 * (1 + torch.special.erf((support - loc) / (scale * math.sqrt(2))))", "docstring"),
    ("Normal", "mean"): ("loc", "docstring"), ("Normal", "variance"): ("scale ** 2", "docstring"),
    ("Normal", "params_mv"): ("(mean, torch.sqrt(variance))", "docstring"),
    ("LogNormal", "logpdf"): ("-torch.log(scale) - torch.log(support) - 0.5 * (math.log(math.tau) + ((loc - torch.log(support)) / scale) ** 2)", "docstring"),
    ("LogNormal", "mean"): ("torch.exp(loc + scale ** 2 / 2)", "docstring"),
    ("LogNormal", "variance"): ("torch.special.expm1(scale ** 2) * torch.exp(2 * loc + scale ** 2)", "docstring"),
    ("LogNormal", "params_mv"): ("(torch.log(mean ** 2 / torch.sqrt(mean ** 2 + variance)), torch.sqrt(torch.log(1 + variance / mean ** 2)))", "docstring"),
}


def check(ctx):
    P = ctx.prog
    none = nf.app("const", "None")
    # ---------------- (a) interp / extrap
    for name, spec in INTERP_SPECS.items():
        specs.compare(ctx, "C20.a", f"{name} = documented form", P.fn(name, module="functional.interpolation"), spec, source="functional/interpolation.py docstring")
    for name, spec in EXTRAP_SPECS.items():
        specs.compare(ctx, "C20.a", f"{name} = documented form", P.fn(name, module="functional.extrapolation"), spec, env={"adjust": none},
                      source="functional/extrapolation.py docstring (adjust=None)")
    for ex, ip in PAIRS:
        fe, fi = P.fn(ex, module="functional.extrapolation"), P.fn(ip, module="functional.interpolation")
        ctx.touch(fe, fi)
        r, _ = terms.function_term(P, fe, {"adjust": none})
        ok, shown = False, "extrapolation does not return a pair"
        if isinstance(r, tuple) and len(r) == 2:
            back, _ = terms.function_term(P, fi, {"prev_data": r[0], "next_data": r[1]})
            ok = back is not None and nf.equal(back, nf.sym("sample"))
            shown = nf.show(back)[:200] if back is not None else "None"
        ctx.ob("C20.a", f"{ip}(*{ex}(sample, t, prev, next, dt), t, dt) == sample", ok,
               "identity holds for all sample times (algebraic proof)" if ok else f"composition normalises to {shown}, not to `sample`", fi.where)
    # the linear extrapolations with a user `adjust` of the bracket value: the adjusted value is used consistently
    ADJ = {
        "extrap_linear_forward": "def spec(sample, sample_at, prev_data, next_data, step_time, adjust):\n    p = adjust(prev_data) if adjust else prev_data\n    return (p, p + (sample - p) / sample_at * step_time)",
        "extrap_linear_backward": "def spec(sample, sample_at, prev_data, next_data, step_time, adjust):\n    n = adjust(next_data) if adjust else next_data\n    return (n - (n - sample) / (step_time - sample_at) * step_time, n)",
    }
    for name, spec in ADJ.items():
        fe = P.fn(name, module="functional.extrapolation")
        specs.compare(ctx, "C20.a", f"{name} (any adjust) = documented form", fe, spec, source="functional/extrapolation.py docstring (adjust given)")
        r, _ = terms.function_term(P, fe, {})
        ok = False
        if isinstance(r, tuple) and len(r) == 2:
            back, _ = terms.function_term(P, P.fn("interp_linear", module="functional.interpolation"), {"prev_data": r[0], "next_data": r[1]})
            ok = back is not None and nf.equal(back, nf.sym("sample"))
        ctx.ob("C20.a", f"interp_linear(*{name}(sample, t, prev, next, dt, adjust=f), t, dt) == sample for every adjust f", ok,
               "" if ok else "with a user adjust function the extrapolated bracket is not the one the slope was computed from: the round trip no longer returns the sample", fe.where)
    lin = P.fn("interp_linear", module="functional.interpolation")
    specs.compare(ctx, "C20.a", "interp_linear is the convex combination (1 - t/dt)*prev + (t/dt)*next", lin,
                  "(1 - sample_at / step_time) * prev_data + (sample_at / step_time) * next_data", source="C20: stays between the bracket values")
    for at, want in (("0", "prev_data"), ("step_time", "next_data")):
        t, _ = terms.function_term(P, lin, {"sample_at": specs.spec_term(at)})
        ctx.ob("C20.a", f"interp_linear at t = {at} equals {want}", t is not None and nf.equal(t, nf.sym(want)), nf.show(t) if t is not None else "", lin.where)

    # ---------------- (b) distribution sibling structure
    stats_funcs = P.module_funcs("stats.distributions") + P.module_funcs("stats.base")
    n9 = G.g9_self_recursion(ctx, stats_funcs, rule="C20.b/G9")
    ctx.require("C20.b", "functions in the stats package", n9, 40)
    ndist = 0
    for cname in ("Poisson", "Normal", "LogNormal"):
        c = P.cls(cname)
        dens = "pmf" if "pmf" in c.methods else "pdf"
        logd = "log" + dens
        fd, fl = c.methods.get(dens), c.methods.get(logd)
        fc, flc = c.methods.get("cdf"), c.methods.get("logcdf")
        if not all((fd, fl, fc, flc)):
            raise AnalysisError(f"anchor vanished: {cname} density/cdf methods")
        ctx.touch(fd, fl, fc, flc)
        ndist += 1
        pd_, pl_ = fd.params(), fl.params()

        def via(f, fn, other, params):
            r = [s for s in walk_own(f.node) if isinstance(s, ast.Return)]
            if len(r) != 1 or not isinstance(r[0].value, ast.Call) or dotted(r[0].value.func) != fn or len(r[0].value.args) != 1:
                return False
            inner = r[0].value.args[0]
            return isinstance(inner, ast.Call) and dotted(inner.func) in (f"cls.{other}", f"{cname}.{other}") and \
                [getattr(a, "id", None) for a in inner.args] == params
        d_from_l = via(fd, "torch.exp", logd, pd_)
        l_from_d = via(fl, "torch.log", dens, pl_)
        ctx.ob("C20.b", f"{cname}: {dens} and {logd} are defined from one another through exp/log", d_from_l != l_from_d and (d_from_l or l_from_d),
               f"{dens} = exp({logd})" if d_from_l else (f"{logd} = log({dens})" if l_from_d else "neither is defined through the other (or both are: mutual recursion)"), fd.where)
        ok = via(flc, "torch.log", "cdf", flc.params())
        ctx.ob("C20.b", f"{cname}.logcdf = log(cdf(same arguments))", ok,
               "" if ok else f"`{ast.unparse([s for s in walk_own(flc.node) if isinstance(s, ast.Return)][0])}` is not log(cdf(...)) of the same arguments", flc.where)
    ctx.require("C20.b", "distributions", ndist, 3)
    ln = P.cls("LogNormal")
    specs.compare(ctx, "C20.b", "LogNormal.cdf = Normal.cdf(log(support), loc, scale)", ln.methods["cdf"], "Normal.cdf(torch.log(support), loc, scale)",
                  source="docstring", inline_depth=0)
    specs.compare(ctx, "C20.b", "LogNormal.sample = exp(Normal.sample(loc, scale))", ln.methods["sample"], "torch.exp(Normal.sample(loc, scale, generator=generator))",
                  source="docstring", inline_depth=0)

    # ---------------- (c) formulas
    for (cname, m), (spec, src) in DIST_SPECS.items():
        f = P.cls(cname).methods.get(m)
        if f is None:
            raise AnalysisError(f"anchor vanished: {cname}.{m}")
        specs.compare(ctx, "C20.c", f"{cname}.{m} = documented formula", f, spec, source=src, inline_depth=0)
    # Normal mean/variance round trip: variance(params_mv(m, v)[1]) == v and mean(params_mv(m, v)[0]) == m
    nm = P.cls("Normal")
    pm, _ = terms.function_term(P, nm.methods["params_mv"], {}, inline_depth=0)
    ok = False
    if isinstance(pm, tuple) and len(pm) == 2:
        v2, _ = terms.function_term(P, nm.methods["variance"], {"scale": pm[1]}, inline_depth=0)
        m2, _ = terms.function_term(P, nm.methods["mean"], {"loc": pm[0]}, inline_depth=0)
        ok = nf.equal(v2, nf.sym("variance")) and nf.equal(m2, nf.sym("mean"))
    ctx.ob("C20.c", "Normal: mean/variance parameterisation round-trips", ok, "variance(params_mv(m, v).scale) == v and mean(params_mv(m, v).loc) == m", nm.methods["params_mv"].where)
    # ---------------- (d) Victor-Purpura dynamic programme and ISI: the documented recurrences / index shifts
    vp = P.fn("victor_purpura_pair_dist", module="core.math")
    ctx.touch(vp)
    loops = [n for n in walk_own(vp.node) if isinstance(n, ast.For)]
    outer = [lp for lp in loops if any(isinstance(x, ast.For) for x in lp.body)]
    ok = len(outer) == 1
    inner = [x for x in outer[0].body if isinstance(x, ast.For)][0] if ok else None
    if ok:
        rng = lambda lp: ast.unparse(lp.iter)
        ok = rng(outer[0]) == f"range(1, t0.numel() + 1)" and rng(inner) == "range(1, t1.numel() + 1)" \
            and outer[0].target.id == "r" and inner.target.id == "c"
    ctx.ob("C20.d", "victor_purpura_pair_dist: the table is filled for r in 1..n0, c in 1..n1", ok, "", vp.where)
    if inner is not None:
        env = {}
        b = terms.Builder(None, None, env)
        vals = {}
        for st in inner.body:
            if isinstance(st, ast.Assign) and isinstance(st.targets[0], ast.Name):
                vals[st.targets[0].id] = b.t(st.value)
        want = {"c_add_a": "grid[:, r - 1, c] + 1", "c_add_b": "grid[:, r, c - 1] + 1", "c_shift": "grid[:, r - 1, c - 1] + cost * torch.abs(t0[r - 1] - t1[c - 1])"}
        for k, spec in want.items():
            okk = k in vals and nf.equal(vals[k], specs.spec_term(spec))
            ctx.ob("C20.d", f"victor_purpura_pair_dist: {k} = {spec}", okk, nf.show(vals.get(k)) if k in vals else "missing", vp.where)
        st = [x for x in inner.body if isinstance(x, ast.Assign) and isinstance(x.targets[0], ast.Subscript)]
        okm = len(st) == 1 and ast.unparse(st[0].targets[0]) == "grid[:, r, c]" and ast.unparse(st[0].value).startswith("torch.stack((c_add_a, c_add_b, c_shift), 0)") \
            and ast.unparse(st[0].value).endswith(".amin(0)")
        ctx.ob("C20.d", "victor_purpura_pair_dist: cell = min(insert, delete, shift)", okm, "", vp.where)
    # boundary rows / columns, result cell and the two documented limits, compared as terms (not as text)
    def _T(e):
        return terms.Builder(P, vp, {}, inline_depth=0).t(e)

    def _S(src):
        return specs.spec_term(src)
    rows = {}
    for st_ in walk_own(vp.node):
        if isinstance(st_, ast.Assign) and isinstance(st_.targets[0], ast.Subscript) and isinstance(st_.targets[0].value, ast.Name) \
                and st_.targets[0].value.id == "grid" and isinstance(st_.targets[0].slice, ast.Tuple) and len(st_.targets[0].slice.elts) == 2:
            k = tuple("all" if isinstance(x, ast.Slice) and x.lower is None and x.upper is None else (x.value if isinstance(x, ast.Constant) else "?")
                      for x in st_.targets[0].slice.elts)
            ar = [c_ for c_ in ast.walk(st_.value) if isinstance(c_, ast.Call) and dotted(c_.func) == "torch.arange"]
            if ar and len(ar[0].args) >= 2:
                rows[k] = (_T(ar[0].args[0]), _T(ar[0].args[1]))
    ok = rows.get(("all", 0)) is not None and nf.equal(rows[("all", 0)][0], nf.C(0)) and nf.equal(rows[("all", 0)][1], _S("t0.numel() + 1")) \
        and rows.get((0, "all")) is not None and nf.equal(rows[(0, "all")][0], nf.C(0)) and nf.equal(rows[(0, "all")][1], _S("t1.numel() + 1"))
    rets_ = [r for r in walk_own(vp.node) if isinstance(r, ast.Return)]
    last = [r for r in rets_ if isinstance(r.value, ast.Subscript) and isinstance(r.value.value, ast.Name) and r.value.value.id == "grid"]
    ok = ok and len(last) == 1 and isinstance(last[0].value.slice, ast.Tuple) and [ast.unparse(x) for x in last[0].value.slice.elts] == [":", "-1", "-1"]
    ctx.ob("C20.d", "victor_purpura_pair_dist: boundary rows count insertions / deletions; result is the last cell", ok, "", vp.where)
    g_ = CFG(vp.node)
    lim = {}
    for r in rets_:
        tc = [c_ for c_ in ast.walk(r.value) if isinstance(c_, ast.Call) and dotted(c_.func) == "torch.tensor" and c_.args and isinstance(c_.args[0], ast.List) and len(c_.args[0].elts) == 1]
        if not tc:
            continue
        for t_, lab in g_.guards_of(g_.node_of(r)):
            if isinstance(t_, ast.Compare) and len(t_.ops) == 1 and isinstance(t_.ops[0], ast.Eq) and lab == "T":
                sides = [t_.left, t_.comparators[0]]
                other = [x for x in sides if not (isinstance(x, ast.Name) and x.id == "cost")]
                if len(other) == 1:
                    lim[ast.unparse(other[0])] = _T(tc[0].args[0].elts[0])
    ok = "0.0" in lim and nf.equal(lim["0.0"], _S("abs(t0.numel() - t1.numel())")) and "float('inf')" in lim and nf.equal(lim["float('inf')"], _S("t0.numel() + t1.numel()"))
    ctx.ob("C20.d", "victor_purpura_pair_dist: cost 0 -> |n0 - n1|, cost inf -> n0 + n1 (the documented limits)", ok, f"{ {k: nf.show(v) for k, v in lim.items()} }", vp.where)
    isi = P.fn("isi", module="core.math")
    specs.compare_full(ctx, "C20.d", "isi: one leading sentinel event per train, event times (index - 1) * dt, sentinel dropped, successive differences; time-first input moved to time-last and back", isi, """
def spec(spikes, step_time, time_first=True):
    if time_first:
        spikes = ein.rearrange(spikes, "t ... -> ... t")
    padded = F.pad(spikes, (1, 0), mode="constant", value=True)
    nz = torch.nonzero(padded)[..., -1]
    splits = torch.nonzero(torch.logical_not(nz)).view(-1).tolist()[1:]
    intervals = torch.tensor_split((nz - 1) * step_time, splits, dim=-1)
    intervals = nn.utils.rnn.pad_sequence(intervals, batch_first=True, padding_value=float("nan"))[:, 1:]
    intervals = torch.diff(intervals, dim=-1)
    if time_first:
        return ein.rearrange(intervals.view(*spikes.shape[:-1], -1), "... t -> t ...")
    return intervals.view(*spikes.shape[:-1], -1)
""", source="isi docstring", inline_depth=0)
    ctx.assume("torch.special.xlogy / lgamma / erf / gammaincc / expm1 implement their documented functions")
