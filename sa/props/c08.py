"""C08 — STDP-family weight changes equal the documented sum over spike pairs (wiring)."""
from __future__ import annotations

import ast
import re

from ..model import walk_own, dotted, is_self_attr, strip_doc, AnalysisError, kwarg
from .. import trainers as T, specs, nf, terms, grules as G
from . import c09

EXPLANATION = (
    "Decides the wiring behind the pair-sum identity for the trace-based trainers (STDP, StableSTDP, TripletSTDP, "
    "StableTripletSTDP, MSTDP, MSTDPET): (a) every trace monitor observes its own side (post: neuron.spike; pre: synapse / "
    "connection spikes), decays with its own side's time constant (fast/slow as named) and carries the opposite side's pair "
    "learning-rate magnitude (or 1 in the Stable variants, own-side triplet ratio for slow traces); spike monitors are "
    "pass-through; the aliasing tags dt/amp/tc restate exactly the reducer's arguments; triplet slow traces are read one step "
    "back (read(2) / select(offset=2)) and fast ones at the present step; (b) each einsum 'b ... r, b ... r -> b ...' pairs a "
    "spike indicator of one side with a fast trace of the other side, post-side quantities go through postsyn_receptive and "
    "pre-side ones through presyn_receptive; (c) every attribute read on a monitor / its reducer exists; (d) the eligibility "
    "reducer folds trace_cumulative_value(obs*cond) with decay exp(-dt/tau_z) and scale 1/tau_z, its obs/cond reshapes match "
    "the sides of its sub-monitors, and the reward enters as |signal*scale|; (e) sign-mode routing as in C09. Not decided: "
    "the numerical pair-sum identity over spike histories."
)
TECHNIQUE = "static analysis: monitor wiring table over all add_monitor sites (role rules), data-flow pairing of einsum operands, attribute-universe check, normal-form comparison for the eligibility trace, routing abstract interpretation"
LEVEL_TEXT = "All-sites static decision of monitor wiring, cross pairing, attribute existence, eligibility constants and routing for the six trace-based trainers."
LEVEL_NOTE = "Trusts the trace kernels (C07), RecordTensor (C01/C02), the engine; the pair-sum identity itself is numerical."
DESIGN_REF = "DESIGN.md §5 C08"

TRACE_TRAINERS = ("STDP", "StableSTDP", "TripletSTDP", "StableTripletSTDP", "MSTDP", "MSTDPET")
PRE_ATTRS = {"synapse.spike", "connection.synspike"}
NN_MODULE_API = {"training", "register_buffer", "parameters", "named_parameters", "buffers", "state_dict", "load_state_dict", "to", "train", "eval",
                 "modules", "children", "apply", "cpu", "cuda", "float", "double", "half", "type", "zero_grad", "requires_grad_", "extra_repr", "forward",
                 "register_forward_hook", "register_forward_pre_hook", "named_buffers", "named_modules", "named_children", "get_extra_state", "set_extra_state"}


def _side(name: str):
    m = re.match(r"(trace|spike|elig)_(pre|post)(?:_(fast|slow))?$", name)
    return m.groups() if m else None


def _universe(P, cname, include_subclasses=False):
    c = P.cls(cname)
    out = set(NN_MODULE_API)
    ks = list(c.mro) + (P.subclasses.get(cname, []) if include_subclasses else [])
    for k in ks:
        out |= set(k.methods) | set(k.props) | set(k.classattrs)
        for m in k.methods.values():
            for n in walk_own(m.node):
                if isinstance(n, ast.Attribute) and is_self_attr(n) and isinstance(n.ctx, ast.Store):
                    out.add(n.attr)
                if isinstance(n, ast.Call) and dotted(n.func) in ("RecordTensor.create", "ShapedTensor.create", "VirtualTensor.create", "self.register_buffer", "self.register_extra") \
                        and len(n.args) >= 2 and isinstance(n.args[1] if "create" in dotted(n.func) else n.args[0], ast.Constant):
                    out.add((n.args[1] if "create" in dotted(n.func) else n.args[0]).value)
    return out


def check(ctx):
    P = ctx.prog
    mon_u = _universe(P, "Monitor")
    red_u = _universe(P, "Reducer", include_subclasses=True)
    rec_u = _universe(P, "RecordTensor")
    nsites = 0
    # who applies the delay: monitor attribute and the read in forward agree (shared with C06.d)
    from . import c06
    c06.monitor_consumer_consistency(ctx, "C08.a/C06.d", only=lambda c: c.name in TRACE_TRAINERS)
    for cname in TRACE_TRAINERS:
        c = P.cls(cname)
        rc, f = c.methods["register_cell"], c.methods["forward"]
        ctx.touch(rc, f)
        sites = T.monitor_sites(P, c)
        stable = cname.startswith("Stable")
        # ---------------- (a) wiring table
        for name, site in sites.items():
            sd = _side(name)
            if sd is None:
                ctx.ob("C08.a", f"{cname} monitor '{name}' has a declared role", False, "name does not follow (trace|spike|elig)_(pre|post)[_(fast|slow)]", P.loc(rc, site.call))
                continue
            kind, side, speed = sd
            nsites += 1
            opts = set(site.attr_options())
            if kind in ("trace", "spike"):
                ok = (opts == {"neuron.spike"}) if side == "post" else (bool(opts) and opts <= PRE_ATTRS)
                ctx.ob("C08.a", f"{cname} monitor '{name}' observes the {side}synaptic spikes", ok, f"observes {sorted(opts)}", P.loc(rc, site.call))
            if kind == "spike":
                ok = site.reducer_cls == "PassthroughReducer"
                ctx.ob("C08.a", f"{cname} monitor '{name}' is a pass-through of the spikes", ok, site.reducer_cls, P.loc(rc, site.call))
            if kind == "trace":
                ok = site.reducer_cls == "state.tracecls"
                ctx.ob("C08.a", f"{cname} monitor '{name}' uses the configured trace reducer", ok, site.reducer_cls, P.loc(rc, site.call))
                tc = site.reducer_arg("time_constant", 1)
                want_tc = f"state.tc_{side}" + (f"_{speed}" if speed else "")
                ctx.ob("C08.a", f"{cname} monitor '{name}' decays with {want_tc}", tc is not None and dotted(tc) == want_tc,
                       f"time constant {ast.unparse(tc) if tc is not None else None}" + ("" if tc is not None and dotted(tc) == want_tc else
                                                                                         " — the trace would decay with the other population's / speed's constant"),
                       P.loc(rc, site.call))
                amp = site.reducer_arg("amplitude", 2)
                other = "pre" if side == "post" else "post"
                triplet = "Triplet" in cname
                if stable:
                    want_amp = ["1.0"]
                elif speed == "slow":
                    want_amp = [f"abs(state.lr_{side}_triplet / state.lr_{side}_pair)"]
                else:
                    want_amp = [f"abs(state.lr_{other}_pair)" if triplet else f"abs(state.lr_{other})"]
                got_amp = ast.unparse(amp) if amp is not None else None
                ctx.ob("C08.a", f"{cname} monitor '{name}' amplitude = {want_amp[0]}", got_amp in want_amp,
                       f"amplitude {got_amp}" + ("" if got_amp in want_amp else " — the pair term would be scaled by the wrong learning rate"), P.loc(rc, site.call))
                tgt = site.reducer_arg("target", 3)
                ctx.ob("C08.a", f"{cname} monitor '{name}' counts spikes (target=True)", isinstance(tgt, ast.Constant) and tgt.value is True, "", P.loc(rc, site.call))
            # tags restate the reducer's arguments
            if site.reducer is not None and kind in ("trace", "spike"):
                pairs = [("dt", site.reducer_arg("step_time", 0)), ("tc", site.reducer_arg("time_constant", 1) if kind == "trace" else None),
                         ("amp", site.reducer_arg("amplitude", 2) if kind == "trace" else None)]
                for tag, arg in pairs:
                    if tag in site.tags and arg is not None:
                        ok = ast.unparse(site.tags[tag]) == ast.unparse(arg)
                        ctx.ob("C08.a", f"{cname} monitor '{name}': tag {tag}= restates the reducer's argument", ok,
                               f"tag {ast.unparse(site.tags[tag])}, reducer {ast.unparse(arg)}" + ("" if ok else " — cells would be aliased on a value the reducer does not use"),
                               P.loc(rc, site.call))
                    elif tag in site.tags and arg is None and tag != "dt":
                        ctx.ob("C08.a", f"{cname} monitor '{name}': tag {tag}= has a reducer argument", stable and tag == "amp", "", P.loc(rc, site.call))
        # ---------------- triplet read offsets
        loop = T.forward_loop(f)
        if "Triplet" in cname:
            for st in loop.body:
                for x in ast.walk(st):
                    if isinstance(x, ast.Call) and isinstance(x.func, ast.Attribute) and T.monitor_keys(x.func):
                        keys = T.monitor_keys(x.func)
                        k = next(iter(keys))
                        sd = _side(k)
                        if sd is None or sd[0] != "trace":
                            continue
                        meth = x.func.attr
                        if sd[2] == "slow":
                            off = (x.args[0] if meth == "read" and x.args else kwarg(x, "offset"))
                            ok = meth in ("read", "select") and isinstance(off, ast.Constant) and off.value == 2
                            ctx.ob("C08.a", f"{cname}.forward: slow trace '{k}' is read one step back ({meth}, offset 2)", ok,
                                   "" if ok else f"`{ast.unparse(x)[:70]}` reads the slow trace at the present step: the triplet factor would include the triggering spike itself",
                                   P.loc(f, x))
                        elif meth in ("peek", "view"):
                            ctx.ob("C08.a", f"{cname}.forward: fast trace '{k}' is read at the present step ({meth})", True, "", P.loc(f, x))
            for k in ("trace_post_slow", "trace_pre_slow"):
                s = sites.get(k)
                d = s.reducer_arg("duration") if s else None
                txt = ast.unparse(d) if d is not None else ""
                want_src = "cell.connection.delayedby + cell.connection.dt if delayed else 2 * cell.connection.dt" if k == "trace_pre_slow" else "2 * cell.connection.dt"
                ok = d is not None and nf.equal(terms.Builder(P, rc, {}, inline_depth=0).t(d), specs.spec_term(want_src))
                ctx.ob("C08.a", f"{cname} monitor '{k}' keeps two steps of history", ok, txt, P.loc(rc, s.call) if s else "")

        # ---------------- (b) pairing
        env_keys = {}
        for st in loop.body:
            if isinstance(st, ast.Assign) and isinstance(st.targets[0], ast.Name):
                keys = set(T.monitor_keys(st.value))
                for x in ast.walk(st.value):
                    if isinstance(x, ast.Name) and x.id in env_keys:
                        keys |= env_keys[x.id]
                env_keys[st.targets[0].id] = keys
                # receptive reshapes applied to the right side
                for x in ast.walk(st.value):
                    if isinstance(x, ast.Call) and dotted(x.func) in ("cell.connection.postsyn_receptive", "cell.connection.presyn_receptive"):
                        ks = set(T.monitor_keys(x))
                        for y in ast.walk(x):
                            if isinstance(y, ast.Name) and y.id in env_keys:
                                ks |= env_keys[y.id]
                        want = "post" if "postsyn" in dotted(x.func) else "pre"
                        sides = {(_side(k) or (None, None, None))[1] for k in ks}
                        ctx.ob("C08.b", f"{cname}.forward: {dotted(x.func).split('.')[-1]} is applied to {want}-side monitors", sides == {want},
                               f"monitors {sorted(ks)}", P.loc(f, x))
        if cname != "MSTDPET":
            es = [x for st in loop.body for x in ast.walk(st) if isinstance(x, ast.Call) and dotted(x.func) == "ein.einsum"]
            ctx.ob("C08.b", f"{cname}.forward: two pair contractions", len(es) == 2, f"{len(es)} einsum calls", f.where)
            seen = set()
            for x in es:
                ops = [a for a in x.args if not (isinstance(a, ast.Constant) and isinstance(a.value, str))]
                pat = [a.value for a in x.args if isinstance(a, ast.Constant) and isinstance(a.value, str)]
                ks = []
                for a in ops:
                    k = set(T.monitor_keys(a))
                    for y in ast.walk(a):
                        if isinstance(y, ast.Name) and y.id in env_keys:
                            k |= env_keys[y.id]
                    ks.append(k)
                ok = len(ks) == 2 and pat == ["b ... r, b ... r -> b ..."]
                detail = f"operands {[sorted(k) for k in ks]}"
                if ok:
                    sp = [i for i, k in enumerate(ks) if any((_side(m) or ("",))[0] == "spike" for m in k)]
                    ok = len(sp) == 1
                    if ok:
                        a, b_ = ks[sp[0]], ks[1 - sp[0]]
                        s_side = {_side(m)[1] for m in a if _side(m)[0] == "spike"}
                        ok = len(s_side) == 1
                        side = next(iter(s_side))
                        other = "pre" if side == "post" else "post"
                        ok = ok and all(_side(m)[1] == side for m in a) and all(_side(m)[0] == "trace" and _side(m)[1] == other and _side(m)[2] in (None, "fast") for m in b_) and bool(b_)
                        ok = ok and all(_side(m)[0] == "spike" or _side(m)[2] == "slow" for m in a)
                        seen.add(side)
                ctx.ob("C08.b", f"{cname}.forward: einsum pairs a spike indicator with the other side's (fast) trace", ok, detail, P.loc(f, x))
            ctx.ob("C08.b", f"{cname}.forward: one post-triggered and one pre-triggered contraction", seen == {"pre", "post"}, f"{sorted(seen)}", f.where)

        # ---------------- (c) attribute universe of monitors
        for st in ast.walk(loop):
            if isinstance(st, ast.Attribute) and isinstance(st.value, ast.Subscript) and isinstance(st.value.value, ast.Name) and st.value.value.id == "monitors":
                ok = st.attr in mon_u
                ctx.ob("C08.c/G4", f"{cname}.forward: monitors[{ast.unparse(st.value.slice)}].{st.attr}", ok,
                       "" if ok else f"Monitor has no attribute '{st.attr}' (it belongs to the reducer: monitors[...].reducer.{st.attr}); the delayed branch raises AttributeError",
                       P.loc(f, st), st)
            if isinstance(st, ast.Attribute) and isinstance(st.value, ast.Attribute) and st.value.attr == "reducer" and isinstance(st.value.value, ast.Subscript) \
                    and isinstance(st.value.value.value, ast.Name) and st.value.value.value.id == "monitors":
                ok = st.attr in red_u
                ctx.ob("C08.c/G4", f"{cname}.forward: monitors[..].reducer.{st.attr}", ok, "" if ok else f"no reducer class defines '{st.attr}'", P.loc(f, st), st)
            if isinstance(st, ast.Attribute) and isinstance(st.value, ast.Attribute) and st.value.attr == "data_":
                ok = st.attr in rec_u
                ctx.ob("C08.c/G4", f"{cname}.forward: ...data_.{st.attr}", ok, "" if ok else f"RecordTensor has no attribute '{st.attr}'", P.loc(f, st), st)
        # the interpolation handed to select() belongs to the monitor that is read
        for x in ast.walk(loop):
            if isinstance(x, ast.Call) and isinstance(x.func, ast.Attribute) and x.func.attr == "select" and T.monitor_keys(x.func):
                rk = T.monitor_keys(x.func)
                ik = T.monitor_keys(x.args[1]) if len(x.args) > 1 else set()
                ok = rk == ik
                ctx.ob("C08.c", f"{cname}.forward: select on {sorted(rk)} interpolates with that monitor's own rule", ok,
                       f"interpolation taken from {sorted(ik)}" + ("" if ok else " — a different monitor's time constant would be used between steps"), P.loc(f, x), x)

        # ---------------- (e) routing
        ab = c09.Abs(ctx, c, sites, T.monitor_state_deps(sites))
        c09.Walker(ctx, c, f, ab).walk(loop.body, {}, None)
    for o in ctx.obs:
        if o.rule.startswith("C09."):
            o.rule = "C08.e/" + o.rule
    ctx.require("C08.a", "trace-trainer monitor sites", nsites, 28)

    # ---------------- (f) delayed views interpolate traces by analytic decay from the *older* sample
    for cname in ("NearestTraceReducer", "CumulativeTraceReducer"):
        f = P.cls(cname).methods["interpolate"]
        ctx.touch(f)
        calls = [x for x in P.calls_in(f) if dotted(x.func) == "interp_expdecay"]
        ok = len(calls) == 1 and [getattr(a_, "id", None) for a_ in calls[0].args[:4]] == ["prev_data", "next_data", "sample_at", "step_time"] \
            and dotted(kwarg(calls[0], "time_constant")) == "self.time_constant"
        ctx.ob("C08.f", f"{cname}.interpolate = interp_expdecay(prev, next, sample_at, dt, time_constant=own)", ok,
               "" if ok else "between steps the delayed trace is not prev * exp(-elapsed/tau): the pair term for off-grid delays is wrong", f.where)
    specs.compare(ctx, "C08.f", "interp_expdecay = prev * exp(-sample_at / tau)", P.fn("interp_expdecay", module="functional.interpolation"),
                  "prev_data * torch.exp(-sample_at / time_constant)", source="functional/interpolation.py")
    # ---------------- (d) eligibility trace and reward
    et = P.cls("EligibilityTraceReducer")
    init = et.methods["__init__"]
    ctx.touch(init, et.methods["fold"])
    vals = {}
    for st in strip_doc(init.node.body):
        if isinstance(st, ast.Assign) and is_self_attr(st.targets[0]):
            vals[st.targets[0].attr] = terms.Builder(P, init, {}, inline_depth=0).t(st.value)
    ok = "decay" in vals and nf.equal(vals["decay"], specs.spec_term("math.exp(-self.dt / self.time_constant)"))
    ctx.ob("C08.d", "EligibilityTraceReducer: decay = exp(-dt/tau_z)", ok, nf.show(vals.get("decay")) if "decay" in vals else "not assigned", init.where)
    ok = "scale" in vals and nf.equal(vals["scale"], specs.spec_term("1 / self.time_constant"))
    ctx.ob("C08.d", "EligibilityTraceReducer: scale = 1/tau_z", ok, nf.show(vals.get("scale")) if "scale" in vals else "not assigned", init.where)
    specs.compare(ctx, "C08.d", "EligibilityTraceReducer.fold = trace_cumulative_value(sum_r obs*cond, state, decay, scale)", et.methods["fold"],
                  "trace_cumulative_value(ein.einsum(self.obs_reshape()(obs), self.cond_reshape()(cond), 'b ... r, b ... r -> b ...'), state, decay=self.decay, scale=self.scale)",
                  source="three_factor_stdp.py docstring", inline_depth=0)
    m = P.cls("MSTDPET")
    sites = T.monitor_sites(P, m)
    for name in ("elig_post", "elig_pre"):
        s = sites.get(name)
        if s is None:
            raise AnalysisError(f"anchor vanished: MSTDPET monitor {name}")
        subs = s.subattrs
        ok = len(subs) == 2 and all(x.endswith(".latest") for x in subs)
        if ok:
            o_side, c_side = _side(subs[0].split(".")[0]), _side(subs[1].split(".")[0])
            orr, crr = s.reducer_arg("obs_reshape"), s.reducer_arg("cond_reshape")
            want = {"pre": "presyn_receptive", "post": "postsyn_receptive"}
            trig = name.split("_")[1]
            ok = o_side is not None and c_side is not None and o_side[0] == "trace" and c_side[0] == "spike" and c_side[1] == trig and o_side[1] != trig \
                and want[o_side[1]] in ast.unparse(orr) and want[c_side[1]] in ast.unparse(crr)
        ctx.ob("C08.d", f"MSTDPET monitor '{name}': {trig if ok else name}-triggered eligibility = other side's trace x own spikes, reshaped by side", ok, f"subattrs {subs}", P.loc(m.methods['register_cell'], s.call))
        tcz = s.reducer_arg("time_constant", 1)
        ctx.ob("C08.d", f"MSTDPET monitor '{name}' decays with tc_eligibility", tcz is not None and dotted(tcz) == "state.tc_eligibility", "", P.loc(m.methods['register_cell'], s.call))
    # (the scaling by |signal*scale| and the partition by the reward's sign are decided by the decision tree of clause h)
    ctx.assume("spike tensors are {0,1}-valued; batch reductions behave as documented")
    # ---------------- (g) the trace kernels behind the trace monitors (shared with C07.a)
    ctx.import_clauses("C07", {"C07.a", "C07.b", "C07.t"}, "C08.g", minimum=8,
                       pick=lambda s: not s.startswith(("FoldReducer", "RecordReducer", "EventReducer", "PassthroughReducer", "EMAReducer", "CAReducer")))
    # ---------------- (h) reward modulation block = the documented rule, as a decision tree
    from .. import reward_tail
    reward_tail.check(ctx, "C08.h", only=("MSTDP", "MSTDPET"))
    # ---------------- (i) triplet factor: each pair term is scaled by (1 + slow trace of the *same* side, read one step back)
    ntf = 0
    for cname in ("TripletSTDP", "StableTripletSTDP"):
        f = P.cls(cname).methods["forward"]
        for x in ast.walk(f.node):
            if isinstance(x, ast.BinOp) and isinstance(x.op, ast.Mult):
                for fac, other in ((x.left, x.right), (x.right, x.left)):
                    if isinstance(fac, ast.BinOp) and isinstance(fac.op, ast.Add) and isinstance(other, ast.Name) \
                            and any(isinstance(n, ast.Constant) for n in (fac.left, fac.right)):
                        ntf += 1
                        got = terms.Builder(P, f, {}, inline_depth=0).t(fac)
                        slow = [n for n in (fac.left, fac.right) if isinstance(n, ast.Name)]
                        ok = len(slow) == 1 and nf.equal(got, nf.C(1) + nf.sym(slow[0].id)) and slow[0].id.split("_")[0] == other.id
                        ctx.ob("C08.i", f"{cname}.forward: `{ast.unparse(x)[:40]}` scales the {other.id}-side trace by 1 + its slow trace", ok,
                               "" if ok else "the triplet factor is not (1 + slow trace of the same side)", P.loc(f, x), x)
    ctx.require("C08.i", "triplet factors written as constant + slow trace", ntf, 2)
