"""C16 — state hooks fire exactly when armed and enforce clamping / normalisation (structure)."""
from __future__ import annotations

import ast
import symtable

from ..model import walk_own, dotted, is_self_attr, strip_doc, AnalysisError, kwarg
from ..cfg import CFG
from .. import hooks, specs, nf, terms, boolpath

EXPLANATION = (
    "Decides: (a) the register / deregister typestate of Hook: register acts only when unregistered (else raises), each "
    "handle is the result of register_forward_pre_hook / register_forward_hook on the module argument under the matching "
    "callable test, the previous finalizer is detached before a new one bound to (self, _detach_handles, both handles) is "
    "installed on every registering path; deregister removes both handles, sets them to None and detaches and clears the "
    "finalizer; registered <=> some handle is not None; _detach_handles removes every non-None handle; (b) the callables "
    "handed to torch capture only a weak reference (free variables of the lambdas / closures exclude `self`), so the finalizer "
    "can run; (c) gating truth tables of the two wrappers and of StateHook.forward; pre/post placement: the wrapped hook is "
    "passed as prehook iff as_prehook, else as posthook, never both, and StateHook registers on its own module; (d) Clamping.hook "
    "writes back exactly torch.clamp(current, min=clampmin, max=clampmax) with (clampmin, clampmax) <- (min, max) in that order "
    "and max > min validated; Normalization.hook writes back normalize(current, order, scale, dim, epsilon) and normalize = "
    "scale * F.normalize(data, p=order, dim=dim, eps=epsilon). Not decided: garbage-collection timing and the firing state "
    "machine over arbitrary operation sequences."
)
TECHNIQUE = "static analysis: CFG typestate rules, free-variable (closure capture) analysis with symtable, truth-table gating, value-flow / normal-form check of the write-back"
LEVEL_TEXT = "All-paths static decision of the hook typestate, weak capture, gating, placement and write-back formulas; GC behaviour is not decided."
LEVEL_NOTE = "Trusts torch's hook dispatch, weakref.finalize semantics and the engine."
DESIGN_REF = "DESIGN.md §5 C16"


def _free_names(lam_or_def: ast.AST) -> set:
    """Names read inside a lambda / nested def that are not its own parameters or locals."""
    if isinstance(lam_or_def, ast.Lambda):
        params = {a.arg for a in lam_or_def.args.args + lam_or_def.args.kwonlyargs}
        if lam_or_def.args.vararg:
            params.add(lam_or_def.args.vararg.arg)
        if lam_or_def.args.kwarg:
            params.add(lam_or_def.args.kwarg.arg)
        body = [lam_or_def.body]
    else:
        a = lam_or_def.args
        params = {x.arg for x in a.args + a.kwonlyargs} | ({a.vararg.arg} if a.vararg else set()) | ({a.kwarg.arg} if a.kwarg else set())
        body = lam_or_def.body
    stored = {n.id for b in body for n in ast.walk(b) if isinstance(n, ast.Name) and isinstance(n.ctx, ast.Store)}
    return {n.id for b in body for n in ast.walk(b) if isinstance(n, ast.Name) and isinstance(n.ctx, ast.Load)} - params - stored


def check(ctx):
    P = ctx.prog
    hook = P.cls("Hook")
    reg, dereg = hook.methods.get("register"), hook.methods.get("deregister")
    if reg is None or dereg is None:
        raise AnalysisError("anchor vanished: Hook.register/deregister")
    ctx.touch(reg, dereg)

    # ---------------- (a) typestate
    g = CFG(reg.node)
    stores = {}
    for n in g.nodes:
        if n.kind == "stmt" and isinstance(n.ast, ast.Assign) and is_self_attr(n.ast.targets[0]):
            stores.setdefault(n.ast.targets[0].attr, []).append(n)
    for attr, meth, test in (("__prehook_handle", "register_forward_pre_hook", "self._prehook_call"), ("__posthook_handle", "register_forward_hook", "self._posthook_call")):
        ns = stores.get(attr, [])
        ok = len(ns) == 1 and isinstance(ns[0].ast.value, ast.Call) and dotted(ns[0].ast.value.func) == f"{reg.params()[0]}.{meth}"
        gs = [ast.unparse(t) + ":" + lab for n in ns for t, lab in g.guards_of(n)]
        ok = ok and f"{test}:T" in gs and "not self.registered:T" in gs
        ctx.ob("C16.a", f"Hook.register: {attr} = module.{meth}(...) iff unregistered and the callable is set", ok, f"guards {gs}", reg.where)
    rz = [n for n in g.nodes if n.kind == "stmt" and isinstance(n.ast, ast.Raise)]
    gs = [ast.unparse(t) + ":" + lab for r in rz for t, lab in g.guards_of(r)]
    ctx.ob("C16.a", "Hook.register raises when already registered (no second registration)", "not self.registered:F" in gs, f"{gs}", reg.where)
    fin = stores.get("__finalizer", [])
    handle_nodes = stores.get("__prehook_handle", []) + stores.get("__posthook_handle", [])
    det = g.stmt_nodes_calling(lambda c: dotted(c.func) == "self.__finalizer.detach")
    ok = len(fin) == 1 and isinstance(fin[0].ast.value, ast.Call) and dotted(fin[0].ast.value.func) == "weakref.finalize" \
        and [ast.unparse(a) for a in fin[0].ast.value.args] == ["self", "_detach_handles", "self.__prehook_handle", "self.__posthook_handle"]
    ok_order = bool(fin) and all(g.always_after([h], fin) for h in handle_nodes) and bool(det) and g.always_before(det, fin) is not None \
        and not any(g.can_follow(f_, d) for f_ in fin for d in det)
    dg = [ast.unparse(t) + ":" + lab for d in det for t, lab in g.guards_of(d)]
    ctx.ob("C16.a", "Hook.register: a finalizer bound to (self, _detach_handles, both handles) follows every handle store; the old one is detached first",
           ok and ok_order and "self.__finalizer:T" in dg, "", reg.where)
    dh = P.fn("_detach_handles", module="core.infrastructure")
    ctx.touch(dh)
    ok = any(isinstance(n, ast.For) and isinstance(n.iter, ast.Name) and n.iter.id == (dh.node.args.vararg.arg if dh.node.args.vararg else "") and
             any(isinstance(i, ast.If) and isinstance(i.test, ast.Name) and i.test.id == n.target.id and
                 any(isinstance(c, ast.Call) and dotted(c.func) == f"{n.target.id}.remove" for b in i.body for c in ast.walk(b)) for i in n.body)
             for n in walk_own(dh.node))
    ctx.ob("C16.a", "_detach_handles removes every non-None handle", ok, "", dh.where)
    g2 = CFG(dereg.node)
    calls = g2.stmt_nodes_calling(lambda c: dotted(c.func) == "_detach_handles" and [ast.unparse(a) for a in c.args] == ["self.__prehook_handle", "self.__posthook_handle"])
    nones = {n.ast.targets[0].attr for n in g2.nodes if n.kind == "stmt" and isinstance(n.ast, ast.Assign) and is_self_attr(n.ast.targets[0])
             and isinstance(n.ast.value, ast.Constant) and n.ast.value.value is None and g2.must_pass([n])}
    det2 = g2.stmt_nodes_calling(lambda c: dotted(c.func) == "self.__finalizer.detach")
    none_nodes = [n for n in g2.nodes if n.kind == "stmt" and isinstance(n.ast, ast.Assign) and is_self_attr(n.ast.targets[0]) and n.ast.targets[0].attr.endswith("_handle")]
    ok = bool(calls) and g2.must_pass(calls) and {"__prehook_handle", "__posthook_handle", "__finalizer"} <= nones and bool(det2) \
        and all(g2.always_before(calls, [n]) for n in none_nodes)
    ctx.ob("C16.a", "Hook.deregister: handles removed, then set to None; finalizer detached and cleared, on every path", ok, f"cleared {sorted(nones)}", dereg.where)
    rg = hook.props.get("registered", {}).get("get")
    specs.compare(ctx, "C16.a", "Hook.registered <=> some handle is not None", rg,
                  "self.__prehook_handle is not None or self.__posthook_handle is not None", source="docstring", inline_depth=0)
    hi = hook.methods["__init__"]
    for attr in ("__prehook_handle", "__posthook_handle", "__finalizer"):
        ok = any(isinstance(n, ast.Assign) and is_self_attr(n.targets[0], attr) and isinstance(n.value, ast.Constant) and n.value.value is None for n in walk_own(hi.node))
        ctx.ob("C16.a", f"Hook.__init__: {attr} starts as None (unregistered)", ok, "", hi.where)

    # ---------------- (b) weak capture
    lams = [n for n in walk_own(reg.node) if isinstance(n, ast.Lambda)]
    ctx.require("C16.b", "lambdas handed to torch in Hook.register", len(lams), 2)
    for lam in lams:
        free = _free_names(lam)
        ok = "self" not in free and "weakself" in free
        ctx.ob("C16.b", f"Hook.register: hook lambda captures only a weak reference", ok,
               f"free variables {sorted(free)}" + ("" if ok else " — a strong reference to the hook object is stored in the module: it can never be collected and the finalizer never runs"),
               P.loc(reg, lam), None)
    ws = [n for n in walk_own(reg.node) if isinstance(n, ast.Assign) and isinstance(n.targets[0], ast.Name) and n.targets[0].id == "weakself"]
    ok = bool(ws) and all(ast.unparse(n.value) == "weakref.ref(self)" for n in ws)
    ctx.ob("C16.b", "Hook.register: weakself = weakref.ref(self)", ok, "", reg.where)
    ch = P.cls("ContextualHook").methods["__init__"]
    ctx.touch(ch)
    inner = [n for n in ch.node.body if isinstance(n, ast.FunctionDef)]
    ctx.require("C16.b", "closures in ContextualHook.__init__", len(inner), 2)
    for fn in inner:
        free = _free_names(fn)
        ok = "self" not in free and any(x.startswith("weakself") for x in free)
        ctx.ob("C16.b", f"ContextualHook.{fn.name} captures only a weak reference", ok, f"free variables {sorted(free)}", P.loc(ch, fn), None)
        which = "prehook" if "pre" in fn.name else "posthook"
        body = ast.unparse(fn)
        ok = f"getattr(weakself_{'bfc' if which == 'prehook' else 'afc'}(), {which})(*args, **kwargs)" in body
        ctx.ob("C16.c", f"ContextualHook.{fn.name} dispatches to the method named by `{which}`", ok, "", P.loc(ch, fn), None)

    # ---------------- (c) gating and placement
    hooks.gating(ctx, "C16.c")
    def _same(func, expr, spec_src):
        """Term of an argument expression equals the term of the documented expression (modulo the normal form)."""
        if expr is None:
            return False
        return nf.equal(terms.Builder(P, func, {}, inline_depth=0).t(expr), specs.spec_term(spec_src))
    call = [c for c in P.calls_in(ch) if dotted(c.func) == "Hook.__init__"]
    ok = len(call) == 1 and _same(ch, kwarg(call[0], "prehook"), "context_prehook if prehook else None") and \
        _same(ch, kwarg(call[0], "posthook"), "context_posthook if posthook else None")
    ctx.ob("C16.c", "ContextualHook passes its pre / post closures iff the respective method name is given", ok, "", ch.where)
    sh = P.cls("StateHook")
    si = sh.methods["__init__"]
    ctx.touch(si)
    call = [c for c in P.calls_in(si) if dotted(c.func) == "ContextualHook.__init__"]
    ok = False
    if len(call) == 1:
        ok = _same(si, kwarg(call[0], "prehook"), "'_StateHook__wrapped_hook' if as_prehook else None") and \
            _same(si, kwarg(call[0], "posthook"), "None if as_prehook else '_StateHook__wrapped_hook'")
        tu, eu = kwarg(call[0], "train_update"), kwarg(call[0], "eval_update")
        ok = ok and dotted(tu) == "train_update" and dotted(eu) == "eval_update"
    ctx.ob("C16.c", "StateHook: the wrapped hook is the prehook iff as_prehook, else the posthook (never both); mode flags forwarded", ok, "", si.where)
    wh = sh.methods.get("__wrapped_hook")
    ok = wh is not None and any(dotted(c.func) == "self.hook" and [ast.unparse(a) for a in c.args] == ["module"] for c in P.calls_in(wh))
    ctx.ob("C16.c", "StateHook.__wrapped_hook runs hook(module)", ok, "", wh.where if wh else "")
    sr = sh.methods.get("register")
    ok = sr is not None and any(dotted(c.func) == "Hook.register" and [ast.unparse(a) for a in c.args] == ["self", "self.module"] for c in P.calls_in(sr))
    gs = []
    if sr is not None:
        g3 = CFG(sr.node)
        gs = [ast.unparse(t) + ":" + lab for n in g3.stmt_nodes_calling(lambda c: dotted(c.func) == "Hook.register") for t, lab in g3.guards_of(n)]
    ctx.ob("C16.c", "StateHook.register registers on its own module, only when unregistered", ok and "not self.registered:T" in gs, f"{gs}", sr.where if sr else "")
    mg = sh.props.get("module", {}).get("get")
    ok = mg is not None and ast.unparse([s for s in walk_own(mg.node) if isinstance(s, ast.Return)][0].value) == "self._hooked_module" and \
        any(isinstance(n, ast.Assign) and is_self_attr(n.targets[0], "_hooked_module") and "module" in ast.unparse(n.value) for n in walk_own(si.node))
    ctx.ob("C16.c", "StateHook.module is the constructor's module", ok, "", mg.where if mg else "")

    # ---------------- (d) write-back
    cl = P.cls("Clamping")
    h = cl.methods["hook"]
    ctx.touch(h, cl.methods["__init__"])
    calls = [c for c in P.calls_in(h) if dotted(c.func) == "rsetattr"]
    ok = len(calls) == 1 and len(calls[0].args) == 3 and ast.unparse(calls[0].args[0]) == h.params()[0] and ast.unparse(calls[0].args[1]) == "self.attribute"
    if ok:
        v = calls[0].args[2]
        got = terms.Builder(P, h, {}, inline_depth=0).t(v)
        want = specs.spec_term("torch.clamp(rgetattr(self.module, self.attribute), min=self.clampmin, max=self.clampmax)")
        ok = nf.equal(got, want)
    ctx.ob("C16.d", "Clamping.hook writes back clamp(current, min=clampmin, max=clampmax) to the same attribute", ok, "", h.where)
    ci = cl.methods["__init__"]
    asg = [n for n in walk_own(ci.node) if isinstance(n, ast.Assign) and isinstance(n.targets[0], ast.Tuple)
           and [dotted(t) for t in n.targets[0].elts] == ["self.clampmin", "self.clampmax"]]
    ok = len(asg) == 1 and ast.unparse(asg[0].value) == "argtest.onedefined(('min', min), ('max', max))"
    ctx.ob("C16.d", "Clamping: (clampmin, clampmax) <- (min, max) in that order", ok, ast.unparse(asg[0]) if asg else "", ci.where)
    od = P.fn("onedefined", module="_internal.argtest")
    rets = [s for s in walk_own(od.node) if isinstance(s, ast.Return)]
    ok = any("tuple((nvp[1] for nvp in nvpairs))" in ast.unparse(r) for r in rets)
    ctx.ob("C16.d", "argtest.onedefined returns the values in argument order", ok, "", od.where)
    val = [c for c in P.calls_in(ci) if dotted(c.func) == "argtest.gt" and [ast.unparse(a) for a in c.args[:3]] == ["'max'", "max", "min"]]
    ctx.ob("C16.d", "Clamping validates max > min when both are given", len(val) == 1, "", ci.where)
    nz = P.cls("Normalization")
    h = nz.methods["hook"]
    ctx.touch(h)
    calls = [c for c in P.calls_in(h) if dotted(c.func) == "rsetattr"]
    ok = len(calls) == 1 and len(calls[0].args) == 3 and ast.unparse(calls[0].args[0]) == h.params()[0] and ast.unparse(calls[0].args[1]) == "self.attribute"
    if ok:
        got = terms.Builder(P, h, {}, inline_depth=0).t(calls[0].args[2])
        want = specs.spec_term("normalize(rgetattr(self.module, self.attribute), self.order, self.scale, self.dim, epsilon=self.eps)")
        ok = nf.equal(got, want)
    ctx.ob("C16.d", "Normalization.hook writes back normalize(current, order, scale, dim, epsilon) to the same attribute", ok, "", h.where)
    ni = nz.methods["__init__"]
    for fld, par in (("order", "order"), ("scale", "scale"), ("dim", "dim"), ("eps", "epsilon"), ("attribute", "attr")):
        st = [n for n in walk_own(ni.node) if isinstance(n, ast.Assign) and is_self_attr(n.targets[0], fld)]
        ok = len(st) == 1 and any(isinstance(x, ast.Name) and x.id == par for x in ast.walk(st[0].value))
        ctx.ob("C16.d", f"Normalization.__init__: self.{fld} <- {par}", ok, "", ni.where)
    specs.compare(ctx, "C16.d", "normalize = scale * F.normalize(data, p=order, dim=dim, eps=epsilon)", P.fn("normalize", module="core.math"),
                  "scale * F.normalize(data, p=order, dim=dim, eps=epsilon)", source="core/math.py docstring", inline_depth=0)
    rs = P.fn("rsetattr", module="_internal.utils")
    ok = "setattr(rgetattr(obj, pre) if pre else obj, post, val)" in ast.unparse(rs.node) and "attr.rpartition('.')" in ast.unparse(rs.node)
    ctx.ob("C16.d", "rsetattr assigns the last path component on the object reached through the prefix", ok, "", rs.where)
    ctx.assume("torch.clamp and F.normalize implement their documented semantics (zero vectors stay zero through eps)")
