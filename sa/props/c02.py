"""C02 — time-indexed select / insert hit the right samples and interpolate between them (structure)."""
from __future__ import annotations

import ast

from ..model import walk_own, dotted, is_self_attr, strip_doc, AnalysisError, kwarg, walk_ordered
from .. import specs, nf, terms
from . import c20

EXPLANATION = (
    "Decides for the four branches of RecordTensor.select / insert (tensor time, scalar time): (a) sibling agreement and "
    "agreement with the documented terms of: the rejection predicate t < -tol or t > dt*(N-1) + tol, the snapping predicate "
    "|dt*round(t/dt) - t| <= tol, prev = ceil(offset + shift), next = floor(offset + shift) (older = ceil, newer = floor) and "
    "sample_at = dt - dt*(shift mod 1) (time elapsed since the older sample); (b) the interpolation call passes (prev_data, "
    "next_data, sample_at, dt) and the extrapolation call (obs, sample_at, prev_data, next_data, dt) in the order of the "
    "Interpolation / Extrapolation protocols, with prev gathered at the ceil index; (c) the exact-index bypass: tensor branches "
    "overwrite the inter/extrapolated result where prev_idx == next_idx, scalar branches read / write directly under the "
    "snapping predicate; (d) insert writes only at {prev, next}: scatter(_) at the stacked index tensor, data[prev_idx] / "
    "data[next_idx], write(), or a forward writerange of the stacked pair at ceil(offset); values are cast to the record's dtype; "
    "(e) the seven matching extrapolation/interpolation pairs invert algebraically. Not decided: floating-point behaviour at the "
    "tolerance boundary and at the range limits."
)
TECHNIQUE = "static analysis: four-way sibling agreement and documented-term comparison by normal form, protocol-role check of call sites, written-index-set check, algebraic inverse proofs"
LEVEL_TEXT = "All-branches static decision of the index / tolerance / range terms, protocol roles, bypass and written-index set of select/insert; floating-point boundary behaviour is not decided."
LEVEL_NOTE = "Trusts torch.gather/scatter/tensor_split semantics, RecordTensor.write/writerange (C01) and the engine."
DESIGN_REF = "DESIGN.md §5 C02"


def _branches(f):
    for n in walk_own(f.node):
        if isinstance(n, ast.If) and ast.unparse(n.test) == "isinstance(time, torch.Tensor)":
            return n.body, n.orelse
    raise AnalysisError(f"anchor vanished: tensor/scalar branches of {f.short}")


def _asg(stmts, name):
    """All assignments to `name` in statement order (nested blocks included)."""
    out = []
    for st in stmts:
        for n in walk_ordered(st):
            if isinstance(n, ast.Assign):
                tg = n.targets[0]
                if isinstance(tg, ast.Name) and tg.id == name:
                    out.append(n.value)
                elif isinstance(tg, ast.Tuple) and isinstance(n.value, ast.Tuple) and len(tg.elts) == len(n.value.elts):
                    for a, b in zip(tg.elts, n.value.elts):
                        if isinstance(a, ast.Name) and a.id == name:
                            out.append(b)
    return out


def _T(expr, env):
    return terms.Builder(None, None, dict(env)).t(expr)


def check(ctx):
    P = ctx.prog
    rt = P.cls("RecordTensor")
    sel, ins = rt.methods.get("select"), rt.methods.get("insert")
    if sel is None or ins is None:
        raise AnalysisError("anchor vanished: RecordTensor.select/insert")
    ctx.touch(sel, ins)
    Tm, dt, N, tol, off = nf.sym("T"), nf.sym("dt"), nf.sym("recordsz"), nf.sym("tolerance"), nf.sym("offset")
    base = {"dt": dt, "recordsz": N, "tolerance": tol}
    want_rej = specs.spec_term("T < -tolerance or T > dt * (recordsz - 1) + tolerance", base | {"T": Tm})
    want_snap = specs.spec_term("abs(dt * round(T / dt) - T) <= tolerance", base | {"T": Tm})
    S = nf.sym("S")
    want_prev, want_next = specs.spec_term("math.ceil(offset + S)", {"S": S}), specs.spec_term("math.floor(offset + S)", {"S": S})
    want_at = specs.spec_term("dt - dt * (S % 1)", {"S": S, "dt": dt})

    for f in (sel, ins):
        tb, sb = _branches(f)
        for kind, stmts in (("tensor", tb), ("scalar", sb)):
            tag = f"RecordTensor.{f.name} [{kind} time]"
            env = dict(base)
            if kind == "tensor":
                env.update({"tmin": Tm, "tmax": Tm, "time": Tm})
            else:
                env.update({"time": Tm, "disptime": Tm})
            # --- rejection predicate
            rej = [n for st in stmts for n in walk_ordered(st) if isinstance(n, ast.If) and any(isinstance(b, ast.Raise) for b in n.body)
                   and "tolerance" in ast.unparse(n.test)]
            ok = len(rej) >= 1 and nf.equal(_T(rej[0].test, env), want_rej)
            ctx.ob("C02.a", f"{tag}: rejects t < -tol or t > dt*(N-1) + tol", ok,
                   "" if ok else f"test `{ast.unparse(rej[0].test) if rej else None}` differs from the documented range [-tol, dt*(N-1) + tol]", P.loc(f, rej[0]) if rej else f.where,
                   rej[0].test if rej else None)
            if kind == "tensor":
                mm = (_asg(stmts, "tmin"), _asg(stmts, "tmax"))
                ok = len(mm[0]) == 1 and len(mm[1]) == 1 and ast.unparse(mm[0][0]) == "time.amin()" and ast.unparse(mm[1][0]) == "time.amax()"
                ctx.ob("C02.a", f"{tag}: the range test uses the extreme elements of `time`", ok, "", f.where)
            # --- shift and snapping
            sh = _asg(stmts, "shift")
            ok = bool(sh) and nf.equal(_T(sh[0], env), specs.spec_term("T / dt", {"T": Tm, "dt": dt}))
            ctx.ob("C02.a", f"{tag}: shift = time / dt", ok, "", f.where)
            if kind == "tensor":
                shr = _asg(stmts, "shiftr")
                env2 = dict(env)
                env2["shift"] = specs.spec_term("T / dt", {"T": Tm, "dt": dt})
                okr = len(shr) == 1 and nf.equal(_T(shr[0], env2), specs.spec_term("round(T / dt)", {"T": Tm, "dt": dt}))
                env2["shiftr"] = specs.spec_term("round(T / dt)", {"T": Tm, "dt": dt})
                snap = None
                for v in sh[1:]:
                    for c in ast.walk(v):
                        if isinstance(c, ast.Call) and dotted(c.func) == "torch.where" and len(c.args) == 3:
                            snap = c
                oks = snap is not None and nf.equal(_T(snap.args[0], env2), want_snap) and ast.unparse(snap.args[1]) == "shiftr" and ast.unparse(snap.args[2]) == "shift"
                ctx.ob("C02.a", f"{tag}: snaps to round(t/dt) where |dt*round(t/dt) - t| <= tol", okr and oks,
                       "" if okr and oks else f"snapping term `{ast.unparse(snap) if snap is not None else None}`", f.where, snap)
            else:
                sn = [n for st in stmts for n in walk_ordered(st) if isinstance(n, ast.If) and "round" in ast.unparse(n.test)]
                env2 = dict(env)
                env2["shift"] = specs.spec_term("T / dt", {"T": Tm, "dt": dt})
                oks = len(sn) == 1 and nf.equal(_T(sn[0].test, env2), want_snap)
                ctx.ob("C02.a", f"{tag}: exact branch iff |dt*round(t/dt) - t| <= tol", oks, ast.unparse(sn[0].test) if sn else "missing", f.where, sn[0].test if sn else None)
                # (c) scalar bypass: direct read / write at offset + round(shift)
                if sn:
                    body_txt = " ".join(ast.unparse(b) for b in sn[0].body)
                    okb = "offset + round(shift)" in body_txt and (("_unwind_ptr(ptr, offset + round(shift), recordsz)" in body_txt) if f is sel else ("self.write(obs, offset + round(shift), inplace=inplace)" in body_txt))
                    ctx.ob("C02.c", f"{tag}: on the grid the stored slot is read / written directly", okb, body_txt[:120], P.loc(f, sn[0]))
            # --- prev / next / sample_at
            offs = [v for v in _asg(stmts, "offset")]
            ok = bool(offs) and ast.unparse(offs[-1]) == "offset + shift"
            ctx.ob("C02.a", f"{tag}: index offset = offset + shift", ok, "", f.where)
            envS = {"offset": specs.spec_term("offset + S", {"S": S}), "shift": S, "dt": dt}
            if kind == "tensor":
                pv, nx = _asg(stmts, "prev_idx"), _asg(stmts, "next_idx")
                ok = len(pv) == 1 and len(nx) == 1 and nf.equal(_T(pv[0], envS), want_prev) and nf.equal(_T(nx[0], envS), want_next)
                ctx.ob("C02.a", f"{tag}: prev = ceil(offset + shift) (older), next = floor(offset + shift) (newer)", ok,
                       f"prev {ast.unparse(pv[0]) if pv else None}, next {ast.unparse(nx[0]) if nx else None}", f.where)
                st_ = _asg(stmts, "stacked_idx")
                ok = len(st_) == 1 and ast.unparse(st_[0]) == "_unwind_tensor_ptr(ptr, torch.cat((prev_idx, next_idx), 0), recordsz)"
                ctx.ob("C02.b", f"{tag}: gathers (prev, next) in that order through the unwound pointer", ok, ast.unparse(st_[0]) if st_ else "", f.where)
                sp = [n for st in stmts for n in walk_ordered(st) if isinstance(n, ast.Assign) and isinstance(n.targets[0], ast.Tuple)
                      and [getattr(t, "id", None) for t in n.targets[0].elts] == ["prev_data", "next_data"]]
                ok = len(sp) == 1 and "torch.tensor_split(torch.gather(data, 0, stacked_idx)" in ast.unparse(sp[0].value)
                ctx.ob("C02.b", f"{tag}: (prev_data, next_data) = halves of the gathered stack", ok, "", f.where)
            else:
                calls = [c for st in stmts for c in ast.walk(st) if isinstance(c, ast.Call) and dotted(c.func) == "_unwind_ptr" and len(c.args) == 3
                         and isinstance(c.args[1], ast.Call) and dotted(c.args[1].func) in ("math.ceil", "math.floor")]
                kinds = [dotted(c.args[1].func) for c in calls]
                ok = kinds == ["math.ceil", "math.floor"] and all(ast.unparse(c.args[1].args[0]) == "offset" for c in calls)
                ctx.ob("C02.a", f"{tag}: prev = ceil(offset + shift) (older), next = floor(offset + shift) (newer)", ok, f"{kinds}", f.where)
            # --- the inter/extrapolation call
            fn = "interp" if f is sel else "extrap"
            calls = [c for st in stmts for c in ast.walk(st) if isinstance(c, ast.Call) and isinstance(c.func, ast.Name) and c.func.id == fn]
            ok = len(calls) == 1
            if ok:
                a = calls[0].args
                roles = []
                for x in a:
                    t = ast.unparse(x)
                    # data[<name>] where the name is an unwound ceil / floor index
                    if isinstance(x, ast.Subscript) and isinstance(x.value, ast.Name) and x.value.id == "data":
                        ix = x.slice.elts[0] if isinstance(x.slice, ast.Tuple) else x.slice
                        if isinstance(ix, ast.Name):
                            ds = _asg(stmts, ix.id)
                            if len(ds) == 1:
                                t = ast.unparse(ds[0])
                    if "ceil" in t or t == "prev_data":
                        roles.append("prev_data")
                    elif "floor" in t or t == "next_data":
                        roles.append("next_data")
                    elif "% 1" in t:
                        roles.append("sample_at")
                    elif t == "dt":
                        roles.append("step_time")
                    elif t == "obs":
                        roles.append("sample")
                    else:
                        roles.append("?" + t[:20])
                proto = P.cls("Interpolation" if f is sel else "Extrapolation").methods["__call__"].params()
                ok = roles == proto[: len(roles)] and len(roles) == len(proto)
                ctx.ob("C02.b", f"{tag}: {fn}(...) arguments follow the {'Interpolation' if f is sel else 'Extrapolation'} protocol", ok,
                       f"roles {roles}, protocol {proto}", P.loc(f, calls[0]), calls[0])
                at = [x for x in a if "% 1" in ast.unparse(x)]
                sa = None
                for x in ast.walk(at[0]) if at else []:
                    if isinstance(x, ast.BinOp) and isinstance(x.op, ast.Sub):
                        sa = x
                        break
                ok = sa is not None and nf.equal(_T(sa, envS), want_at)
                ctx.ob("C02.a", f"{tag}: sample_at = dt - dt*(shift mod 1) (time since the older sample)", ok, ast.unparse(sa) if sa is not None else "", P.loc(f, calls[0]), sa)
                kwok = any(k.arg is None and ("interp_kwargs" if f is sel else "extrap_kwargs") in ast.unparse(k.value) for k in calls[0].keywords)
                ctx.ob("C02.b", f"{tag}: user kwargs are forwarded to {fn}", kwok, "", P.loc(f, calls[0]))
            else:
                ctx.ob("C02.b", f"{tag}: one {fn} call", False, f"{len(calls)} calls", f.where)
            # --- (c) tensor bypass
            if kind == "tensor":
                txt = " ".join(ast.unparse(s) for s in stmts)
                if f is sel:
                    ok = "torch.where(prev_idx == next_idx, prev_data, res)" in txt
                else:
                    ok = "bypass = prev_idx == next_idx" in txt and "prev_exobs = torch.where(bypass, obs, prev_exobs)" in txt and "next_exobs = torch.where(bypass, obs, next_exobs)" in txt
                ctx.ob("C02.c", f"{tag}: exact-index elements bypass the inter/extrapolation result", ok, "", f.where)
    # ---------------- (d) written index set of insert
    tb, sb = _branches(ins)
    writes = []
    for st in tb + sb:
        for n in walk_ordered(st):
            if isinstance(n, ast.Assign) and is_self_attr(n.targets[0], "__data"):
                writes.append(("assign", n))
            elif isinstance(n, ast.Assign) and isinstance(n.targets[0], ast.Subscript) and isinstance(n.targets[0].value, ast.Name) and n.targets[0].value.id == "data":
                writes.append(("index", n))
            elif isinstance(n, ast.Expr) and isinstance(n.value, ast.Call) and isinstance(n.value.func, ast.Attribute) and n.value.func.attr in ("scatter_", "write", "writerange"):
                writes.append((n.value.func.attr, n))
    ctx.require("C02.d", "storage writes in insert", len(writes), 6)
    def _pair_in_order(e):
        names = [x.id for x in walk_ordered(e) if isinstance(x, ast.Name) and x.id in ("prev_exobs", "next_exobs")]
        return names == ["prev_exobs", "next_exobs"]

    def _cast(e):
        return any(isinstance(c, ast.Call) and isinstance(c.func, ast.Attribute) and c.func.attr == "to" and
                   any(k.arg == "dtype" and ast.unparse(k.value) == "data.dtype" for k in c.keywords) for c in ast.walk(e))
    for kind, n in writes:
        t = ast.unparse(n)
        if kind in ("assign", "scatter_"):
            c = n.value if kind == "scatter_" else n.value
            ok = isinstance(c, ast.Call) and (dotted(c.func) in ("torch.scatter", "data.scatter_"))
            if ok:
                a = c.args[1:] if dotted(c.func) == "torch.scatter" else c.args
                ok = (dotted(c.func) != "torch.scatter" or (isinstance(c.args[0], ast.Name) and c.args[0].id == "data")) and len(a) == 3 \
                    and isinstance(a[0], ast.Constant) and a[0].value == 0 and isinstance(a[1], ast.Name) and a[1].id == "stacked_idx" \
                    and _pair_in_order(a[2]) and _cast(a[2])
        elif kind == "index":
            ix = n.targets[0].slice.elts[0] if isinstance(n.targets[0].slice, ast.Tuple) else n.targets[0].slice
            ok = isinstance(ix, ast.Name) and isinstance(n.value, ast.Name) and (ix.id, n.value.id) in (("prev_idx", "prev_exobs"), ("next_idx", "next_exobs"))
        elif kind == "write":
            c = n.value
            ok = dotted(c.func) == "self.write" and isinstance(c.args[0], ast.Name) and c.args[0].id == "obs" and "round(shift)" in ast.unparse(c.args[1]) \
                and dotted(kwarg(c, "inplace", 2)) == "inplace"
        else:
            c = n.value
            fwd = kwarg(c, "forward", 2)
            ok = dotted(c.func) == "self.writerange" and _pair_in_order(c.args[0]) and _cast(c.args[0]) and ast.unparse(c.args[1]) == "math.ceil(offset)" \
                and isinstance(fwd, ast.Constant) and fwd.value is True
        ctx.ob("C02.d", f"RecordTensor.insert: write `{t[:60]}` touches only the prev / next slots", ok,
               "" if ok else "this write is not one of: scatter at (prev, next), data[prev_idx], data[next_idx], write(), forward writerange of the (prev, next) pair at ceil(offset)",
               P.loc(ins, n), n)
    # ---------------- (e) inverse pairs (shared with C20.a)
    for ex, ip in c20.PAIRS:
        fe, fi = P.fn(ex, module="functional.extrapolation"), P.fn(ip, module="functional.interpolation")
        ctx.touch(fe, fi)
        r, _ = terms.function_term(P, fe, {"adjust": nf.app("const", "None")})
        ok = False
        if isinstance(r, tuple) and len(r) == 2:
            back, _ = terms.function_term(P, fi, {"prev_data": r[0], "next_data": r[1]})
            ok = back is not None and nf.equal(back, nf.sym("sample"))
        ctx.ob("C02.e", f"insert with {ex} then select with {ip} at the same time returns the sample", ok, "algebraic identity", fi.where)
    # default offsets: select reads relative to the latest observation (offset 1), insert relative to the write position (offset 0)
    def kwdefault(f, name):
        a = f.node.args
        d = dict(zip([x.arg for x in a.kwonlyargs], a.kw_defaults))
        d.update(dict(zip([x.arg for x in a.args][-len(a.defaults):] if a.defaults else [], a.defaults)))
        v = d.get(name)
        return v.value if isinstance(v, ast.Constant) else None
    ctx.ob("C02.a", "RecordTensor.select: time 0 is the latest observation (default offset 1)", kwdefault(sel, "offset") == 1, f"default {kwdefault(sel, 'offset')}", sel.where)
    ctx.ob("C02.a", "RecordTensor.insert: time 0 is the slot about to be written (default offset 0)", kwdefault(ins, "offset") == 0, f"default {kwdefault(ins, 'offset')}", ins.where)
    # defaults are a matching pair
    d1 = [n for n in walk_own(sel.node) if isinstance(n, ast.Assign) and isinstance(n.targets[0], ast.Name) and n.targets[0].id == "interp"]
    d2 = [n for n in walk_own(ins.node) if isinstance(n, ast.Assign) and isinstance(n.targets[0], ast.Name) and n.targets[0].id == "extrap"]
    ok = bool(d1) and bool(d2) and dotted(d1[0].value) == "interp_nearest" and dotted(d2[0].value) == "extrap_nearest"
    ctx.ob("C02.e", "default interpolation / extrapolation are the matching nearest pair", ok, "", sel.where)
    # ---------------- (f) the constant-tensor helper behind the scalar-time branches
    from .. import helper_specs
    helper_specs.check(ctx, "C02.f", ["fullc"])
    # ---------------- (g) the interpolation / extrapolation kernels select / insert are parameterised with (shared with C20.a)
    ctx.import_clauses("C20", {"C20.a"}, "C02.g", minimum=6)
    # (h) select / insert as decision tables: registered in sa/tables/registry.py (rule C02.t)
    # ---------------- (i) the record's step time / duration setters and the write primitive select / insert rely on (shared with C13, C01)
    ctx.import_clauses("C13", {"C13.b", "C13.t"}, "C02.i", pick=lambda s: "RecordTensor.dt" in s or "RecordTensor.duration" in s, minimum=4)
    ctx.import_clauses("C01", {"C01.d", "C01.t"}, "C02.j", pick=lambda s: "write" in s, minimum=3)
