"""C12 — checkpoint / restore: dynamic-state persistence completeness (structure)."""
from __future__ import annotations

import ast

from ..model import walk_own, dotted, is_self_attr, strip_doc, AnalysisError, kwarg
from .. import callgraph, grules as G

EXPLANATION = (
    "Decides persistence completeness: (a) for every inferno Module subclass, each attribute stored on a dynamic path "
    "(functions reachable from forward / fold / push / update / monitor callbacks, including the property setters they "
    "assign through) is persistent: a parameter, a buffer not registered persistent=False, a registered extra, a "
    "ShapedTensor / RecordTensor created with persist_data=True, or a sub-module - one-line exemptions for transients "
    "consumed within the same call; (b) Module.get_extra_state returns the extras mapping, set_extra_state merges into it, "
    "__setattr__ / __getattr__ route registered extras through it; ShapedTensor registers its data as a buffer with "
    "persistent=persist_data and RecordTensor registers its write pointer as an extra whenever the owner is a Module and "
    "writes it through the owner's attribute (so it travels with the state dict); (c) every buffer registered "
    "persistent=False that is stored on a dynamic path is recomputed by a registered load_state_dict post-hook whose body "
    "(transitively) stores it. Not decided: equality of the continued trajectory after restore."
)
TECHNIQUE = "static analysis: call-graph closure of dynamic entry points, store classification against the constructors' registration calls, post-load hook reachability"
LEVEL_TEXT = "All-classes static decision that dynamic state is persistent (or recomputed on load) and that extras / pointers round-trip; trajectory equality after restore is not decided."
LEVEL_NOTE = "Trusts torch's state_dict mechanics for parameters, persistent buffers and get/set_extra_state, and the engine's call resolution."
DESIGN_REF = "DESIGN.md §5 C12"

ENTRY_NAMES = ("forward", "fold", "push", "update", "_monitor_call", "_monitor_pre_call", "_monitor_post_call", "hook")
EXEMPT = {
    ("DifferenceMonitor", "__data"): "transient: written by the pre-hook and consumed by the post-hook of the same module call",
}


def registrations(P, c):
    """name -> kind for attributes registered in constructors of the MRO."""
    out = {}
    for k in reversed(c.mro):
        init = k.methods.get("__init__")
        if init is None:
            continue
        for call in P.calls_in(init):
            d = dotted(call.func) or ""
            a0 = call.args[0] if call.args else None
            if d.endswith("register_buffer") and isinstance(a0, ast.Constant):
                p = kwarg(call, "persistent", 2)
                out[a0.value] = "buffer-nonpersistent" if isinstance(p, ast.Constant) and p.value is False else "buffer"
            elif d.endswith("register_parameter") and isinstance(a0, ast.Constant):
                out[a0.value] = "parameter"
            elif d.endswith("register_extra") and isinstance(a0, ast.Constant):
                out[a0.value] = "extra"
            elif d.endswith("register_module") and isinstance(a0, ast.Constant):
                out[a0.value] = "module"
            elif d in callgraph.CREATORS and len(call.args) >= 2 and isinstance(call.args[1], ast.Constant):
                pd = kwarg(call, "persist_data")
                if d == "VirtualTensor.create":
                    out[call.args[1].value] = "virtual"
                else:
                    out[call.args[1].value] = "record-nonpersistent" if isinstance(pd, ast.Constant) and pd.value is False else "record"
        for n in walk_own(init.node):
            if isinstance(n, ast.Assign) and len(n.targets) == 1 and is_self_attr(n.targets[0]) and isinstance(n.value, ast.Call):
                r = P.resolve_expr(k.module.name, n.value.func)
                if r and r[0] == "class" and (r[1].is_subclass_of("Module") or "nn.Module" in r[1].ext_bases or "torch.nn.Module" in r[1].ext_bases):
                    out.setdefault(n.targets[0].attr, "module")
                d = dotted(n.value.func)
                if d in ("nn.ModuleDict", "nn.ParameterList", "nn.ModuleList", "nn.ParameterDict"):
                    out.setdefault(n.targets[0].attr, "module")
    return out


def check(ctx):
    P = ctx.prog
    module_cls = P.cls_in("Module", "core.infrastructure")
    classes = [c for c in P.all_classes if c.is_subclass_of("Module") and c is not module_cls and not c.name.startswith("_")]
    ctx.require("C12.a", "inferno Module subclasses", len(classes), 60)
    nst = 0
    nonpersist_dynamic = []
    for c in sorted(classes, key=lambda c: c.name):
        entries = []
        for nme in ENTRY_NAMES:
            f = c.find_method(nme)
            if f is not None and f.cls is not None and f.cls.name != "Module":
                entries.append((f, c))
        if not entries:
            continue
        clo = callgraph.closure(P, entries, limit=400)
        regs = registrations(P, c)
        seen = set()
        for f, k in clo.items():
            if f.cls is None or f.cls not in c.mro or f.name == "__init__":
                continue
            ctx.touch(f)
            for n in walk_own(f.node):
                attr, through = None, False
                if isinstance(n, ast.Attribute) and isinstance(n.ctx, ast.Store):
                    if is_self_attr(n):
                        attr = n.attr
                    elif is_self_attr(n.value):
                        attr, through = n.value.attr, True
                elif isinstance(n, ast.AugAssign) and is_self_attr(n.target):
                    attr = n.target.attr
                elif isinstance(n, ast.Call) and isinstance(n.func, ast.Attribute) and is_self_attr(n.func.value) \
                        and n.func.attr in ("push", "write", "writerange", "insert", "reset", "initialize", "deinitialize", "fill_", "zero_", "copy_", "add_", "mul_"):
                    attr, through = n.func.value.attr, True
                if attr is None:
                    continue
                if c.find_prop(attr, "set") is not None and not through:
                    continue     # assignment through a property: the setter's own stores are in the closure
                key = (c.name, attr)
                if key in seen:
                    continue
                seen.add(key)
                nst += 1
                m = f.cls.mangle(attr)
                kind = regs.get(attr) or regs.get(m)
                ex = EXEMPT.get((f.cls.name, attr))
                if kind in ("buffer-nonpersistent",):
                    nonpersist_dynamic.append((c, attr, f))
                    ctx.ob("C12.a", f"{c.name}: dynamic state '{attr}'", True, "non-persistent buffer: must be recomputed on load (see C12.c)", f.where)
                    continue
                ok = kind in ("buffer", "parameter", "extra", "record", "module") or ex is not None
                ctx.ob("C12.a", f"{c.name}: dynamic state '{attr}'", ok,
                       (f"persistent ({kind})" if kind else f"exempt: {ex}") if ok else
                       f"stored by {f.short} on a dynamic path but registered as {kind or 'a plain Python attribute'}: it is not part of state_dict(), "
                       f"so a restored model continues from the constructor's value",
                       P.loc(f, n), None)
    ctx.require("C12.a", "dynamic stores classified", nst, 30)

    # ---------------- (c) non-persistent dynamic buffers are recomputed on load
    for c, attr, f in nonpersist_dynamic:
        init = c.find_method("__init__")
        hooks = [call for call in P.calls_in(init) if dotted(call.func) == "self.register_load_state_dict_post_hook"] if init else []
        ok = False
        for h in hooks:
            fn = h.args[0] if h.args else None
            body = None
            if isinstance(fn, ast.Name):
                body = next((n for n in init.node.body if isinstance(n, ast.FunctionDef) and n.name == fn.id), None)
            if body is None:
                continue
            # stores `module.<p> = ...` in the hook -> property setter of the class -> stores attr
            for n in ast.walk(body):
                if isinstance(n, ast.Assign) and isinstance(n.targets[0], ast.Attribute) and isinstance(n.targets[0].value, ast.Name) \
                        and n.targets[0].value.id == body.args.args[0].arg:
                    p = n.targets[0].attr
                    s = c.find_prop(p, "set")
                    if p == attr:
                        ok = True
                    if s is not None:
                        direct, through, _, re_ = G.setter_stores(P, s)
                        if attr in direct | through | re_:
                            # ... and it must do so on every path: the hook re-assigns the value that load_state_dict just
                            # copied in place, so a skip-if-unchanged shortcut would leave the derived buffers stale
                            from ..cfg import CFG as _CFG
                            g_ = _CFG(s.node)
                            st_nodes = [nd for nd in g_.nodes if nd.kind == "stmt" and isinstance(nd.ast, ast.Assign) and is_self_attr(nd.ast.targets[0], attr)]
                            if st_nodes and g_.must_pass(st_nodes):
                                ok = True
        ctx.ob("C12.c", f"{c.name}: non-persistent buffer '{attr}' is recomputed by a load_state_dict post-hook", ok,
               "" if ok else f"'{attr}' is stored by {f.short} at run time, excluded from state_dict(), and no registered post-load hook stores it: "
               f"after restore it keeps the constructor's value", f.where)
    ctx.require("C12.c", "non-persistent buffers stored dynamically", len(nonpersist_dynamic), 3)

    # ---------------- (b) extras / pointer / data
    for name, must in (("get_extra_state", "return self._extras"), ("set_extra_state", "self._extras.update(state)")):
        f = module_cls.methods.get(name)
        if f is None:
            raise AnalysisError(f"anchor vanished: Module.{name}")
        ctx.touch(f)
        ok = must in ast.unparse(ast.Module(body=strip_doc(f.node.body), type_ignores=[]))
        ctx.ob("C12.b", f"Module.{name}: {must}", ok, "", f.where)
    sa = module_cls.methods.get("__setattr__")
    txt = ast.unparse(sa.node) if sa else ""
    ok = "_extras is not None and name in _extras" in txt and "_extras[name] = value" in txt
    ctx.ob("C12.b", "Module.__setattr__ routes registered extras into the extras mapping", ok, "", sa.where if sa else "")
    ga = module_cls.methods.get("__getattr__")
    txt = ast.unparse(ga.node) if ga else ""
    ok = "if name in _extras:\n            return _extras[name]" in txt
    ctx.ob("C12.b", "Module.__getattr__ reads registered extras from the extras mapping", ok, "", ga.where if ga else "")
    re_ = module_cls.methods.get("register_extra")
    ok = re_ is not None and "self._extras[name] = value" in ast.unparse(re_.node)
    ctx.ob("C12.b", "Module.register_extra stores into the extras mapping", ok, "", re_.where if re_ else "")
    st = P.cls("ShapedTensor").methods["__init__"]
    ctx.touch(st)
    calls = [c for c in P.calls_in(st) if dotted(c.func) == "owner.register_buffer"]
    ok = len(calls) == 1 and ast.unparse(calls[0].args[0]) == "self.__attributes.data" and dotted(kwarg(calls[0], "persistent", 2)) == "persist_data"
    ctx.ob("C12.b", "ShapedTensor.__init__ registers its data as a buffer with persistent=persist_data", ok, "", st.where)
    rt = P.cls("RecordTensor")
    ri = rt.methods["__init__"]
    ctx.touch(ri)
    from ..cfg import CFG
    g = CFG(ri.node)
    regp = g.stmt_nodes_calling(lambda c: dotted(c.func) == "owner.register_extra" and ast.unparse(c.args[0]) == "self.__attributes.pointer")
    gs = [ast.unparse(t) + ":" + lab for n in regp for t, lab in g.guards_of(n)]
    ok = len(regp) == 1 and gs == ["isinstance(owner, Module):T"]
    ctx.ob("C12.b", "RecordTensor.__init__ registers the write pointer as an extra whenever the owner is a Module", ok, f"guards {gs}", ri.where)
    pd = [c for c in P.calls_in(ri) if dotted(c.func) == "ShapedTensor.__init__"]
    ok = len(pd) == 1 and dotted(kwarg(pd[0], "persist_data")) == "persist_data"
    ctx.ob("C12.b", "RecordTensor.__init__ forwards persist_data to the storage buffer", ok, "", ri.where)
    ps = rt.props.get("__pointer", {}).get("set")
    ok = ps is not None and "setattr(self.__owner(), self.__attributes.pointer, int(value))" in ast.unparse(ps.node)
    ctx.ob("C12.b", "RecordTensor writes the pointer through the owner's attribute (hence into the extras)", ok, "", ps.where if ps else "")
    pg = rt.props.get("__pointer", {}).get("get")
    ok = pg is not None and "getattr(self.__owner(), self.__attributes.pointer)" in ast.unparse(pg.node)
    ctx.ob("C12.b", "RecordTensor reads the pointer from the owner's attribute", ok, "", pg.where if pg else "")
    n3 = G.g3_mangled(ctx, [rt], rule="C12.b/G3")
    ctx.assume("torch persists parameters, persistent buffers and get_extra_state() in state_dict(); lazily shaped storage has the same shape in source and target")
