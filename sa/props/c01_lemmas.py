"""C01.i — index lemmas of the ring buffer, proved from the code's own index expressions with a modular-arithmetic
normal form ((x mod N + y) mod N = (x + y) mod N, kN = 0 mod N, a reduced pointer is its own residue).

Every index term is extracted from the current source by def-use substitution (no execution); the lemmas connect the
operations to each other (push/peek/pop, incr/decr, readrange/read, tensor/scalar offsets, writerange/readrange).  They are
the inductive step of "index k = k steps before the write position, modulo the record size" for one operation each."""
from __future__ import annotations

import ast

from ..model import walk_own, dotted, is_self_attr, strip_doc, AnalysisError, kwarg
from .. import nf, terms

HELPERS = ("_unwind_ptr", "_unwind_tensor_ptr")


def _builder(P, f, env):
    base = {"self.__pointer": nf.sym("p"), "self.__recordsz": nf.sym("N")}
    base.update(env)
    return terms.Builder(P, f, base, inline_depth=2, erase_layout=True)


def _helper_calls(f):
    return [c for c in walk_own(f.node) if isinstance(c, ast.Call) and dotted(c.func) in HELPERS]


def _eval_at(P, f, node, expr, env, take_if=None, skip=()):
    b = _builder(P, f, env)
    terms.prime(b, f.node, node, skip=skip, take_if=take_if)
    return b.t(expr)


def _stmt_of(f, node):
    """Innermost statement of f containing node."""
    best = None
    for st in ast.walk(f.node):
        if isinstance(st, ast.stmt) and any(x is node for x in ast.walk(st)):
            if best is None or any(x is st for x in ast.walk(best)):
                best = st
    return best


def check(ctx, rt):
    P = ctx.prog
    N, p, k, L, j = nf.sym("N"), nf.sym("p"), nf.sym("k"), nf.sym("L"), nf.sym("j")
    nf.REDUCED.clear()
    nf.REDUCED.add("p")
    try:
        _lemmas(ctx, P, rt, N, p, k, L, j)
    finally:
        nf.REDUCED.clear()


def _pointer_after(P, f, env):
    b = _builder(P, f, env)
    b.run(strip_doc(f.node.body))
    return b.stores.get("self.__pointer")


def _lemmas(ctx, P, rt, N, p, k, L, j):
    def meth(n):
        f = rt.methods.get(n)
        if f is None:
            raise AnalysisError(f"anchor vanished: RecordTensor.{n}")
        return f
    read, write, incr, decr, rr, wr = (meth(x) for x in ("read", "write", "incr", "decr", "readrange", "writerange"))
    where = read.where

    # index of read(offset) / write(offset) as a function of the pointer
    def index_fn(f):
        calls = _helper_calls(f)
        outs = []
        for c in calls:
            outs.append(lambda ptr, off, c=c, f=f: _eval_at(P, f, _stmt_of(f, c), c, {"self.__pointer": ptr, "offset": off}))
        return outs
    r_idx = index_fn(read)
    w_idx = index_fn(write)
    ok = len(r_idx) == 1 and len(w_idx) >= 1
    ctx.ob("C01.i", "read / write index terms extracted", ok, f"{len(r_idx)} read, {len(w_idx)} write index expressions", where)
    if not ok:
        return
    same = all(nf.equal(w(p, k), w_idx[0](p, k)) for w in w_idx)
    ctx.ob("C01.i", "write(): in-place and out-of-place branches address the same slot", same, nf.show(w_idx[0](p, k)), write.where)
    ok = nf.equal(r_idx[0](p, k), w_idx[0](p, k))
    ctx.ob("C01.i", "read(k) and write(., k) address the same slot for the same pointer", ok,
           f"read {nf.show(r_idx[0](p, k))}, write {nf.show(w_idx[0](p, k))}", where)

    inc = lambda ptr, c: _pointer_after(P, incr, {"self.__pointer": ptr, "pos": c})
    dec = lambda ptr, c: _pointer_after(P, decr, {"self.__pointer": ptr, "pos": c})
    p1 = inc(p, nf.C(1))
    ok = p1 is not None and nf.equal(r_idx[0](p1, nf.C(1)), w_idx[0](p, nf.C(0)))
    ctx.ob("C01.i", "L1: after push (write at offset 0, incr 1), peek = read(1) addresses the slot just written", ok,
           f"written slot {nf.show(w_idx[0](p, nf.C(0)))}; read(1) after incr {nf.show(r_idx[0](p1, nf.C(1))) if p1 is not None else '?'}", where)
    p2 = dec(p1, nf.C(1)) if p1 is not None else None
    ok = p2 is not None and nf.equal(r_idx[0](p2, nf.C(0)), w_idx[0](p, nf.C(0)))
    ctx.ob("C01.i", "L2: pop (decr 1, read 0) after push returns the pushed slot", ok, "", where)
    c = nf.sym("c")
    pc = inc(p, c)
    back = dec(pc, c) if pc is not None else None
    ok = back is not None and nf.equal(back, p)
    ctx.ob("C01.i", "L3: decr(c) undoes incr(c) (pointer moves are inverse bijections mod N)", ok, nf.show(back) if back is not None else "", incr.where)
    ok = pc is not None and nf.equal(r_idx[0](pc, k + c), r_idx[0](p, k))
    ctx.ob("C01.i", "L4: after c pushes, the observation formerly k steps back is k + c steps back", ok, "", where)

    # ---- readrange, scalar offset (backward = default)
    starts = [n for n in walk_own(rr.node) if isinstance(n, ast.Assign) and isinstance(n.targets[0], ast.Name) and isinstance(n.value, ast.Call)
              and dotted(n.value.func) == "_unwind_ptr"]
    starts.sort(key=lambda n: (n.lineno, n.col_offset))
    back_if = lambda t: t == "not forward"
    ok = len(starts) == 2
    ctx.ob("C01.i", "readrange: start / end residues found", ok, f"{len(starts)}", rr.where)
    if ok:
        env = {"offset": k, "length": L}
        st = _eval_at(P, rr, starts[0], starts[0].value, env, take_if=back_if)
        en = _eval_at(P, rr, starts[1], starts[1].value, env, take_if=back_if)
        slot = nf.mk_mod(st + j, N)
        want = r_idx[0](p, k + (L - nf.C(1)) - j)
        ok = nf.equal(slot, want)
        ctx.ob("C01.i", "L5: readrange(length, k)[.., j] = read(k + length - 1 - j): oldest to newest", ok,
               f"slot of element j: {nf.show(slot)}; read(k + L - 1 - j): {nf.show(want)}", rr.where)
        ok = nf.equal(en, nf.mk_mod(st + L, N))
        ctx.ob("C01.i", "L6: readrange end residue = start + length (the range has exactly `length` slots)", ok, f"end {nf.show(en)}", rr.where)
        # forward: offset is the oldest element
        stf = _eval_at(P, rr, starts[0], starts[0].value, env, take_if=None)
        ok = nf.equal(nf.mk_mod(stf + j, N), r_idx[0](p, k - j))
        ctx.ob("C01.i", "L7: readrange(forward=True)[.., j] = read(k - j)", ok, "", rr.where)
    # tensor offsets: gather index for element j
    tcalls = [c_ for c_ in walk_own(rr.node) if isinstance(c_, ast.Call) and dotted(c_.func) == "_unwind_tensor_ptr"]
    if len(tcalls) == 1:
        gi = _eval_at(P, rr, _stmt_of(rr, tcalls[0]), tcalls[0], {"offset": k, "length": L}, take_if=back_if)
        ok = nf.equal(gi, r_idx[0](p, k + (L - nf.C(1)) - j))
        ctx.ob("C01.i", "L8: readrange with tensor offsets gathers the same slots as the scalar form", ok, nf.show(gi), rr.where)
    else:
        ctx.ob("C01.i", "L8: readrange tensor-offset gather index found", False, f"{len(tcalls)} calls", rr.where)

    # ---- writerange (its length is the last dimension of `obs`)
    L = terms.Builder(None, None, {}).t(ast.parse("obs.shape[-1]", mode="eval").body)
    env = {"offset": k}
    sc = [n for n in walk_own(wr.node) if isinstance(n, ast.Assign) and isinstance(n.targets[0], ast.Name) and isinstance(n.value, ast.Call)
          and dotted(n.value.func) == "_unwind_ptr"]
    ok = len(sc) == 1
    ctx.ob("C01.i", "writerange: unwound write position found", ok, "", wr.where)
    if ok:
        q = _eval_at(P, wr, sc[0], sc[0].value, env, take_if=back_if, skip=())
        want = r_idx[0](p, k + (L - nf.C(1)))
        ok = nf.equal(q, want)
        ctx.ob("C01.i", "L9: writerange starts at the slot of the oldest observation of the range (k + length - 1 steps back)", ok, nf.show(q), wr.where)
        tc = [c_ for c_ in walk_own(wr.node) if isinstance(c_, ast.Call) and dotted(c_.func) == "_unwind_tensor_ptr"]
        got = []
        for c_ in tc:
            stn = _stmt_of(wr, c_)
            # in the scalar in-place branch the pointer argument is the already unwound position q
            scalar_branch = any(x is sc[0] for x in ast.walk(wr.node)) and stn.lineno < _tensor_branch_line(wr)
            envq = dict(env)
            if scalar_branch:
                b = _builder(P, wr, envq)
                terms.prime(b, wr.node, stn, take_if=back_if)
                got.append(("scalar in-place", b.t(c_)))
            else:
                got.append(("tensor offsets", _eval_at(P, wr, stn, c_, envq, take_if=back_if)))
        want_j = r_idx[0](p, k + (L - nf.C(1)) - j)
        for name, t in got:
            ok = nf.equal(t, want_j)
            ctx.ob("C01.i", f"L10: writerange ({name}) writes element j where readrange(length, k) reads element j", ok,
                   f"index {nf.show(t)}; expected {nf.show(want_j)}", wr.where)
        ctx.ob("C01.i", "writerange index expressions found (in-place scalar and tensor offsets)", len(got) == 2, f"{len(got)}", wr.where)


def _tensor_branch_line(f):
    for n in walk_own(f.node):
        if isinstance(n, ast.If) and "isinstance(offset, torch.Tensor)" in ast.unparse(n.test):
            # `elif not isinstance(offset, Tensor): <scalar> ... else: <tensor>`: the tensor branch starts at the first orelse statement
            cur = n
            while cur.orelse and len(cur.orelse) == 1 and isinstance(cur.orelse[0], ast.If):
                cur = cur.orelse[0]
            if cur.orelse:
                return cur.orelse[0].lineno
    return 10 ** 9
