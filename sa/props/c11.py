"""C11 — batch samples never interact (non-interference typing of the forward closure)."""
from __future__ import annotations

import ast

from ..model import walk_own, dotted, is_self_attr, strip_doc, AnalysisError, kwarg
from .. import callgraph, einops_alg, trainers as T
from . import c06

EXPLANATION = (
    "2-safety approached by non-interference typing: the call-graph closure of every neuron / synapse / connection / layer "
    "forward (resolved callees, property getters/setters on self, methods of RecordTensor / ShapedTensor attributes) is "
    "enumerated, and in it (a) no reduction, cumulative, sorting, rolling, concatenating, stacking or normalising operation "
    "acts along axis 0 of a batched value, along all axes (no dim), or along a non-literal axis - except the two documented "
    "batch reductions of learned adaptations and full reductions whose result only feeds a refusing raise; every einops "
    "pattern keeps the leading batch axis 'b' leading and un-merged; (b) RecordTensor storage is time-major: its gathers, "
    "scatters, concatenations and rolls act on axis 0 = time, its layouts move only the time axis, and index tensors are "
    "built element-wise; (c) selectors are expanded (not mixed) over the batch axis; (d) in all 14 trainers every axis-0 "
    "reduction before the updater is the configured state.batchreduce and the pair contraction keeps 'b', so with a sum "
    "reduction the batch step is the sum of per-sample terms. Not decided: numerical equality with batch-size-1 runs "
    "(element-wise broadcast semantics of torch is trusted)."
)
TECHNIQUE = "static analysis: call-graph closure + axis-set typing of tensor operations (literal dim arguments, parsed einops patterns) against a frozen operation table; exemption table with reasons"
LEVEL_TEXT = "Static non-interference typing of every axis-mixing operation reachable from the forwards; value equality with B=1 runs is not decided."
LEVEL_NOTE = "Trusts that operations outside the axis-mixing table are element-wise or per-sample (F.linear, F.unfold/fold, matmul with an unbatched left operand, view(-1, *shape)), and the engine's call resolution."
DESIGN_REF = "DESIGN.md §5 C11"

# operations that mix elements along an axis; the axis argument position / keyword
AXIS_OPS = {
    "sum": 0, "nansum": 0, "mean": 0, "nanmean": 0, "amax": 0, "amin": 0, "max": 0, "min": 0, "prod": 0, "std": 0, "var": 0, "median": 0,
    "logsumexp": 0, "norm": 1, "cumsum": 0, "cumprod": 0, "sort": 0, "argsort": 0, "argmax": 0, "argmin": 0, "any": 0, "all": 0,
    "softmax": 0, "log_softmax": 0, "flip": 0, "roll": 1, "cat": 1, "stack": 1, "concat": 1, "normalize": None, "topk": 1, "unique": None,
    "gather": 0, "scatter": 0, "scatter_": 0, "index_select": 0, "tensor_split": 1,
}
ELEMENTWISE_BUILTINS = {"sum"}   # python sum() over a tuple of tensors is element-wise addition
TIME_MAJOR = {"RecordTensor", "ShapedTensor", "VirtualTensor"}
EXEMPT = {
    "AdaptiveThresholdMixin.threshold_adaptation.setter": "documented batch reduction of the learned threshold adaptation",
    "AdaptiveCurrentMixin.current_adaptation.setter": "documented batch reduction of the learned current adaptation",
}


def _dim_of(call: ast.Call, name: str, is_method: bool):
    d = kwarg(call, "dim")
    if d is None:
        d = kwarg(call, "axis")
    if d is not None:
        return d
    pos = AXIS_OPS.get(name)
    if pos is None:
        return None
    if not is_method:
        pos += 1   # torch.f(x, dim)
    if name in ("cat", "stack", "concat"):
        pos = 1
    if len(call.args) > pos and not any(isinstance(a, ast.Starred) for a in call.args[: pos + 1]):
        return call.args[pos]
    return None


def _dims(e):
    """Literal axis set of a dim expression, or None when not literal."""
    if e is None:
        return "all"
    if isinstance(e, ast.Constant) and isinstance(e.value, int):
        return {e.value}
    if isinstance(e, ast.UnaryOp) and isinstance(e.op, ast.USub) and isinstance(e.operand, ast.Constant):
        return {-e.operand.value}
    if isinstance(e, (ast.Tuple, ast.List)):
        out = set()
        for x in e.elts:
            d = _dims(x)
            if not isinstance(d, set):
                return None
            out |= d
        return out
    if isinstance(e, ast.Constant) and e.value is None:
        return "all"
    return None


def _only_feeds_raise(f, call):
    """The result of `call` is bound to names used only in the test of an `if` whose body raises."""
    names = set()
    for st in walk_own(f.node):
        if isinstance(st, ast.Assign) and any(x is call for x in ast.walk(st.value)):
            for t in st.targets:
                names |= {y.id for y in ast.walk(t) if isinstance(y, ast.Name)}
    if not names:
        return False
    tests = [n.test for n in walk_own(f.node) if isinstance(n, ast.If) and any(isinstance(b, ast.Raise) for b in n.body)]
    in_tests = {id(y) for t in tests for y in ast.walk(t)}
    # also allowed inside the raise message itself
    msgs = {id(y) for n in walk_own(f.node) if isinstance(n, ast.Raise) for y in ast.walk(n)}
    for n in walk_own(f.node):
        if isinstance(n, ast.Name) and n.id in names and isinstance(n.ctx, ast.Load) and id(n) not in in_tests and id(n) not in msgs:
            return False
    return True


NONLINEAR_OPS = {"clamp", "clamp_min", "clamp_max", "clip", "abs", "relu", "sign", "heaviside", "maximum", "minimum", "where", "exp", "log", "sqrt", "pow", "square"}


def check(ctx):
    P = ctx.prog
    # ---------------- closure
    entries = []
    scope_classes = []
    for c in P.all_classes:
        mn = c.module.name
        if mn.startswith("inferno.neural.") and ".encoders" not in mn and not mn.endswith(".hooks") and not mn.endswith(".modeling"):
            if c.is_subclass_of("Neuron") or c.is_subclass_of("Synapse") or c.is_subclass_of("Connection") or c.is_subclass_of("Layer"):
                f = c.find_method("forward")
                if f is not None:
                    entries.append((f, c))
                    scope_classes.append(c)
    ctx.require("C11", "component classes with a forward", len(entries), 20)
    clo = callgraph.closure(P, entries)
    funcs = [f for f in clo if f.module.name.startswith("inferno.") and "._internal" not in f.module.name]
    # the record classes are reached through untyped parameters (e.g. _synparam_at(value=...)): analyse them as a whole
    for k in TIME_MAJOR:
        for f in P.cls(k).all_funcs():
            if f not in funcs:
                funcs.append(f)
    ctx.require("C11", "functions in the forward closure", len(funcs), 80)
    ctx.touch(*funcs)
    ctx.note(f"forward closure: {len(funcs)} functions from {len(entries)} entry points")

    nops = 0
    for f in sorted(funcs, key=lambda f: f.qual):
        time_major = f.cls is not None and f.cls.name in TIME_MAJOR
        for call in P.calls_in(f):
            fn = call.func
            d = dotted(fn)
            if isinstance(fn, ast.Name):
                continue   # bare names are Python builtins (max / min / all / sum over Python containers), never tensor reductions here
            elif isinstance(fn, ast.Attribute):
                name = fn.attr
                if name not in AXIS_OPS:
                    continue
                base = dotted(fn.value)
                is_method = not (base in ("torch", "F", "torch.nn.functional", "torch.special"))
                if base in ("math", "ein", "np", "itertools"):
                    continue
            else:
                continue
            nops += 1
            dim = _dim_of(call, name, is_method)
            dims = _dims(dim)
            label = f"{f.short}: {ast.unparse(call)[:60]}"
            where = P.loc(f, call)
            if time_major:
                # (b) storage is time-major: dim 0 is time; anything else must be the caller-given dim of a resize
                ok = dims == {0} or (isinstance(dim, ast.Name) and dim.id == "dim") or (dims == {-1} and name == "stack") \
                    or (dims == "all" and name in ("amin", "amax") and _only_feeds_raise(f, call))
                ctx.ob("C11.b", label, ok,
                       "acts on the time axis of time-major storage" if ok else f"axis {ast.unparse(dim) if dim is not None else 'all'} of record storage is not the time axis: batch elements would be mixed",
                       where, call)
                continue
            if f.short in EXEMPT:
                ctx.ob("C11.a", label, True, f"exempt: {EXEMPT[f.short]}", where, call)
                continue
            if dims is None:
                ok = False
                why = f"axis `{ast.unparse(dim)}` is not a literal: cannot show that the batch axis is untouched"
            elif dims == "all":
                ok = _only_feeds_raise(f, call)
                why = "full reduction feeds only a refusing raise" if ok else "reduces over all axes including the batch axis"
            else:
                ok = 0 not in dims
                why = f"along axis {sorted(dims)} (not the batch axis)" if ok else "acts along axis 0 = the batch axis: samples of one batch are mixed"
            ctx.ob("C11.a", label, ok, why, where, call)
        # einops patterns: batch axis stays leading and un-merged
        for call in P.calls_in(f):
            d = dotted(call.func)
            if d is None or not d.startswith("ein."):
                continue
            pats = [a.value for a in call.args if isinstance(a, ast.Constant) and isinstance(a.value, str) and "->" in a.value]
            if not pats:
                continue
            nops += 1
            try:
                p_ = einops_alg.Pattern(pats[0])
            except ValueError:
                continue
            has_b = [s for s in p_.inputs if s.groups and s.groups[0] == ["b"]]
            anyb = any("b" in s.names for s in p_.inputs)
            if not anyb:
                # no batch axis named: parameter-only reshapes ('o i -> 1 i o', 'f c h w -> f (c h w)') or the time-axis moves of the record
                ok = ("t" in p_.lnames and f.cls is not None and f.cls.name in TIME_MAJOR) or not any(x in p_.lnames for x in ("b",))
                ctx.ob("C11.a", f"{f.short}: {d.split('.')[1]} '{pats[0]}'", ok, "no batch axis involved", P.loc(f, call), call)
                continue
            ok = len(has_b) == len([s for s in p_.inputs if "b" in s.names]) and p_.output.groups and p_.output.groups[0] == ["b"]
            ctx.ob("C11.a", f"{f.short}: {d.split('.')[1]} '{pats[0]}'", ok,
                   "batch axis stays leading and un-merged" if ok else "the batch axis is merged, moved or reduced by this pattern", P.loc(f, call), call)
    ctx.require("C11.a", "axis-mixing operations and einops patterns in the closure", nops, 20)
    # stacked-connection reduction in Biclique
    bi = P.cls("Biclique").methods["__init__"]
    red = [c for c in ast.walk(bi.node) if isinstance(c, ast.Call) and dotted(c.func) == "ein.reduce"]
    ok = len(red) == 1 and isinstance(red[0].args[1], ast.Constant) and red[0].args[1].value in ("s ... -> ...", "s ... -> () ...") and ast.unparse(red[0].args[0]) == "list(tensors.values())"
    ctx.ob("C11.a", "Biclique combine reduces only the stacked connection axis", ok, "", bi.where)

    # ---------------- (c) selectors
    for cname in ("LinearDense", "LinearDirect", "Conv2D"):
        s = P.cls(cname).props["selector"]["get"]
        rets = [x for x in walk_own(s.node) if isinstance(x, ast.Return)]
        v = rets[0].value if rets else None
        ok = isinstance(v, ast.Call) and isinstance(v.func, ast.Attribute) and v.func.attr == "expand" and dotted(v.args[0]) == "self.batchsz"
        ctx.ob("C11.c", f"{cname}.selector is expanded (not computed) along the batch axis", ok, "", s.where)

    # ---------------- (d) trainers: axis-0 reductions are the configured batch reduction
    for c in T.trainer_classes(P):
        f = c.methods["forward"]
        ctx.touch(f)
        loop = T.forward_loop(f)
        for call in [x for x in ast.walk(loop) if isinstance(x, ast.Call)]:
            fn = call.func
            if not isinstance(fn, ast.Attribute) or fn.attr not in AXIS_OPS or dotted(fn.value) in ("math", "ein"):
                continue
            base = dotted(fn.value)
            is_method = base not in ("torch", "F")
            dim = _dim_of(call, fn.attr, is_method)
            dims = _dims(dim)
            if fn.attr == "cat":
                # per-sample partition by reward sign: concatenation along 0 of disjoint sample subsets, reduced right after by batchreduce
                ok = dims == {0} and any(isinstance(p, ast.Call) and dotted(p.func) == "state.batchreduce" for p in ast.walk(loop))
                ctx.ob("C11.d", f"{f.short}: {ast.unparse(call)[:50]}", ok, "re-joins reward-sign partitions of the batch before the batch reduction", P.loc(f, call), call)
                continue
            ok = isinstance(dims, set) and 0 not in dims
            ctx.ob("C11.d", f"{f.short}: {ast.unparse(call)[:50]}", ok,
                   "not along the batch axis" if ok else "reduces the batch axis outside state.batchreduce: a sum reduction would no longer be the sum of per-sample steps",
                   P.loc(f, call), call)
        other = [x for x in ast.walk(loop) if isinstance(x, ast.Call) and isinstance(x.func, ast.Attribute) and "batchreduce" in x.func.attr
                 and dotted(x.func) != "state.batchreduce"]
        ctx.ob("C11.d", f"{f.short}: every batch reduction is the cell's configured one (state.batchreduce)", not other,
               "" if not other else f"`{ast.unparse(other[0].func)}` reduces a term with a different reduction than the cell was registered with: "
               f"with batch_reduction=sum the step is no longer the sum of the per-sample steps", P.loc(f, other[0]) if other else f.where)
        br = [x for x in ast.walk(loop) if isinstance(x, ast.Call) and dotted(x.func) == "state.batchreduce"]
        ok = bool(br) and all(len(x.args) == 2 and isinstance(x.args[1], ast.Constant) and x.args[1].value == 0 for x in br)
        ctx.ob("C11.d", f"{f.short}: batch reduction = state.batchreduce(., 0)", ok, f"{len(br)} calls", f.where)
        # what happens to a batch-reduced quantity afterwards is linear (sums, differences, negation, scaling): a clamp / abs /
        # sign split applied *after* the batch reduction lets samples of opposite sign cancel first, so a sum-reduced batched
        # step is no longer the sum of the per-sample steps
        env_ = {}
        for st_ in ast.walk(loop):
            if isinstance(st_, ast.Assign) and len(st_.targets) == 1 and isinstance(st_.targets[0], ast.Name):
                env_.setdefault(st_.targets[0].id, []).append(st_.value)

        def reduced(e, depth=0):
            """e (or a local it is computed from) contains a batch reduction"""
            for y in ast.walk(e):
                if isinstance(y, ast.Call) and isinstance(y.func, ast.Attribute) and "batchreduce" in y.func.attr:
                    return True
                if isinstance(y, ast.Name) and depth < 3 and any(reduced(d, depth + 1) for d in env_.get(y.id, [])):
                    return True
            return False
        for x in [x for x in ast.walk(loop) if isinstance(x, ast.Call) and isinstance(x.func, ast.Attribute) and x.func.attr in NONLINEAR_OPS]:
            operands = ([x.func.value] if dotted(x.func.value) not in ("torch", "F") else []) + list(x.args)
            hit = [o for o in operands if reduced(o)]
            ctx.ob("C11.d", f"{f.short}: `{ast.unparse(x)[:50]}` is applied per sample (before the batch reduction)", not hit,
                   "" if not hit else f"`{x.func.attr}` acts on `{ast.unparse(hit[0])[:40]}`, which is already reduced over the batch: contributions of different samples "
                   f"cancel before the split, so with batch_reduction=sum the step differs from the sum of the per-sample steps", P.loc(f, x), x)
        for x in [x for x in ast.walk(loop) if isinstance(x, ast.Call) and dotted(x.func) == "ein.einsum"]:
            pat = [a.value for a in x.args if isinstance(a, ast.Constant) and isinstance(a.value, str)]
            ok = pat == ["b ... r, b ... r -> b ..."]
            ctx.ob("C11.d", f"{f.short}: pair contraction keeps the batch axis", ok, f"{pat}", P.loc(f, x), x)
    # ---------------- (e) the adaptation (the one documented cross-sample coupling in the neurons) runs only when asked for
    from .. import boolpath
    from ..model import strip_doc as _sd
    nad = 0
    for c in scope_classes:
        if not c.is_subclass_of("Neuron"):
            continue
        f = c.methods.get("forward")
        if f is None or "adapt" not in [a.arg for a in f.node.args.args + f.node.args.kwonlyargs]:
            continue
        nad += 1
        atoms = {"adapt": "A", "adapt is None": "N", "self.training": "T"}
        target = lambda st: isinstance(st, ast.Assign) and any(is_self_attr(t) and "adaptation" in t.attr for t in st.targets)
        try:
            names, tb = boolpath.table(_sd(f.node.body), atoms, target, constraint=lambda a: not (a["N"] and a["A"]))
            bad = []
            for vals, got in tb.items():
                a = dict(zip(names, vals))
                want = a["A"] or (a["N"] and a["T"])
                if got != want:
                    bad.append(f"adapt={'None' if a['N'] else a['A']}, training={a['T']}: adapts={got}, expected {want}")
            ctx.ob("C11.e", f"{f.short}: adaptations are updated iff adapt, or adapt is None and the module is training", not bad,
                   "; ".join(bad) if bad else "adapt=False freezes the batch-reduced adaptation in every mode", f.where)
        except boolpath.Undecided as e:
            ctx.ob("C11.e", f"{f.short}: adaptation guard", False, f"guard atom `{e}` not recognised", f.where)
    ctx.require("C11.e", "adaptive neuron classes", nad, 4)
    ctx.assume("operations not in the axis-mixing table are element-wise or per-sample (F.linear, F.unfold/fold, torch.matmul with an unbatched left operand, view(-1, *shape))")
    ctx.assume("user-supplied transforms / combine functions / kernels are batch-pointwise")
    # ---------------- (f) resizing the batch resets the per-sample state (shared with C14.c)
    ctx.import_clauses("C14", {"C14.c"}, "C11.f", pick=lambda s: "batchsz" in s, minimum=2)
    # ---------------- (g) the layers that carry each sample through connections and neurons (tables and wiring shared with C17)
    ctx.import_clauses("C17", {"C17.t", "C17.a", "C17.b"}, "C11.g", minimum=10,
                       pick=lambda s: s.startswith(("Layer.forward", "Serial.forward", "Serial.wiring", "Biclique.forward", "Biclique.wiring",
                                                    "RecurrentSerial.forward", "RecurrentSerial.wiring", "Layer.wiring")) or
                       ("combine" in s and s.startswith("Biclique")))
