"""C01 — RecordTensor is a faithful ring buffer (structural necessary conditions)."""
from __future__ import annotations

import ast

from ..model import walk_own, dotted, is_self_attr, strip_doc, AnalysisError, kwarg
from ..cfg import CFG
from .. import grules as G, specs, nf, terms, einops_alg

EXPLANATION = (
    "Decides, on every path of RecordTensor's read/write/pointer operations: (a) both unwinding helpers compute "
    "(pointer - offset) mod size and every storage index is a helper result called with (pointer, offset, recordsz) roles; "
    "incr/decr are the mutually inverse pointer updates; (b) push = [initialise iff ignored] -> write(obs, 0) -> incr(1), "
    "pop = decr(1) -> read(0), peek = read(1), latest setter/deleter delegate; (c) align rolls by index - pointer and sets "
    "pointer := index in the same branch, reset/initialize/deinitialize zero the pointer on every path; (d) every value "
    "spliced or scattered into storage is a slice of storage or cast to the storage dtype, in all scalar/tensor x "
    "in-place/out-of-place branches; (e) a slice whose bounds are both ring residues is guarded by a strict start < end test "
    "(equal residues = whole record = wrap branch); (f) storage auto-created by push takes its dtype from the observation; "
    "(g) readrange returns and writerange consumes the same time-last layout in every branch; (h) every torch.cat stored "
    "as the new storage tiles [0, N): symbolic piece lengths sum to recordsz, storage slices stay at their offsets and "
    "observation pieces land at (pointer + k) mod N in ring order. Not decided: buffer contents after arbitrary operation "
    "histories (run-time state)."
)
TECHNIQUE = "static analysis: normal-form comparison of index helpers, CFG ordering/typestate, dtype-discipline dataflow, symbolic splice tiling (linear normal form), guard implication, name-mangling resolution"
LEVEL_TEXT = "All-branches static decision of the ring buffer's index algebra, operation ordering, dtype discipline, slice guards and splice tiling; histories of contents are not decided."
LEVEL_NOTE = "Trusts torch.cat/gather/scatter/roll semantics and the engine; content equality over operation histories is out of reach of static analysis."
DESIGN_REF = "DESIGN.md §5 C01"

HELPERS = ("_unwind_ptr", "_unwind_tensor_ptr")


def _defs(fnode, name):
    out = []
    for n in walk_own(fnode):
        if isinstance(n, ast.Assign):
            for t in n.targets:
                if isinstance(t, ast.Name) and t.id == name:
                    out.append(n.value)
                elif isinstance(t, ast.Tuple) and isinstance(n.value, ast.Tuple) and len(t.elts) == len(n.value.elts):
                    for a, b in zip(t.elts, n.value.elts):
                        if isinstance(a, ast.Name) and a.id == name:
                            out.append(b)
    return out


def _is_ptr(e, fnode, depth=0):
    if is_self_attr(e, "__pointer"):
        return True
    if isinstance(e, ast.Call) and dotted(e.func) in HELPERS:
        return True
    if isinstance(e, ast.Name) and depth < 3:
        ds = _defs(fnode, e.id)
        return bool(ds) and all(_is_ptr(d, fnode, depth + 1) for d in ds)
    return False


def _is_recordsz(e, fnode):
    if is_self_attr(e, "__recordsz"):
        return True
    if isinstance(e, ast.Name):
        ds = _defs(fnode, e.id)
        return bool(ds) and all(is_self_attr(d, "__recordsz") for d in ds)
    return False


def _cast_ok(e, fnode, depth=0):
    """Expression is a slice of storage or cast to the storage dtype (through shape-only wrappers)."""
    if isinstance(e, ast.Subscript):
        return _cast_ok(e.value, fnode, depth) if not (isinstance(e.value, ast.Name) and e.value.id == "data") else True
    if isinstance(e, ast.Call):
        f = e.func
        if isinstance(f, ast.Attribute):
            if f.attr == "to" and any(k.arg == "dtype" and ast.unparse(k.value) in ("data.dtype", "self.__data.dtype") for k in e.keywords):
                return True
            if f.attr in ("unsqueeze", "squeeze", "contiguous", "clone", "view", "reshape", "expand"):
                return _cast_ok(f.value, fnode, depth)
        d = dotted(f)
        if d in ("torch.cat", "torch.stack") and e.args and isinstance(e.args[0], (ast.Tuple, ast.List)):
            return all(_cast_ok(x, fnode, depth) for x in e.args[0].elts)
        if d in ("ein.rearrange",) and e.args:
            return _cast_ok(e.args[0], fnode, depth)
        return False
    if isinstance(e, ast.Name) and depth < 3:
        if e.id == "data":
            return True
        ds = _defs(fnode, e.id)
        params = {a.arg for a in fnode.args.args + fnode.args.kwonlyargs}
        if e.id in params:
            # a parameter is only fine if every later rebinding casts it *and* the use is after; stay conservative:
            return bool(ds) and all(_cast_ok(d, fnode, depth + 1) for d in ds)
        return bool(ds) and all(_cast_ok(d, fnode, depth + 1) for d in ds)
    return False


def check(ctx):
    P = ctx.prog
    rt = P.cls("RecordTensor")

    def meth(n):
        f = rt.methods.get(n)
        if f is None:
            raise AnalysisError(f"anchor vanished: RecordTensor.{n}")
        ctx.touch(f)
        return f

    # ---------------- (a) helpers and roles
    for h in HELPERS:
        specs.compare(ctx, "C01.a", f"{h} = (pointer - offset) mod size", P.fn(h, module="core.infrastructure"),
                      "(pointer - offset) % size", source="RecordTensor.read/write docstrings: steps before the pointer")
    nsites = 0
    for f in rt.all_funcs():
        for c in P.calls_in(f):
            if dotted(c.func) in HELPERS and len(c.args) == 3:
                nsites += 1
                ok = _is_ptr(c.args[0], f.node) and _is_recordsz(c.args[2], f.node)
                ctx.ob("C01.a", f"{f.short}: {dotted(c.func)}({ast.unparse(c.args[0])}, {ast.unparse(c.args[1])[:30]}, {ast.unparse(c.args[2])})", ok,
                       "roles (pointer, offset, recordsz)" if ok else "first argument is not the (unwound) write pointer or third is not the record size",
                       P.loc(f, c), c)
    ctx.require("C01.a", "unwinding helper call sites in RecordTensor", nsites, 12)
    for name, spec in (("incr", "(self.__pointer + pos) % self.__recordsz"), ("decr", "(self.__pointer - pos) % self.__recordsz")):
        f = meth(name)
        b = terms.Builder(P, f, {})
        b.run(strip_doc(f.node.body))
        got = b.stores.get("self.__pointer")
        want = specs.spec_term(spec)
        ok = got is not None and nf.equal(got, want)
        ctx.ob("C01.a", f"RecordTensor.{name}: pointer := {spec}", ok,
               f"stores {nf.show(got) if got is not None else 'nothing'}", f.where)
        g = CFG(f.node)
        stores = [n for n in g.nodes if n.kind == "stmt" and isinstance(n.ast, ast.Assign) and is_self_attr(n.ast.targets[0], "__pointer")]
        guards = [ast.unparse(t) + ":" + lab for s in stores for t, lab in g.guards_of(s)]
        ctx.ob("C01.a", f"RecordTensor.{name}: refuses uninitialised storage", "self._ignore(self.__data):F" in guards, f"guards {guards}", f.where)

    # ---------------- (b) push / pop / peek ordering
    push = meth("push")
    g = CFG(push.node)
    call = lambda name: (lambda c: dotted(c.func) == f"self.{name}")
    ini, wr, inc = g.stmt_nodes_calling(call("initialize")), g.stmt_nodes_calling(call("write")), g.stmt_nodes_calling(call("incr"))
    ok = bool(wr) and bool(inc) and g.must_pass(wr) and g.must_pass(inc) and g.always_before(wr, inc) and not any(g.can_follow(i, w) for i in inc for w in wr)
    ctx.ob("C01.b", "RecordTensor.push: write(obs, 0) then incr(1) on every path", ok,
           "" if ok else "the pointer is advanced before (or without) the observation being written at offset 0", push.where)
    if wr:
        c = [c for c in ast.walk(wr[0].ast) if isinstance(c, ast.Call) and dotted(c.func) == "self.write"][0]
        off = kwarg(c, "offset", 1)
        inp = kwarg(c, "inplace", 2)
        ok = c.args and isinstance(c.args[0], ast.Name) and c.args[0].id == push.params()[0] and isinstance(off, ast.Constant) and off.value == 0 \
            and isinstance(inp, ast.Name) and inp.id == "inplace"
        ctx.ob("C01.b", "RecordTensor.push: write(obs, offset=0, inplace=inplace)", ok, ast.unparse(c), P.loc(push, c), c)
    if inc:
        c = [c for c in ast.walk(inc[0].ast) if isinstance(c, ast.Call) and dotted(c.func) == "self.incr"][0]
        a = kwarg(c, "pos", 0)
        ctx.ob("C01.b", "RecordTensor.push: incr(1)", a is None or (isinstance(a, ast.Constant) and a.value == 1), ast.unparse(c), P.loc(push, c), c)
    guards = [ast.unparse(t) + ":" + lab for i in ini for t, lab in g.guards_of(i)]
    ok = bool(ini) and "self._ignore(self.__data):T" in guards and all(g.can_follow(i, w) for i in ini for w in wr)
    ctx.ob("C01.b", "RecordTensor.push: storage initialised iff ignored, before the write", ok, f"guards {guards}", push.where)
    # (f) dtype adoption
    if ini:
        c = [c for c in ast.walk(ini[0].ast) if isinstance(c, ast.Call) and dotted(c.func) == "self.initialize"][0]
        dt = kwarg(c, "dtype", 2)
        flows = dt is not None and any(isinstance(x, ast.Attribute) and x.attr == "dtype" and isinstance(x.value, ast.Name) and x.value.id == push.params()[0]
                                       for x in ast.walk(dt))
        ctx.ob("C01.f", "RecordTensor.push: auto-created storage adopts the observation's dtype", flows,
               f"initialize(... dtype={ast.unparse(dt)})" if flows else
               f"`{ast.unparse(c)}` passes no dtype derived from the observation: storage created from None is filled from the Python literal 0 and becomes int64",
               P.loc(push, c), c)
        shp = c.args[0] if c.args else kwarg(c, "shape")
        ctx.ob("C01.f", "RecordTensor.push: auto-created storage has the observation's shape", shp is not None and ast.unparse(shp) == f"{push.params()[0]}.shape", "", P.loc(push, c), c)
    pop = meth("pop")
    g = CFG(pop.node)
    dec, rd = g.stmt_nodes_calling(call("decr")), g.stmt_nodes_calling(call("read"))
    ok = bool(dec) and bool(rd) and g.always_before(dec, rd)
    rdc = [c for n in rd for c in ast.walk(n.ast) if isinstance(c, ast.Call) and dotted(c.func) == "self.read"]
    dcc = [c for n in dec for c in ast.walk(n.ast) if isinstance(c, ast.Call) and dotted(c.func) == "self.decr"]
    def cval(c, name, pos, default):
        """constant value of the argument bound to parameter `name` (positional slot `pos`), the default when omitted"""
        a = kwarg(c, name, pos)
        return default if a is None else (a.value if isinstance(a, ast.Constant) else "?")
    ok = ok and all(cval(c, "offset", 0, 1) == 0 for c in rdc) and all(cval(c, "pos", 0, 1) == 1 for c in dcc)
    ctx.ob("C01.b", "RecordTensor.pop: decr(1) then read(0)", ok, "", pop.where)
    peek = meth("peek")
    rdc = [c for c in P.calls_in(peek) if dotted(c.func) == "self.read"]
    ok = len(rdc) == 1 and cval(rdc[0], "offset", 0, 1) == 1
    ctx.ob("C01.b", "RecordTensor.peek: read(1)", ok, "", peek.where)
    rdf = meth("read")
    dflt = rdf.node.args.defaults
    ctx.ob("C01.b", "RecordTensor.read: default offset 1 = latest observation", bool(dflt) and isinstance(dflt[0], ast.Constant) and dflt[0].value == 1, "", rdf.where)
    ls, ld = rt.props["latest"].get("set"), rt.props["latest"].get("del")
    ok = ls is not None and any(dotted(c.func) == "self.push" and c.args and isinstance(c.args[0], ast.Name) and c.args[0].id == ls.params()[0] for c in P.calls_in(ls))
    ctx.ob("C01.b", "RecordTensor.latest setter delegates to push", ok, "", ls.where if ls else "")
    ok = ld is not None and any(dotted(c.func) == "self.decr" and cval(c, "pos", 0, 1) == 1 for c in P.calls_in(ld))
    ctx.ob("C01.b", "RecordTensor.latest deleter = decr(1)", ok, "", ld.where if ld else "")

    # ---------------- (c) align / reset / (de)initialise
    al = meth("align")
    b = terms.Builder(P, al, {}, inline_depth=0)
    b.run(strip_doc(al.node.body))
    roll_ok = False
    for n in walk_own(al.node):
        if isinstance(n, ast.Assign) and is_self_attr(n.targets[0], "__data") and isinstance(n.value, ast.Call) and isinstance(n.value.func, ast.Attribute) \
                and n.value.func.attr == "roll" and len(n.value.args) == 2:
            sh = terms.Builder(P, al, {"index": nf.sym("index")}).t(n.value.args[0])
            roll_ok = nf.equal(sh, specs.spec_term("index - self.__pointer")) and isinstance(n.value.args[1], ast.Constant) and n.value.args[1].value == 0
    g = CFG(al.node)
    dst = [n for n in g.nodes if n.kind == "stmt" and isinstance(n.ast, ast.Assign) and is_self_attr(n.ast.targets[0], "__data")]
    pst = [n for n in g.nodes if n.kind == "stmt" and isinstance(n.ast, ast.Assign) and is_self_attr(n.ast.targets[0], "__pointer")
           and isinstance(n.ast.value, ast.Name) and n.ast.value.id == "index"]
    paired = bool(dst) and bool(pst) and g.always_after(dst, pst) and g.always_before(dst, pst)
    ctx.ob("C01.c", "RecordTensor.align: roll(index - pointer, 0) and pointer := index in the same branch", roll_ok and paired,
           "" if roll_ok and paired else f"roll term ok={roll_ok}, roll/pointer paired on all paths={paired}", al.where)
    rs = meth("reset")
    g = CFG(rs.node)
    pz = [n for n in g.nodes if n.kind == "stmt" and isinstance(n.ast, ast.Assign) and is_self_attr(n.ast.targets[0], "__pointer")
          and isinstance(n.ast.value, ast.Constant) and n.ast.value.value == 0]
    fill = g.stmt_nodes_calling(lambda c: isinstance(c.func, ast.Attribute) and c.func.attr == "fill_")
    alg = g.stmt_nodes_calling(call("align"))
    ok = bool(pz) and bool(fill) and g.always_after(fill, pz) and g.must_pass(pz + alg)
    ctx.ob("C01.c", "RecordTensor.reset: fill then pointer := 0 (or align(0) when fill is None)", ok, "", rs.where)
    reset_semantics(ctx, "C01.c")
    for name in ("initialize", "deinitialize"):
        f = meth(name)
        g = CFG(f.node)
        pz = [n for n in g.nodes if n.kind == "stmt" and isinstance(n.ast, ast.Assign) and is_self_attr(n.ast.targets[0], "__pointer")
              and isinstance(n.ast.value, ast.Constant) and n.ast.value.value == 0]
        ctx.ob("C01.c", f"RecordTensor.{name}: pointer := 0 on every path", bool(pz) and g.must_pass(pz), "", f.where)
    n3 = G.g3_mangled(ctx, [rt, P.cls("ShapedTensor")], rule="C01.c/G3")
    ctx.require("C01.c", "mangled private reads in RecordTensor/ShapedTensor", n3, 120)

    # ---------------- (d) dtype discipline of storage writes
    nw = 0
    for name in ("write", "writerange", "insert"):
        f = meth(name)
        for n in walk_own(f.node):
            srcs, kind = [], None
            if isinstance(n, ast.Assign) and is_self_attr(n.targets[0], "__data") and isinstance(n.value, ast.Call):
                d = dotted(n.value.func)
                if d == "torch.cat" and isinstance(n.value.args[0], (ast.Tuple, ast.List)):
                    srcs, kind = list(n.value.args[0].elts), "cat"
                elif d == "torch.scatter" and len(n.value.args) >= 4:
                    srcs, kind = [n.value.args[3]], "scatter"
            elif isinstance(n, ast.Expr) and isinstance(n.value, ast.Call) and isinstance(n.value.func, ast.Attribute) \
                    and n.value.func.attr == "scatter_" and isinstance(n.value.func.value, ast.Name) and n.value.func.value.id == "data" and len(n.value.args) >= 3:
                srcs, kind = [n.value.args[2]], "scatter_"
            for s in srcs:
                nw += 1
                ok = _cast_ok(s, f.node)
                ctx.ob("C01.d", f"RecordTensor.{name}: {kind} source `{ast.unparse(s)[:50]}`", ok,
                       "slice of storage or cast to the storage dtype" if ok else
                       f"`{ast.unparse(s)[:60]}` reaches storage through torch.{kind} without `.to(dtype=data.dtype)`: "
                       + ("torch.cat promotes the whole record to the observation's dtype" if kind == "cat" else "scatter raises on any dtype mismatch")
                       + " (sibling branches cast)", P.loc(f, n), s)
    ctx.require("C01.d", "storage write sources", nw, 12)

    # ---------------- (e) residue-slice guard
    rr = meth("readrange")
    g = CFG(rr.node)
    ne = 0
    for n in g.nodes:
        if n.ast is None or n.kind != "stmt":
            continue
        for sub in ast.walk(n.ast):
            if isinstance(sub, ast.Subscript) and isinstance(sub.value, ast.Name) and sub.value.id == "data":
                sl = sub.slice.elts[0] if isinstance(sub.slice, ast.Tuple) else sub.slice
                if isinstance(sl, ast.Slice) and isinstance(sl.lower, ast.Name) and isinstance(sl.upper, ast.Name):
                    a, b_ = sl.lower.id, sl.upper.id
                    if all(any(isinstance(d, ast.Call) and dotted(d.func) in HELPERS for d in _defs(rr.node, x)) for x in (a, b_)):
                        ne += 1
                        strict = False
                        for t, lab in g.guards_of(n):
                            txt = ast.unparse(t)
                            if (txt in (f"{a} < {b_}", f"{b_} > {a}") and lab == "T") or (txt in (f"{a} >= {b_}", f"{b_} <= {a}") and lab == "F"):
                                strict = True
                        ctx.ob("C01.e", f"RecordTensor.readrange: slice data[{a}:{b_}] of two ring residues", strict,
                               f"guarded by {a} < {b_}" if strict else
                               f"reached also when {a} == {b_}: equal residues mean a range spanning the whole record (length == recordsz), for which the plain slice is empty — only the wrap-around concatenation returns it",
                               P.loc(rr, n.ast), sub)
    ctx.require("C01.e", "residue slices in readrange", ne, 1)
    # wrap branch order
    wrap = [c for c in P.calls_in(rr) if dotted(c.func) == "torch.cat" and isinstance(c.args[0], (ast.Tuple, ast.List)) and len(c.args[0].elts) == 2]
    ok = False
    for c in wrap:
        p1, p2 = c.args[0].elts

        def sl(e):
            s = e.slice.elts[0] if isinstance(e.slice, ast.Tuple) else e.slice
            return s if isinstance(e, ast.Subscript) and isinstance(s, ast.Slice) else None
        s1, s2 = sl(p1), sl(p2)
        if s1 is not None and s2 is not None:
            ok = isinstance(s1.lower, ast.Name) and s1.upper is None and s2.lower is None and isinstance(s2.upper, ast.Name) \
                and s1.lower.id == "start" and s2.upper.id == "end"
    ctx.ob("C01.e", "RecordTensor.readrange: wrap branch concatenates (data[start:], data[:end])", ok, "oldest-to-newest order across the end of storage", rr.where)

    # ---------------- (g) layout agreement
    rets = [s for s in walk_own(rr.node) if isinstance(s, ast.Return)]
    pats = []
    for s in rets:
        v = s.value
        ok = isinstance(v, ast.Call) and dotted(v.func) == "ein.rearrange" and len(v.args) >= 2 and isinstance(v.args[1], ast.Constant)
        pats.append(v.args[1].value if ok else None)
    ok = len(pats) >= 3 and len(set(pats)) == 1 and pats[0] is not None
    rpat = pats[0] if ok else None
    ctx.ob("C01.g", "RecordTensor.readrange: every branch returns through the same time-last layout", ok, f"patterns {pats}", rr.where)
    wrg = meth("writerange")
    wp = [c.args[1].value for c in P.calls_in(wrg) if dotted(c.func) == "ein.rearrange" and len(c.args) >= 2 and isinstance(c.args[1], ast.Constant)
          and isinstance(c.args[0], ast.Name) and c.args[0].id == "obs"]
    inv = False
    if rpat and wp:
        try:
            pr, pw = einops_alg.Pattern(rpat), einops_alg.Pattern(wp[0])
            inv = pr.inputs[0].groups == pw.output.groups and pr.output.groups == pw.inputs[0].groups
        except ValueError:
            inv = False
    ctx.ob("C01.g", "RecordTensor.writerange consumes the layout readrange produces", len(wp) >= 2 and len(set(wp)) == 1 and inv, f"read {rpat!r}, write {wp}", wrg.where)

    # ---------------- (h) splice tiling
    nt = 0
    for name in ("write", "writerange"):
        f = meth(name)
        for n in walk_own(f.node):
            if isinstance(n, ast.Assign) and is_self_attr(n.targets[0], "__data") and isinstance(n.value, ast.Call) \
                    and dotted(n.value.func) == "torch.cat" and isinstance(n.value.args[0], (ast.Tuple, ast.List)):
                nt += 1
                msg = _tiling(P, f, n.value.args[0].elts, name)
                ctx.ob("C01.h", f"RecordTensor.{name}: splice `{ast.unparse(n.value)[:60]}…` tiles [0, N)", msg is None,
                       "piece lengths sum to recordsz; storage slices keep their offsets; observation pieces land at (pointer + k) mod N" if msg is None else msg,
                       P.loc(f, n), n)
    ctx.require("C01.h", "out-of-place splices", nt, 3)
    # ---------------- (i) index lemmas by modular arithmetic
    from . import c01_lemmas, c01_tables
    c01_lemmas.check(ctx, rt)
    c01_tables.check(ctx, rt)
    ctx.assume("torch.cat / gather / scatter / roll / index assignment implement their documented semantics; index assignment casts to the storage dtype")
    ctx.assume("the stored pointer is a residue in [0, recordsz) (established by initialize/reset = 0 and preserved by incr/decr/align: L3, C01.c)")


def reset_semantics(ctx, rule):
    """RecordTensor.reset(fill): storage is overwritten for *every* fill other than None (0 / False / 0.0 included)."""
    P = ctx.prog
    rs = P.cls("RecordTensor").methods.get("reset")
    if rs is None:
        raise AnalysisError("anchor vanished: RecordTensor.reset")
    ctx.touch(rs)
    g = CFG(rs.node)
    fill = g.stmt_nodes_calling(lambda c: isinstance(c.func, ast.Attribute) and c.func.attr == "fill_")
    gs = [(ast.unparse(t), lab) for n in fill for t, lab in g.guards_of(n)]
    ok = bool(fill) and (("fill is not None", "T") in gs or ("fill is None", "F") in gs) and \
        not any(t in ("fill", "bool(fill)") for t, _ in gs)
    ctx.ob(rule, "RecordTensor.reset(fill) overwrites storage whenever fill is not None (falsy fills included)", ok,
           f"guards of the fill: {gs}" + ("" if ok else " — reset(0) / reset(False), which every synapse clear() uses, would leave the old history in place"),
           rs.where)


def _tiling(P, f, pieces, name):
    """Symbolic check that cat(pieces) tiles [0, N).  Symbols: N (recordsz), p (write position), L (number of observations)."""
    N, p, L = nf.sym("N"), nf.sym("p"), (nf.sym("L") if name == "writerange" else nf.C(1))
    env = {"recordsz": N, "ptr": p, "index": p, "length": L}
    b = terms.Builder(P, f, env, inline_depth=0)

    def bound(e, default):
        if e is None or (isinstance(e, ast.Constant) and e.value is None):
            return default
        return b.t(e)

    def unwrap(e):
        while isinstance(e, ast.Call) and isinstance(e.func, ast.Attribute) and e.func.attr in ("to", "unsqueeze", "contiguous", "clone"):
            e = e.func.value
        return e
    cum = nf.C(0)
    for piece in pieces:
        e = unwrap(piece)
        if isinstance(e, ast.Subscript) and isinstance(e.value, ast.Name):
            sl = e.slice.elts[0] if isinstance(e.slice, ast.Tuple) else e.slice
            if isinstance(sl, ast.Call) and dotted(sl.func) == "slice":
                lo = bound(sl.args[0] if len(sl.args) > 1 else None, nf.C(0))
                hi = bound(sl.args[1] if len(sl.args) > 1 else sl.args[0], None)
            elif isinstance(sl, ast.Slice):
                lo, hi = bound(sl.lower, nf.C(0)), bound(sl.upper, None)
            else:
                return f"piece `{ast.unparse(piece)[:40]}` is not a slice"
            if e.value.id == "data":
                hi = N if hi is None else hi
                if not nf.equal(lo, cum):
                    return (f"storage slice `{ast.unparse(piece)[:50]}` starts at {nf.show(lo)} but is placed at offset {nf.show(cum)}: "
                            f"old observations move to other slots")
                cum = hi
            elif e.value.id == "obs":
                hi = L if hi is None else hi
                d = cum - (p + lo)
                if not (nf.equal(d, nf.C(0)) or nf.equal(d, -N)):
                    return (f"observation piece `{ast.unparse(piece)[:50]}` (elements from {nf.show(lo)}) is placed at offset {nf.show(cum)}, "
                            f"expected (p + {nf.show(lo)}) mod N")
                cum = cum + (hi - lo)
            else:
                return f"piece `{ast.unparse(piece)[:40]}` is neither storage nor observation"
        elif isinstance(e, ast.Name) and e.id == "obs":
            d = cum - p
            if not (nf.equal(d, nf.C(0)) or nf.equal(d, -N)):
                return f"observations are placed at offset {nf.show(cum)}, expected the write position p"
            cum = cum + L
        else:
            return f"piece `{ast.unparse(piece)[:40]}` not recognised"
    if not nf.equal(cum, N):
        return f"pieces cover {nf.show(cum)} slots, the record has N"
    return None
