"""C06 — a connection delay is a pure per-synapse time shift (wiring)."""
from __future__ import annotations

import ast

from ..model import walk_own, dotted, is_self_attr, strip_doc, AnalysisError, kwarg
from .. import trainers as T, einops_alg, nf, terms

EXPLANATION = (
    "Decides the wiring that makes a learned delay a pure time shift: (a) Connection.syncurrent / synspike have identical "
    "guards (self.delayedby) and differ only in current_at / spike_at(self.selector) vs current / spike; (b) every connection "
    "forward reads self.syncurrent exactly in the branch guarded by self.delayedby (so delay 0 / no delay take the undelayed "
    "path) and never the undelayed current there; (c) each selector is the delay parameter (zeros when the connection has "
    "none), rearranged and expanded over the batch axis only - no arithmetic on the delays; (d) in all 14 trainers a monitor "
    "records the raw synapse spikes with duration = delayedby iff its consumer reads it through the connection's selector "
    "under (state.delayed and delayedby), records connection.synspike iff the consumer peeks, and monitors that record raw "
    "synapse spikes unconditionally are consumed by peek together with an explicit delay term (delay applied exactly once). "
    "Not decided: equivalence of whole histories with an undelayed, shifted run."
)
TECHNIQUE = "static analysis: sibling agreement, guarded-branch structure, expression-shape check of selectors, monitor/consumer consistency table over 45 add_monitor sites"
LEVEL_TEXT = "All-sites static decision that the delay is applied exactly once and through the time-indexed read, in connections and trainers."
LEVEL_NOTE = "Trusts RecordTensor.select (C02), _synparam_at (C04) and the engine."
DESIGN_REF = "DESIGN.md §5 C06"


def check(ctx):
    P = ctx.prog
    conn = P.cls("Connection")
    # ---------------- (a) siblings
    sc, ss = conn.props.get("syncurrent", {}).get("get"), conn.props.get("synspike", {}).get("get")
    if sc is None or ss is None:
        raise AnalysisError("anchor vanished: Connection.syncurrent/synspike")
    ctx.touch(sc, ss)
    a = ast.unparse(ast.Module(body=strip_doc(sc.node.body), type_ignores=[]))
    b = ast.unparse(ast.Module(body=strip_doc(ss.node.body), type_ignores=[])).replace("spike_at", "current_at").replace("self.synapse.spike", "self.synapse.current")
    ctx.ob("C06.a", "Connection.syncurrent and synspike agree up to current/spike", a == b,
           "" if a == b else f"syncurrent: {a!r}; synspike (renamed): {b!r}", sc.where)
    for f, at, plain in ((sc, "current_at", "current"), (ss, "spike_at", "spike")):
        ifs = [s for s in strip_doc(f.node.body) if isinstance(s, ast.If)]
        ok = len(ifs) == 1 and dotted(ifs[0].test) == "self.delayedby" and \
            any(isinstance(c, ast.Call) and dotted(c.func) == f"self.synapse.{at}" and len(c.args) == 1 and dotted(c.args[0]) == "self.selector" for s in ifs[0].body for c in ast.walk(s)) and \
            any(isinstance(r, ast.Return) and dotted(r.value) == f"self.synapse.{plain}" for r in ifs[0].orelse)
        ctx.ob("C06.a", f"Connection.{f.name}: delayed iff self.delayedby -> synapse.{at}(self.selector), else synapse.{plain}", ok, "", f.where)
    db = conn.props.get("delayedby", {}).get("get")
    ok = db is not None and "if self.delay is not None:\n    return self.synapse.delay" in ast.unparse(ast.Module(body=strip_doc(db.node.body), type_ignores=[]))
    ctx.ob("C06.a", "Connection.delayedby = synapse's maximum delay iff the connection has a delay parameter", ok, "", db.where if db else "")

    # ---------------- (b) forward bodies
    nb = 0
    for cname in ("LinearDense", "LinearDirect", "Conv2D"):
        f = P.cls(cname).methods["forward"]
        ctx.touch(f)
        nb += 1
        inside, outside = [], []

        def visit(stmts, guarded):
            for st in stmts:
                if isinstance(st, ast.If):
                    g2 = guarded or dotted(st.test) == "self.delayedby"
                    for x in ast.walk(st.test):
                        if isinstance(x, ast.Attribute) and dotted(x) in ("self.syncurrent", "self.synapse.current"):
                            outside.append(x)
                    visit(st.body, g2)
                    visit(st.orelse, guarded)
                else:
                    for x in ast.walk(st):
                        if isinstance(x, ast.Attribute) and dotted(x) == "self.syncurrent":
                            (inside if guarded else outside).append(x)
        visit(strip_doc(f.node.body), False)
        ctx.ob("C06.b", f"{cname}.forward reads the delay-offset current exactly under `if self.delayedby`", bool(inside) and not outside,
               "" if inside and not outside else "the delayed current is read outside the delayed branch (or never): delays are ignored or applied when there are none", f.where)
    ctx.require("C06.b", "connection forward bodies", nb, 3)

    # ---------------- (c) selectors
    for cname in ("LinearDense", "LinearDirect", "Conv2D"):
        s = P.cls(cname).props["selector"]["get"]
        ctx.touch(s)
        body = strip_doc(s.node.body)
        rets = [x for x in walk_own(s.node) if isinstance(x, ast.Return)]
        ok = False
        detail = ""
        if len(rets) == 1:
            v = rets[0].value
            if isinstance(v, ast.Call) and isinstance(v.func, ast.Attribute) and v.func.attr == "expand" and isinstance(v.func.value, ast.Call) \
                    and dotted(v.func.value.func) == "ein.rearrange" and isinstance(v.func.value.args[0], ast.Name):
                src = v.func.value.args[0].id
                pat = einops_alg.Pattern(v.func.value.args[1].value)
                defs = [n.value for n in walk_own(s.node) if isinstance(n, ast.Assign) and isinstance(n.targets[0], ast.Name) and n.targets[0].id == src]
                src_ok = sorted(ast.unparse(d) for d in defs) == ["self.delay", "torch.zeros_like(self.weight)"]
                batch_ok = dotted(v.args[0]) == "self.batchsz" and pat.output.groups[0] == ["1"]
                noarith = not any(isinstance(x, (ast.BinOp, ast.AugAssign)) for st_ in body for x in ast.walk(st_))
                same_axes = pat.lnames == pat.output.names
                ok = src_ok and batch_ok and noarith and same_axes
                detail = f"source {sorted(ast.unparse(d) for d in defs)}, pattern {v.func.value.args[1].value!r}, expand({', '.join(ast.unparse(a) for a in v.args)})"
        ctx.ob("C06.c", f"{cname}.selector = delays rearranged and expanded over the batch axis only", ok, detail, s.where)
    # merged parameter axes of the Conv2D selector follow the kernel flatten of forward (same synapse order)
    cv = P.cls("Conv2D")
    sel_pat = None
    for x in P.calls_in(cv.props["selector"]["get"]):
        if dotted(x.func) == "ein.rearrange":
            sel_pat = einops_alg.Pattern(x.args[1].value)
    flat = None
    for x in P.calls_in(cv.methods["forward"]):
        if dotted(x.func) == "ein.rearrange" and x.args and dotted(x.args[0]) == "self.weight":
            flat = einops_alg.Pattern(x.args[1].value)
    ok = sel_pat is not None and flat is not None and sel_pat.inputs[0].groups == flat.inputs[0].groups \
        and [g for g in sel_pat.output.groups if len(g) > 1] == [g for g in flat.output.groups if len(g) > 1]
    ctx.ob("C06.c", "Conv2D.selector orders the per-synapse delays like the flattened kernel / unfolded input (c h w)", ok,
           f"selector {sel_pat.output.text if sel_pat else None!r}, kernel {flat.output.text if flat else None!r}"
           + ("" if ok else " — synapse k would be shifted by another synapse's delay"), cv.props["selector"]["get"].where)
    ls = P.cls("LinearLateral").props["selector"]["get"]
    ok = "LinearDense.selector.fget(self)" in ast.unparse(ls.node)
    ctx.ob("C06.c", "LinearLateral.selector delegates to the dense selector", ok, "", ls.where)

    # ---------------- (e) clear() erases the delayed history (contributions from before a clear are the resting state)
    from . import c01
    c01.reset_semantics(ctx, "C06.e")
    for cname in ("DeltaCurrent", "DeltaPlusCurrent", "SingleExponentialCurrent", "DoubleExponentialCurrent"):
        clr = P.cls(cname).find_method("clear")
        rs = [x for x in P.calls_in(clr) if isinstance(x.func, ast.Attribute) and x.func.attr == "reset" and is_self_attr(x.func.value)]
        ok = bool(rs) and all(x.args and isinstance(x.args[0], ast.Constant) and x.args[0].value is not None for x in rs)
        ctx.ob("C06.e", f"{cname}.clear refills every delay record with its resting value", ok, "", clr.where)
    monitor_consumer_consistency(ctx)
    # ---------------- (f) every delay record is one the dt / delay setters reach (shared with C04.e)
    from . import c04
    c04.records_sized_and_registered(ctx, "C06.f/C04.e")
    ctx.import_clauses("C14", {"C14.t", "C14.c"}, "C06.g", pick=lambda s: s.startswith("DelayedMixin"), minimum=3)


def monitor_consumer_consistency(ctx, RULE="C06.d", only=None):
    """Every trainer monitor and the read of it in forward agree on who applies the delay (raw synapse spikes read through
    the connection's selector, or already-delayed synspike peeked) - shared with C08.a for the two- and three-factor
    trainers (`only` = class-name filter)."""
    P = ctx.prog
    # ---------------- (d) trainers
    classes = T.trainer_classes(P)
    if only is None:
        ctx.require(RULE, "trainer classes", len(classes), 14)
    else:
        classes = [c for c in classes if only(c)]
    npairs = 0
    for c in classes:
        rc, f = c.methods["register_cell"], c.methods["forward"]
        ctx.touch(rc, f)
        sites = T.monitor_sites(P, c)
        loop = T.forward_loop(f)
        # the local `delayed`
        dl = [n for n in walk_own(rc.node) if isinstance(n, ast.Assign) and isinstance(n.targets[0], ast.Name) and n.targets[0].id == "delayed"]
        uses_delayed = any(isinstance(x, ast.Name) and x.id == "delayed" for s in sites.values() for x in ast.walk(s.call))
        if uses_delayed:
            ok = len(dl) == 1 and ast.unparse(dl[0].value) == "state.delayed and cell.connection.delayedby is not None"
            ctx.ob(RULE, f"{c.name}.register_cell: delayed = state.delayed and the connection has delays", ok, ast.unparse(dl[0].value) if dl else "missing", rc.where)
        has_delay_term = any(isinstance(x, ast.Attribute) and dotted(x) == "cell.connection.delay" for x in ast.walk(loop))
        if not has_delay_term:
            # a per-cell copy of the delays made at registration also applies the delay once (whether it may go stale is C18.a's concern)
            copies = {n.targets[0].attr for n in walk_own(rc.node) if isinstance(n, ast.Assign) and isinstance(n.targets[0], ast.Attribute)
                      and dotted(n.targets[0].value) == "state" and any(isinstance(x, ast.Attribute) and dotted(x) == "cell.connection.delay" for x in ast.walk(n.value))}
            has_delay_term = any(isinstance(x, ast.Attribute) and dotted(x.value) == "state" and x.attr in copies for x in ast.walk(loop) if isinstance(x, ast.Attribute))
        for name, site in sites.items():
            opts = site.attr_options()
            if not (set(opts) & {"synapse.spike", "connection.synspike"}):
                continue
            # consumer reads
            reads = []
            class V(ast.NodeVisitor):
                def __init__(self):
                    self.stack = []

                def visit_IfExp(self, n):
                    self.visit(n.test)
                    self.stack.append((n, "T"))
                    self.visit(n.body)
                    self.stack[-1] = (n, "F")
                    self.visit(n.orelse)
                    self.stack.pop()

                def visit_Subscript(self, n):
                    if isinstance(n.value, ast.Name) and n.value.id == "monitors" and isinstance(n.slice, ast.Constant) and n.slice.value == name:
                        reads.append((n, list(self.stack)))
                    self.generic_visit(n)
            V().visit(loop)
            if not reads:
                # consumed through a monitor-of-monitor (eligibility trace): '.latest' == peek
                deps = [k for k, s2 in sites.items() if any(sa.split(".")[0] == name for sa in s2.subattrs)]
                if deps:
                    npairs += 1
                    ok = opts == ["connection.synspike"] and all(sa.endswith(".latest") for k in deps for sa in sites[k].subattrs)
                    ctx.ob(RULE, f"{c.name} monitor '{name}' (read by {deps} through .latest) records connection.synspike", ok, f"{opts}", P.loc(rc, site.call))
                continue
            dur = site.reducer_arg("duration")
            for rd, stack in reads:
                npairs += 1
                # which access follows the subscript?
                parent_txt = None
                for x in ast.walk(loop):
                    if isinstance(x, ast.Call) and any(y is rd for y in ast.walk(x.func)):
                        parent_txt = x
                        break
                meth = parent_txt.func.attr if parent_txt is not None and isinstance(parent_txt.func, ast.Attribute) else "?"
                uses_sel = parent_txt is not None and any(isinstance(y, ast.Attribute) and dotted(y) == "cell.connection.selector" for a_ in parent_txt.args for y in ast.walk(a_))
                if parent_txt is None:
                    # not a data read: e.g. `monitors[k].reducer.interpolate` handed to select() as the interpolation rule
                    chain = [y for y in ast.walk(loop) if isinstance(y, ast.Attribute) and any(z is rd for z in ast.walk(y.value))]
                    if any(y.attr == "interpolate" for y in chain):
                        npairs -= 1
                        continue
                cond = [(ast.unparse(n.test), lab) for n, lab in stack]
                if len(opts) == 2:
                    in_delayed = ("state.delayed and cell.connection.delayedby", "T") in cond
                    in_plain = ("state.delayed and cell.connection.delayedby", "F") in cond
                    ok = (in_delayed and uses_sel and meth in ("view", "select")) or (in_plain and not uses_sel and meth in ("peek", "read"))
                    ctx.ob(RULE, f"{c.name}.forward: monitors['{name}'].{meth}(...) {'with' if uses_sel else 'without'} selector", ok,
                           "delayed view iff (state.delayed and delayedby), present value otherwise" if ok else
                           f"read under {cond}: the monitor records {'/'.join(opts)} depending on `delayed`, so the delay is applied twice or not at all on this path",
                           P.loc(f, rd), None)
                elif opts == ["connection.synspike"]:
                    ok = not uses_sel and meth in ("peek", "read")
                    ctx.ob(RULE, f"{c.name}.forward: monitors['{name}'] (connection.synspike) is peeked", ok,
                           "" if ok else "connection.synspike is already delay-shifted; a selector read shifts it again", P.loc(f, rd), None)
                elif opts == ["synapse.spike"]:
                    ok = not uses_sel and meth in ("peek", "read") and has_delay_term
                    ctx.ob(RULE, f"{c.name}.forward: monitors['{name}'] (raw synapse.spike) is peeked and the delay enters explicitly", ok,
                           "" if ok else "raw spikes are read without any delay adjustment", P.loc(f, rd), None)
            if len(opts) == 2:
                okd = isinstance(dur, ast.IfExp) and isinstance(dur.test, ast.Name) and dur.test.id == "delayed" and \
                    any(isinstance(y, ast.Attribute) and dotted(y) == "cell.connection.delayedby" for y in ast.walk(dur.body)) and \
                    not any(isinstance(y, ast.Attribute) and dotted(y) == "cell.connection.delayedby" for y in ast.walk(dur.orelse))
                a_ = site.attr
                oka = isinstance(a_, ast.IfExp) and isinstance(a_.test, ast.Name) and a_.test.id == "delayed" and a_.body.value == "synapse.spike" and a_.orelse.value == "connection.synspike"
                okt = "delayed" in site.tags and isinstance(site.tags["delayed"], ast.Name) and site.tags["delayed"].id == "delayed"
                ctx.ob(RULE, f"{c.name} monitor '{name}': raw spikes with a delayedby-long record iff delayed (and tagged so)", okd and oka and okt,
                       f"attr {ast.unparse(a_)}, duration {ast.unparse(dur) if dur is not None else None}", P.loc(rc, site.call))
    if only is None:
        ctx.require(RULE, "monitor/consumer pairs", npairs, 30)
    return npairs
