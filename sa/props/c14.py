"""C14 — configuration-path independence: setters reach the same model as the constructor."""
from __future__ import annotations

import ast

from ..model import walk_own, dotted, is_self_attr, strip_doc, AnalysisError
from ..cfg import CFG
from .. import grules as G, nf, terms

EXPLANATION = (
    "Decides, for every property setter in the package (90 setters / 205 properties): (a) getter/setter field agreement "
    "(the field the getter returns is the one the setter stores, following the repo's delegation idioms); (b) writer "
    "agreement between the registration method (add_delayed / add_record / add_batched) and the matching setter: the "
    "term assigned to a registered record's dt / duration / batch constraint in the setter equals the one used at "
    "registration after substituting the new value; (c) every such setter loops over the whole registration set and then "
    "stores the cached field; the overriding setters of InfernoSynapse / InfernoNeuron delegate and then clear(); "
    "Connection forwards dt / batchsz to its synapse; (d) no setter reads an undefined name-mangled private; state "
    "derived from a settable property in a constructor is recomputed with the same term in that property's setter; "
    "(e) constructor and setter validate the same field with the same argtest predicate and bound. Not decided: equality "
    "of outputs of setter-built and constructor-built instances (run-time values)."
)
TECHNIQUE = "static analysis: getter/setter field agreement, writer-agreement by normal-form comparison, propagation-loop and delegation structure, name-mangling resolution, validation-sibling agreement"
LEVEL_TEXT = ("All-setters static decision of the structural necessary conditions of configuration-path independence "
              "(field agreement, ctor/setter writer and validator agreement, propagation completeness, derived-state recomputation).")
LEVEL_NOTE = "Trusts the engine's class/MRO/property resolution and the enumerated setter idioms (fget/fset delegation, store-through, linked attributes)."
DESIGN_REF = "DESIGN.md §5 C14"

REGISTRARS = [  # (class, registration method, set attribute is discovered)
    ("BatchMixin", "add_batched"),
    ("DelayedMixin", "add_delayed"),
    ("RecordReducer", "add_record"),
]


def _registration_writes(f):
    """In a registration method: {field: expr} for `getattr(self, a).FIELD = expr` and
    ('reconstrain', dim) for `getattr(self, a).reconstrain(dim, expr)`; plus the set attribute `.add(a)`-ed."""
    writes, regset = {}, None
    for n in walk_own(f.node):
        if isinstance(n, ast.Assign) and isinstance(n.targets[0], ast.Attribute) and isinstance(n.targets[0].value, ast.Call) \
                and dotted(n.targets[0].value.func) == "getattr":
            writes[n.targets[0].attr] = n.value
        if isinstance(n, ast.Call) and isinstance(n.func, ast.Attribute):
            if n.func.attr == "reconstrain" and isinstance(n.func.value, ast.Call) and dotted(n.func.value.func) == "getattr" and len(n.args) == 2:
                writes[f"reconstrain({ast.unparse(n.args[0])})"] = n.args[1]
            if n.func.attr == "add" and is_self_attr(n.func.value):
                regset = n.func.value.attr
    return writes, regset


def _setter_writes(s):
    """Loops `for x in self.<set>: getattr(self, x).FIELD = expr` in a setter."""
    out = []
    for lp in [n for n in walk_own(s.node) if isinstance(n, ast.For)]:
        if not is_self_attr(lp.iter):
            continue
        for n in ast.walk(lp):
            if isinstance(n, ast.Assign) and isinstance(n.targets[0], ast.Attribute) and isinstance(n.targets[0].value, ast.Call) \
                    and dotted(n.targets[0].value.func) == "getattr":
                out.append((lp.iter.attr, n.targets[0].attr, n.value, lp))
            if isinstance(n, ast.Call) and isinstance(n.func, ast.Attribute) and n.func.attr == "reconstrain" \
                    and isinstance(n.func.value, ast.Call) and dotted(n.func.value.func) == "getattr" and len(n.args) == 2:
                out.append((lp.iter.attr, f"reconstrain({ast.unparse(n.args[0])})", n.args[1], lp))
    return out


def _cached_store(s):
    """`self.__F = value` stores of a setter (the cached configuration field)."""
    return [n for n in walk_own(s.node) if isinstance(n, ast.Assign) and is_self_attr(n.targets[0])]


def _argtest(call):
    if isinstance(call, ast.Call):
        d = dotted(call.func)
        if d and d.startswith("argtest."):
            return d.split(".")[1], [ast.unparse(a) for a in call.args[2:]]
        if d in ("bool", "float", "int") and call.args:
            return d, []
    return None


def check(ctx):
    P = ctx.prog
    # ---- (a) G7 over every class
    n = G.g7_getset(ctx, P.all_classes, rule="C14.a/G7")
    ctx.require("C14.a", "property setters with a body", n, 80)

    # ---- (b)+(c) registration vs setters
    nb = 0
    for cname, reg in REGISTRARS:
        c = P.cls(cname)
        rf = c.methods.get(reg)
        if rf is None:
            raise AnalysisError(f"anchor vanished: {cname}.{reg}")
        ctx.touch(rf)
        rwrites, regset = _registration_writes(rf)
        if not rwrites or regset is None:
            raise AnalysisError(f"{cname}.{reg}: registration writes not recognised")
        for pname, fs in c.props.items():
            s, g = fs.get("set"), fs.get("get")
            if s is None or g is None:
                continue
            sw = _setter_writes(s)
            if not sw:
                continue
            ctx.touch(s)
            fld = G.getter_field(g)
            cached = _cached_store(s)
            param = s.params()[0]
            gcfg = CFG(s.node)
            for setattr_, field, expr, lp in sw:
                nb += 1
                ln = gcfg.node_of(lp.iter)
                def changed_guard(t, lab):
                    """the guard says `new value != cached field` (written as != taken, or == not taken, either way round)"""
                    if not (isinstance(t, ast.Compare) and len(t.ops) == 1 and isinstance(t.ops[0], (ast.Eq, ast.NotEq))):
                        return False
                    sides = {ast.unparse(t.left), ast.unparse(t.comparators[0])}
                    return sides == {param, f"self.{fld}"} and (isinstance(t.ops[0], ast.NotEq)) == (lab == "T")
                extra = [ast.unparse(t) for t, lab in (gcfg.guards_of(ln) if ln is not None else []) if not changed_guard(t, lab)]
                ctx.ob("C14.c", f"{cname}.{pname}.setter propagates whenever the value changes", not extra,
                       "" if not extra else f"the propagation to the registered tensors is additionally conditioned on {extra}: for some new values the component "
                       f"reports the new {pname} while its records keep the old configuration", s.where, lp)
                ctx.ob("C14.c", f"{cname}.{pname}.setter propagates over the registration set", setattr_ == regset,
                       f"loops over self.{setattr_}; {reg} registers into self.{regset}", s.where, lp)
                if field not in rwrites:
                    ctx.ob("C14.b", f"{cname}.{pname}.setter writes record field '{field}'", False,
                           f"{reg} never configures '{field}' of a registered tensor, the setter does", s.where, lp)
                    continue
                # registration term, e.g. self.__delay ; setter term with value := self.__<field of p>
                b_reg = terms.Builder(P, rf, inline_depth=0)
                want = b_reg.t(rwrites[field])
                b_set = terms.Builder(P, s, {param: nf.sym(f"self.{fld}")} if fld else {}, inline_depth=0)
                # local rebinding `value = argtest...(value)` is a validation: identity on the value
                got = b_set.t(expr)
                ok = nf.equal(want, got)
                ctx.ob("C14.b", f"{cname}.{pname}.setter vs {reg}: record.{field}", ok,
                       f"registration sets record.{field} = {nf.show(want)}; setter sets {nf.show(got)} (new value written as self.{fld})"
                       + ("" if ok else " — a record reconfigured through the setter is sized differently from one constructed with the same value"),
                       s.where, expr)
            # cached field stored with the (validated) new value after the loop, under the same guard
            okc = any(isinstance(cs.value, ast.Name) and cs.value.id == param and fld is not None and cs.targets[0].attr == fld for cs in cached)
            ctx.ob("C14.c", f"{cname}.{pname}.setter stores the cached field", okc,
                   f"stores {[ast.unparse(cs) for cs in cached]}; getter returns self.{fld}", s.where)
    ctx.require("C14.b", "setter propagation loops", nb, 5)

    # ---- (c) overriding setters: delegate then clear; Connection forwards
    for cname, props in (("InfernoSynapse", ("dt", "delay")), ("InfernoNeuron", ("batchsz",))):
        c = P.cls(cname)
        for p in props:
            s = c.props.get(p, {}).get("set")
            if s is None:
                raise AnalysisError(f"anchor vanished: {cname}.{p}.setter")
            ctx.touch(s)
            body = strip_doc(s.node.body)
            calls = [x.value for x in body if isinstance(x, ast.Expr) and isinstance(x.value, ast.Call)]
            names = [dotted(x.func) for x in calls]
            deleg = [i for i, d in enumerate(names) if d and d.endswith(f".{p}.fset")]
            clr = [i for i, d in enumerate(names) if d == "self.clear"]
            ok = bool(deleg) and bool(clr) and min(deleg) < min(clr)
            ctx.ob("C14.c", f"{cname}.{p}.setter delegates then clears state", ok,
                   "stale histories of the old configuration are dropped after the records were resized" if ok else f"statement calls: {names}", s.where)
    conn = P.cls("Connection")
    for p in ("dt", "batchsz"):
        s = conn.props.get(p, {}).get("set")
        if s is None:
            raise AnalysisError(f"anchor vanished: Connection.{p}.setter")
        ok = any(isinstance(n, ast.Assign) and dotted(n.targets[0]) == f"self.synapse.{p}" and isinstance(n.value, ast.Name)
                 for n in walk_own(s.node))
        ctx.ob("C14.c", f"Connection.{p}.setter forwards to the synapse", ok, "", s.where)
    # Connection.synapse setter replaces the registered submodule (G7 covers the field; here: it is the registered name)
    init = conn.methods["__init__"]
    regname = [c.args[0].value for c in P.calls_in(init) if dotted(c.func) == "self.register_module" and c.args and isinstance(c.args[0], ast.Constant)]
    g = conn.props["synapse"]["get"]
    ok = G.getter_field(g) in regname
    ctx.ob("C14.a", "Connection.synapse getter returns the registered submodule", ok, f"registered {regname}", g.where)

    # RecordTensor temporal setters recompute the size on every path (the inclusive setter re-enters duration unchanged)
    from . import c13
    c13.recompute_on_every_path(ctx, "C14.c")

    # ---- (d) privates and derived state
    nset = 0
    for c in P.all_classes:
        if c.name == "RecordTensor" or ".encoders" in c.module.name:
            continue  # RecordTensor is anchored to C01/C13, the encoder mixins to C19
        defined = G.class_private_stores(P, c)
        strs = G._all_strings(P)
        for pname, fs in c.props.items():
            for which in ("set", "del"):
                f = fs.get(which)
                if f is None:
                    continue
                for node in walk_own(f.node):
                    if isinstance(node, ast.Attribute) and node.attr.startswith("__") and not node.attr.endswith("__") and isinstance(node.ctx, ast.Load):
                        m = c.mangle(node.attr)
                        nset += 1
                        ok = m in defined or m in strs
                        ctx.ob("C14.d/G3", f"{f.short}: {node.attr}", ok,
                               "" if ok else f"reads {ast.unparse(node)} = '{m}', never defined by class {c.name}: the assignment raises AttributeError",
                               P.loc(f, node), node)
    ctx.require("C14.d", "mangled private reads in setters", nset, 20)
    n8 = G.g8_derived_state(ctx, P.all_classes, rule="C14.d/G8")
    ctx.require("C14.d", "derived-state instances", n8, 7)

    # ---- (e) constructor / setter validation agreement
    ne = 0
    for c in P.all_classes:
        init = c.methods.get("__init__")
        if init is None:
            continue
        ctor = {}
        for st in strip_doc(init.node.body):
            if isinstance(st, ast.Assign) and len(st.targets) == 1 and is_self_attr(st.targets[0]):
                a = _argtest(st.value)
                if a and a[0] not in ("bool", "float", "int"):
                    ctor[st.targets[0].attr] = (a, st)
        for pname, fs in c.props.items():
            s, g = fs.get("set"), fs.get("get")
            if s is None or g is None:
                continue
            fld = G.getter_field(g)
            if fld not in ctor:
                continue
            vals = []
            for n in walk_own(s.node):
                if isinstance(n, ast.Assign):
                    a = _argtest(n.value)
                    if a and a[0] not in ("bool", "float", "int"):
                        vals.append((a, n))
            if not vals:
                continue
            ne += 1
            (cop, cargs), cst = ctor[fld]
            (sop, sargs), sst = vals[0]
            ok = (cop, cargs) == (sop, sargs)
            ctx.ob("C14.e", f"{c.name}.{pname}: constructor and setter validate alike", ok,
                   f"constructor: argtest.{cop}({', '.join(cargs)}); setter: argtest.{sop}({', '.join(sargs)})"
                   + ("" if ok else " — a configuration accepted at construction is rejected on assignment (or vice versa)"),
                   s.where, sst)
            ctx.touch(s, init)
    ctx.require("C14.e", "validated fields with setter", ne, 8)
    # ---------------- (f) the resize primitives behind every setter (shared with C13.a / C13.d)
    ctx.import_clauses("C13", {"C13.a", "C13.d"}, "C14.f", minimum=4)
    # ---------------- (g) every history record is registered with the mixins whose setters are checked here (shared with C04.e)
    ctx.import_clauses("C04", {"C04.e"}, "C14.g", minimum=8)
