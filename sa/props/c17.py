"""C17 — layers wire components as documented; clear() restores the initial state."""
from __future__ import annotations

import ast

from ..model import walk_own, dotted, is_self_attr, strip_doc, AnalysisError
from ..cfg import CFG
from .. import grules as G, einops_alg

EXPLANATION = (
    "Decides the structural necessary conditions of layer wiring and clearing on every path: (a) Layer.forward feeds "
    "connection outputs -> wiring -> neurons in both capture_intermediate branches; Serial.wiring = {neuron: "
    "transform(inputs[connection])}; Biclique.wiring feeds each neuron pre_output[k](combine({c: post_input[c](v)})) and "
    "the five literal combine modes map to the same-named einops reduction over the stacked connection axis only; "
    "(b) RecurrentSerial.forward drives the feed-forward pass with the stored feedback spikes (zeros when None), the "
    "lateral pass with the feed-forward neuron's spikes, and stores the feedback neuron's spikes only after both passes; "
    "wiring sums the feed-forward and feedback transforms; inner passes call Layer.forward directly (no hook re-entry); "
    "(c) clear cascades iterate the *values* of the module dictionaries; (d) for every neuron and synapse class, every "
    "piece of state stored by forward() is reset by clear() (adaptations only under keep_adaptations=False), and "
    "Connection.clear clears updater and synapse. Not decided: replay determinism of values."
)
TECHNIQUE = "static analysis: def-use chain typing of forward, CFG ordering, mapping-iteration typing, forward-store / clear-reset pairing over the class hierarchy"
LEVEL_TEXT = "All-paths static decision of wiring chains, recurrent ordering, clear cascades and forward/clear state pairing for every layer, neuron and synapse class."
LEVEL_NOTE = "Trusts the engine's resolution and the enumerated reset idioms (assignment through the property, record.reset/deinitialize, explicit Base.clear delegation)."
DESIGN_REF = "DESIGN.md §5 C17"


def _tag_expr(e, env):
    """Chain tags: 'conn' -> 'wired' -> 'neur'."""
    if isinstance(e, ast.DictComp):
        v = e.value
        src = e.generators[0].iter
        src_tag = None
        if isinstance(src, ast.Call) and isinstance(src.func, ast.Attribute) and src.func.attr == "items" and isinstance(src.func.value, ast.Name):
            src_tag = env.get(src.func.value.id, "input" if src.func.value.id == "inputs" else None)
        if isinstance(v, ast.Call) and isinstance(v.func, ast.Subscript) and is_self_attr(v.func.value):
            which = v.func.value.attr
            kname = e.generators[0].target.elts[0].id if isinstance(e.generators[0].target, ast.Tuple) else None
            vname = e.generators[0].target.elts[1].id if isinstance(e.generators[0].target, ast.Tuple) else None
            keyed = isinstance(v.func.slice, ast.Name) and v.func.slice.id == kname and isinstance(e.key, ast.Name) and e.key.id == kname
            first = v.args[0] if v.args else None
            fed = (isinstance(first, ast.Name) and first.id == vname) or (isinstance(first, ast.Starred) and isinstance(first.value, ast.Name) and first.value.id == vname)
            if which == "connections_" and src_tag == "input" and keyed and fed:
                return "conn"
            if which == "neurons_" and src_tag == "wired" and keyed and fed:
                return "neur"
        return None
    if isinstance(e, ast.Call) and dotted(e.func) == "self.wiring" and e.args and isinstance(e.args[0], ast.Name):
        return "wired" if env.get(e.args[0].id) == "conn" else None
    if isinstance(e, ast.Name):
        return env.get(e.id)
    if isinstance(e, ast.Tuple):
        return tuple(_tag_expr(x, env) for x in e.elts)
    return None


def _walk_chain(stmts, env, out):
    for i, st in enumerate(stmts):
        if isinstance(st, ast.If):
            _walk_chain(st.body + stmts[i + 1:], dict(env), out)
            _walk_chain(st.orelse + stmts[i + 1:], dict(env), out)
            return
        if isinstance(st, ast.Assign) and isinstance(st.targets[0], ast.Name):
            env[st.targets[0].id] = _tag_expr(st.value, env)
        elif isinstance(st, ast.Return):
            out.append((st, _tag_expr(st.value, env) if st.value is not None else None))
            return


def check(ctx):
    P = ctx.prog
    layer = P.cls("Layer")

    # ---------------- (a) Layer.forward chain
    fw = layer.methods.get("forward")
    if fw is None:
        raise AnalysisError("anchor vanished: Layer.forward")
    ctx.touch(fw)
    rets = []
    _walk_chain(strip_doc(fw.node.body), {}, rets)
    ctx.require("C17.a", "return paths of Layer.forward", len(rets), 2)
    for st, tag in rets:
        first = tag[0] if isinstance(tag, tuple) else tag
        ok = first == "neur" and (not isinstance(tag, tuple) or tag[1] == "conn")
        ctx.ob("C17.a", f"Layer.forward return `{ast.unparse(st)[:40]}`", ok,
               "value = neurons_[k](wiring(connections_[k](*inputs[k]))[k])" + (" with the raw connection outputs as intermediate" if isinstance(tag, tuple) else "")
               if ok else f"returned value is not neurons(wiring(connections(inputs))) on this path (chain tag: {tag})",
               P.loc(fw, st), st)

    # Serial
    serial = P.cls("Serial")
    w = serial.methods.get("wiring")
    if w is None:
        raise AnalysisError("anchor vanished: Serial.wiring")
    ctx.touch(w)
    r = [s for s in walk_own(w.node) if isinstance(s, ast.Return)]
    ok = False
    if len(r) == 1 and isinstance(r[0].value, ast.Dict) and len(r[0].value.keys) == 1:
        k, v = r[0].value.keys[0], r[0].value.values[0]
        ok = (is_self_attr(k) and "neuron" in k.attr and isinstance(v, ast.Call) and dotted(v.func) == "self._transform" and v.args
              and isinstance(v.args[0], ast.Subscript) and isinstance(v.args[0].value, ast.Name) and v.args[0].value.id == w.params()[0]
              and is_self_attr(v.args[0].slice) and "connection" in v.args[0].slice.attr)
    ctx.ob("C17.a", "Serial.wiring = {neuron: transform(inputs[connection])}", ok, "", w.where)
    sf = serial.methods.get("forward")
    ctx.touch(sf)
    _no_reentry(ctx, sf)
    calls = [c for c in P.calls_in(sf) if dotted(c.func) == "Layer.forward"]
    ok = len(calls) == 1 and len(calls[0].args) >= 2 and isinstance(calls[0].args[1], ast.Dict) and len(calls[0].args[1].keys) == 1 \
        and is_self_attr(calls[0].args[1].keys[0]) and "connection" in calls[0].args[1].keys[0].attr \
        and isinstance(calls[0].args[1].values[0], ast.Name) and calls[0].args[1].values[0].id == (sf.node.args.vararg.arg if sf.node.args.vararg else "")
    ctx.ob("C17.a", "Serial.forward passes its inputs to the single connection", ok, "", sf.where)
    # returned element: the neuron's output
    rets = [s for s in walk_own(sf.node) if isinstance(s, ast.Return)]
    ok = all(any(is_self_attr(n) and "neuron" in n.attr for n in ast.walk(s.value)) for s in rets) and bool(rets)
    ctx.ob("C17.a", "Serial.forward returns the neuron group's output", ok, "", sf.where)

    # Biclique
    bic = P.cls("Biclique")
    bw = bic.methods.get("wiring")
    if bw is None:
        raise AnalysisError("anchor vanished: Biclique.wiring")
    ctx.touch(bw)
    r = [s for s in walk_own(bw.node) if isinstance(s, ast.Return)]
    ok = False
    if len(r) == 1 and isinstance(r[0].value, ast.DictComp):
        dc = r[0].value
        g = dc.generators[0]
        outer_ok = isinstance(g.iter, ast.Call) and dotted(g.iter.func) == "self.pre_output.items" and isinstance(g.target, ast.Tuple)
        kk, vv = (g.target.elts[0].id, g.target.elts[1].id) if outer_ok else (None, None)
        v = dc.value
        if outer_ok and isinstance(dc.key, ast.Name) and dc.key.id == kk and isinstance(v, ast.Call) and isinstance(v.func, ast.Name) and v.func.id == vv \
                and len(v.args) == 1 and isinstance(v.args[0], ast.Call) and dotted(v.args[0].func) == "self._combine" and v.args[0].args \
                and isinstance(v.args[0].args[0], ast.DictComp):
            inner = v.args[0].args[0]
            ig = inner.generators[0]
            i_ok = isinstance(ig.iter, ast.Call) and isinstance(ig.iter.func, ast.Attribute) and ig.iter.func.attr == "items" \
                and isinstance(ig.iter.func.value, ast.Name) and ig.iter.func.value.id == bw.params()[0] and isinstance(ig.target, ast.Tuple)
            if i_ok:
                ik, iv = ig.target.elts[0].id, ig.target.elts[1].id
                val = inner.value
                ok = isinstance(inner.key, ast.Name) and inner.key.id == ik and isinstance(val, ast.Call) and isinstance(val.func, ast.Subscript) \
                    and is_self_attr(val.func.value, "post_input") and isinstance(val.func.slice, ast.Name) and val.func.slice.id == ik \
                    and len(val.args) == 1 and isinstance(val.args[0], ast.Name) and val.args[0].id == iv
    ctx.ob("C17.a", "Biclique.wiring = {n: pre_output[n](combine({c: post_input[c](inputs[c])}))}", ok,
           "every neuron group receives the combination of all transformed connection outputs" if ok else "wiring expression does not have the documented shape", bw.where)
    bi = bic.methods.get("__init__")
    ctx.touch(bi)
    modes_ok, red_ok, found, red_pat = False, False, [], None
    for m in [n for n in walk_own(bi.node) if isinstance(n, ast.Match)]:
        for case in m.cases:
            lits = []
            pats = case.pattern.patterns if isinstance(case.pattern, ast.MatchOr) else [case.pattern]
            for p in pats:
                if isinstance(p, ast.MatchValue) and isinstance(p.value, ast.Constant) and isinstance(p.value.value, str):
                    lits.append(p.value.value)
            if len(lits) >= 2:
                found = lits
                modes_ok = set(lits) <= {"sum", "mean", "prod", "min", "max", "any", "all"}
                for c in [x for b in case.body for x in ast.walk(b) if isinstance(x, ast.Call)]:
                    if dotted(c.func) == "ein.reduce" and len(c.args) >= 3:
                        pat = c.args[1].value if isinstance(c.args[1], ast.Constant) else ""
                        red = c.args[2]
                        from_combine = any(isinstance(n, ast.Name) and n.id == "combine" for n in ast.walk(red))
                        try:
                            pp = einops_alg.Pattern(pat)
                            left, right = pp.inputs[0], pp.output
                            # the stacked axis is removed and nothing else changes: no unit axis may be left in its place,
                            # or every output would carry an extra leading dimension instead of the neurons' batched shape
                            only_stack = left.groups[0] not in right.groups and right.groups == left.groups[1:]
                        except Exception:
                            only_stack = False
                        red_ok = from_combine and only_stack
                        red_pat = pat
    ctx.ob("C17.a", "Biclique combine modes map to the same-named reduction that removes exactly the stacked connection axis", modes_ok and red_ok,
           f"literal modes {found}; reduction name taken from `combine`, pattern reduces only the stacking axis" if modes_ok and red_ok
           else f"literal modes {found} (ok={modes_ok}); reduction pattern {red_pat!r} does not map (s, *shape) to (*shape): "
                f"the combined current keeps an extra leading axis, so neuron outputs and states are shaped (1, B, ...) instead of the batched shape", bi.where)

    # ---------------- (b) RecurrentSerial
    rs = P.cls("RecurrentSerial")
    rf = rs.methods.get("forward")
    rw = rs.methods.get("wiring")
    if rf is None or rw is None:
        raise AnalysisError("anchor vanished: RecurrentSerial.forward/wiring")
    ctx.touch(rf, rw)
    _no_reentry(ctx, rf)
    g = CFG(rf.node)
    passes = g.stmt_nodes_calling(lambda c: dotted(c.func) == "Layer.forward")
    ctx.require("C17.b", "inner Layer.forward passes", len(passes), 2)
    store_nodes = [n for n in g.nodes if n.kind == "stmt" and isinstance(n.ast, ast.Assign) and is_self_attr(n.ast.targets[0], "feedback_spikes")
                   and not any(isinstance(x, ast.Call) and dotted(x.func) in ("torch.zeros_like", "torch.zeros") for x in ast.walk(n.ast.value))]
    ok = bool(store_nodes) and all(not g.can_follow(s, p) for s in store_nodes for p in passes) and g.must_pass(store_nodes)
    ctx.ob("C17.b", "RecurrentSerial.forward stores feedback spikes after both passes, on every path", ok,
           "the stored spikes are consumed by the *next* step" if ok else "feedback spikes are overwritten before a pass that reads them, or not stored on some path",
           rf.where)
    src_ok = all(isinstance(s.ast.value, ast.Attribute) and s.ast.value.attr == "spike" and
                 any(is_self_attr(x) and "feedback_neuron" in x.attr for x in ast.walk(s.ast.value)) for s in store_nodes) and bool(store_nodes)
    ctx.ob("C17.b", "stored feedback = feedback neuron's spikes", src_ok, "", rf.where)
    # zero initialisation when None, before first pass
    zinit = [n for n in g.nodes if n.kind == "stmt" and isinstance(n.ast, ast.Assign) and is_self_attr(n.ast.targets[0], "feedback_spikes")
             and any(isinstance(x, ast.Call) and dotted(x.func) in ("torch.zeros_like", "torch.zeros") for x in ast.walk(n.ast.value))]
    guards = [ast.unparse(t) for z in zinit for t, lab in g.guards_of(z) if lab == "T"]
    ok = bool(zinit) and any("feedback_spikes is None" in gd for gd in guards) and all(g.can_follow(z, p) for z in zinit for p in passes)
    ctx.ob("C17.b", "no stored spikes => zeros (first step / after clear)", ok, f"guards {guards}", rf.where)
    # pass inputs
    if len(passes) >= 2:
        c1 = [c for c in ast.walk(passes[0].ast) if isinstance(c, ast.Call) and dotted(c.func) == "Layer.forward"][0]
        c2 = [c for c in ast.walk(passes[1].ast) if isinstance(c, ast.Call) and dotted(c.func) == "Layer.forward"][0]

        def dict_arg(c):
            return c.args[1] if len(c.args) > 1 and isinstance(c.args[1], ast.Dict) else None
        d1, d2 = dict_arg(c1), dict_arg(c2)
        ok1 = d1 is not None and any(is_self_attr(k) and "feedback_connection" in k.attr and
                                     any(is_self_attr(x, "feedback_spikes") for x in ast.walk(v)) for k, v in zip(d1.keys, d1.values)) \
            and any(is_self_attr(k) and "feedfwd_connection" in k.attr and isinstance(v, ast.Name) and v.id == (rf.node.args.vararg.arg if rf.node.args.vararg else "")
                    for k, v in zip(d1.keys, d1.values))
        ok2 = d2 is not None and any(is_self_attr(k) and "lateral_connection" in k.attr and
                                     any(isinstance(x, ast.Attribute) and x.attr == "spike" for x in ast.walk(v)) and
                                     any(is_self_attr(x) and "feedfwd_neuron" in x.attr for x in ast.walk(v)) for k, v in zip(d2.keys, d2.values))
        fp1 = any(k.arg == "forward_pass" and isinstance(k.value, ast.Constant) and k.value.value is True for k in c1.keywords)
        fp2 = any(k.arg == "forward_pass" and isinstance(k.value, ast.Constant) and k.value.value is False for k in c2.keywords)
        ctx.ob("C17.b", "first pass: feed-forward inputs + feedback connection driven by stored feedback spikes", ok1 and fp1, "", P.loc(rf, c1), c1)
        ctx.ob("C17.b", "second pass: lateral connection driven by this step's feed-forward spikes", ok2 and fp2, "", P.loc(rf, c2), c2)
    # wiring
    ok = False
    for n in walk_own(rw.node):
        if isinstance(n, ast.If) and isinstance(n.test, ast.Name) and n.test.id == "forward_pass":
            ra = [s for s in n.body if isinstance(s, ast.Return)]
            rb = [s for s in n.orelse if isinstance(s, ast.Return)]
            if ra and rb and isinstance(ra[0].value, ast.Dict) and isinstance(rb[0].value, ast.Dict):
                va, ka = ra[0].value.values[0], ra[0].value.keys[0]
                vb, kb = rb[0].value.values[0], rb[0].value.keys[0]
                sum_ok = isinstance(va, ast.BinOp) and isinstance(va.op, ast.Add) and \
                    {("feedfwd" in ast.unparse(x)) for x in (va.left, va.right)} == {True, False} and \
                    any("feedback_out_transform" in ast.unparse(x) and "feedback_connection" in ast.unparse(x) for x in (va.left, va.right)) and \
                    any("feedfwd_out_transform" in ast.unparse(x) and "feedfwd_connection" in ast.unparse(x) for x in (va.left, va.right))
                ok = sum_ok and "feedfwd_neuron" in ast.unparse(ka) and "feedback_neuron" in ast.unparse(kb) \
                    and "lateral_out_transform" in ast.unparse(vb) and "lateral_connection" in ast.unparse(vb)
    ctx.ob("C17.b", "RecurrentSerial.wiring: feedfwd neuron <- feedfwd + feedback; feedback neuron <- lateral", ok, "", rw.where)

    # ---------------- (c) clear cascades
    dattrs = G.dict_typed_attrs(P)
    layer_classes = [c for c in P.all_classes if c.is_subclass_of("Layer")]
    n = G.g6_mapping_iter(ctx, [c.methods["clear"] for c in layer_classes if "clear" in c.methods], dattrs, rule="C17.c/G6")
    ctx.require("C17.c", "mapping iterations in layer clear()", n, 4)
    for c in layer_classes:
        f = c.methods.get("clear")
        if f is None:
            continue
        ctx.touch(f)
        cleared = set()
        for lp in [x for x in walk_own(f.node) if isinstance(x, ast.For)]:
            it = lp.iter
            base = it.func.value if isinstance(it, ast.Call) and isinstance(it.func, ast.Attribute) and it.func.attr == "values" else it
            if is_self_attr(base) and any(isinstance(x, ast.Call) and isinstance(x.func, ast.Attribute) and x.func.attr == "clear" for x in ast.walk(lp)):
                cleared.add(base.attr)
        ctx.ob("C17.c", f"{c.name}.clear cascades to connections and neurons", {"connections_", "neurons_"} <= cleared,
               f"cascades over {sorted(cleared)}", f.where)
    rc = rs.methods.get("clear")
    ok = any(isinstance(n_, ast.Assign) and is_self_attr(n_.targets[0], "feedback_spikes") and isinstance(n_.value, ast.Constant) and n_.value.value is None
             for n_ in walk_own(rc.node))
    ctx.ob("C17.c", "RecurrentSerial.clear drops the stored feedback spikes", ok, "", rc.where)
    cc = P.cls("Connection").methods.get("clear")
    names = [dotted(c.func) for c in P.calls_in(cc)]
    ctx.ob("C17.d", "Connection.clear = Updatable.clear + synapse.clear", "Updatable.clear" in names and "self.synapse.clear" in names, f"{names}", cc.where)

    # ---------------- (d) forward-store / clear-reset pairing
    npair = 0
    for base in ("InfernoNeuron", "InfernoSynapse"):
        for c in P.subclasses.get(base, []):
            fwd, clr = c.find_method("forward"), c.find_method("clear")
            if fwd is None or clr is None or fwd.cls.name == base:
                continue
            st_f = _stores(P, c, fwd, set())
            st_c, guarded = _resets(P, c, clr, set())
            ctx.touch(fwd, clr)
            for attr in sorted(st_f):
                npair += 1
                fields = _fields_of(P, c, attr)
                hit = attr in st_c or bool(fields & st_c)
                g_only = (attr in guarded or bool(fields & guarded)) and not hit
                adapt = "adaptation" in attr
                ok = hit or (g_only and adapt)
                ctx.ob("C17.d", f"{c.name}: state '{attr}' stored by forward is reset by clear", ok,
                       (f"reset unconditionally" if hit else "reset under keep_adaptations=False (learned adaptation is kept by default)") if ok
                       else f"clear() resets {sorted(st_c | guarded)} but not '{attr}' ({sorted(fields)}): replaying the same inputs after clear() starts from stale state",
                       clr.where)
    ctx.require("C17.d", "forward-store/clear-reset pairs", npair, 20)


def _no_reentry(ctx, f):
    bad = [c for c in ctx.prog.calls_in(f) if isinstance(c.func, ast.Name) and c.func.id == "self"
           or dotted(c.func) in ("self.__call__", "self.forward")]
    ctx.ob("C17.b", f"{f.short}: inner passes do not re-enter self(...)", not bad,
           "" if not bad else "re-entering the module fires its forward hooks (monitors) more than once per layer step", f.where)


def _delegates(P, c, f):
    """Functions explicitly delegated to: `Base.meth(self, ...)` / super().meth(...)."""
    out = []
    for call in P.calls_in(f):
        r = P.resolve_call(f, call)
        if r and r[0].name == f.name and r[0] is not f:
            out.append(r[0])
    return out


def _stores(P, c, f, seen):
    if f in seen:
        return set()
    seen.add(f)
    out = {n.targets[0].attr for n in walk_own(f.node) if isinstance(n, ast.Assign) and len(n.targets) == 1 and is_self_attr(n.targets[0])}
    for n in walk_own(f.node):
        if isinstance(n, ast.Assign) and isinstance(n.targets[0], ast.Tuple):
            out |= {t.attr for t in n.targets[0].elts if is_self_attr(t)}
    for d in _delegates(P, c, f):
        out |= _stores(P, c, d, seen)
    return out


def _resets(P, c, f, seen):
    """(unconditional resets, resets under a guard)."""
    if f in seen:
        return set(), set()
    seen.add(f)
    uncond, guarded = set(), set()

    def visit(stmts, under_if):
        for st in stmts:
            if isinstance(st, ast.If):
                visit(st.body, True)
                visit(st.orelse, True)
                continue
            tgt = None
            if isinstance(st, ast.Assign) and is_self_attr(st.targets[0]):
                tgt = st.targets[0].attr
                # assigning through a record-backed property *pushes* one observation; it does not wipe the history
                sset = c.find_prop(tgt, "set")
                if sset is not None and any(isinstance(x, ast.Call) and isinstance(x.func, ast.Attribute) and x.func.attr == "push" for x in walk_own(sset.node)):
                    tgt = None
            elif isinstance(st, ast.Expr) and isinstance(st.value, ast.Call) and isinstance(st.value.func, ast.Attribute) \
                    and is_self_attr(st.value.func.value) and st.value.func.attr in ("reset", "deinitialize", "fill_", "zero_", "clear"):
                tgt = st.value.func.value.attr
            if tgt:
                (guarded if under_if else uncond).add(tgt)
    visit(strip_doc(f.node.body), False)
    for d in _delegates(P, c, f):
        u, g_ = _resets(P, c, d, seen)
        uncond |= u
        guarded |= g_
    return uncond, guarded


def _fields_of(P, c, attr):
    s = c.find_prop(attr, "set")
    if s is None:
        return set()
    direct, through, _, re_ = G.setter_stores(P, s)
    return set(direct) | set(through) | set(re_)
