"""C15 — trainer / monitor lifecycle: one observation per training step, cells isolated."""
from __future__ import annotations

import ast

from ..model import walk_own, dotted, is_self_attr, strip_doc, AnalysisError, kwarg
from ..cfg import CFG
from .. import grules as G, trainers as T, hooks, boolpath

EXPLANATION = (
    "Decides the structural necessary conditions of the trainer/monitor lifecycle: (a) trainer listings call no property "
    "value; (b) CellTrainer.train registers every pooled monitor when switched on and deregisters every one otherwise, "
    "MonitorPool.add_monitor deregisters a monitor added while the pool is not training, every trainer forward skips cells "
    "unless cell, trainer are training and an updater exists, and every trainer monitor is built with train_update=True, "
    "eval_update=False; (c) hook gating truth table over (trainexec, evalexec, training); (d) no Layer forward re-enters "
    "self(...), so hooks fire once per step; (e) a shared (pooled) monitor is released only under a test over the other "
    "observables' entries; (f) every non-constant argument of a pooled monitor's reducer is represented in the aliasing "
    "tags; (g) the by-name monitor map of an observable is not overwritten without an ownership test; (h) the alias search "
    "skips observables of a dead or different basis (truth table). Not decided: the semantics of arbitrary interleavings "
    "and garbage collection."
)
TECHNIQUE = "static analysis: typed property-call check, CFG guard/ordering rules, truth-table evaluation of gating and alias guards, tag-completeness data flow over 45 add_monitor sites"
LEVEL_TEXT = "All-sites static decision of lifecycle wiring (registration, gating, release ownership, pool-key completeness, alias guards) for all 14 trainers and the pooling classes."
LEVEL_NOTE = "Trusts torch's forward-hook dispatch and the engine; interleaving semantics is not modelled."
DESIGN_REF = "DESIGN.md §5 C15"


def _expand_names(expr, fnode, depth=3):
    """Text of expr plus the right-hand sides of the local names it mentions (def-use, flow-insensitive)."""
    seen, out, frontier = set(), [expr], [expr]
    for _ in range(depth):
        nxt = []
        for e in frontier:
            for n in ast.walk(e):
                if isinstance(n, ast.Name) and n.id not in seen:
                    seen.add(n.id)
                    for st in walk_own(fnode):
                        if isinstance(st, ast.Assign) and any(isinstance(t, ast.Name) and t.id == n.id for t in st.targets):
                            nxt.append(st.value)
        out += nxt
        frontier = nxt
    return out


def check(ctx):
    P = ctx.prog
    ct = P.cls("CellTrainer")
    pool = P.cls("MonitorPool")
    obs = P.cls("Observable")

    # ---------------- (a) listings
    n = G.g5_typed_property_call(ctx, list(ct.all_funcs()) + list(P.cls("IndependentCellTrainer").all_funcs()), rule="C15.a/G5")
    ctx.require("C15.a", "calls on the trainer's typed monitor pool", n, 8)

    # ---------------- (b) registration
    tr = ct.methods.get("train")
    if tr is None:
        raise AnalysisError("anchor vanished: CellTrainer.train")
    ctx.touch(tr)

    def loop_calls(stmts, meth):
        for lp in [x for s in stmts for x in ast.walk(s) if isinstance(x, ast.For)]:
            it = lp.iter
            over_pool = dotted(it) == "self.monitor_pool_.monitors" or (isinstance(it, ast.Call) and dotted(it.func) == "self.monitor_pool_.monitors")
            v = lp.target.id if isinstance(lp.target, ast.Name) else None
            if over_pool and any(isinstance(c, ast.Call) and isinstance(c.func, ast.Attribute) and c.func.attr == meth
                                 and isinstance(c.func.value, ast.Name) and c.func.value.id == v for c in ast.walk(lp)):
                return True
        return False
    ok = False
    for st in strip_doc(tr.node.body):
        if isinstance(st, ast.If) and isinstance(st.test, ast.Name) and st.test.id == tr.params()[0]:
            ok = loop_calls(st.body, "register") and loop_calls(st.orelse, "deregister") \
                and not loop_calls(st.body, "deregister") and not loop_calls(st.orelse, "register")
    ctx.ob("C15.b", "CellTrainer.train(mode): register all pooled monitors iff mode else deregister all", ok, "", tr.where)
    ok = any(dotted(c.func) == "Module.train" and len(c.args) >= 2 and isinstance(c.args[1], ast.Name) and c.args[1].id == tr.params()[0]
             for c in P.calls_in(tr))
    ctx.ob("C15.b", "CellTrainer.train propagates the mode to the module", ok, "", tr.where)
    am = pool.methods.get("add_monitor")
    if am is None:
        raise AnalysisError("anchor vanished: MonitorPool.add_monitor")
    ctx.touch(am)
    g = CFG(am.node)
    dereg = g.stmt_nodes_calling(lambda c: isinstance(c.func, ast.Attribute) and c.func.attr == "deregister")
    guards = [ast.unparse(t) + ":" + lab for d in dereg for t, lab in g.guards_of(d)]
    store = [nd for nd in g.nodes if nd.kind == "stmt" and isinstance(nd.ast, ast.Assign) and isinstance(nd.ast.targets[0], ast.Subscript)
             and "monitors_" in ast.unparse(nd.ast.targets[0])]
    ok = bool(dereg) and "not self.training:T" in guards
    ctx.ob("C15.b", "MonitorPool.add_monitor: a monitor added while not training is deregistered", ok, f"guards {guards}", am.where)

    classes = T.trainer_classes(P)
    ctx.require("C15.b", "trainer classes", len(classes), 14)
    nsites = 0
    for c in classes:
        f = c.methods["forward"]
        ctx.touch(f)
        loop = T.forward_loop(f)
        gd = None
        for i, st in enumerate(loop.body):
            if isinstance(st, ast.If) and len(st.body) == 1 and isinstance(st.body[0], ast.Continue) and not st.orelse:
                txt = ast.unparse(st.test)
                if all(k in txt for k in ("not cell.training", "not self.training", "not cell.updater")) and isinstance(st.test, ast.BoolOp) and isinstance(st.test.op, ast.Or):
                    gd = (i, st)
                    break
        before = []
        if gd:
            for st in loop.body[:gd[0]]:
                if any(isinstance(x, ast.Subscript) and isinstance(x.value, ast.Name) and x.value.id == "monitors" for x in ast.walk(st)) or \
                        any(isinstance(x, ast.Attribute) and dotted(x) and dotted(x).startswith("cell.updater") and isinstance(x.ctx, ast.Store) for x in ast.walk(st)):
                    before.append(st)
        ctx.ob("C15.b", f"{f.short}: skips unless cell.training and self.training and cell.updater", gd is not None and not before,
               "guard `continue` precedes every monitor read and updater store" if gd is not None and not before else
               "no mode/updater guard before the update is computed: an eval-mode trainer or cell would consume stale monitor data", f.where)
        # monitor construction flags
        rc = c.methods["register_cell"]
        ctx.touch(rc)
        mk = {}
        for st in walk_own(rc.node):
            if isinstance(st, ast.Assign) and isinstance(st.targets[0], ast.Name) and isinstance(st.value, ast.Dict):
                mk[st.targets[0].id] = {k.value: v for k, v in zip(st.value.keys, st.value.values) if isinstance(k, ast.Constant)}
        for name, site in T.monitor_sites(P, c).items():
            nsites += 1
            flags = {}
            if site.ctor is not None:
                for k in site.ctor.keywords:
                    if k.arg is None and isinstance(k.value, ast.Name) and k.value.id in mk:
                        flags.update(mk[k.value.id])
                for k in site.ctor.keywords:
                    if k.arg is not None:
                        flags[k.arg] = k.value
            tu, eu = flags.get("train_update"), flags.get("eval_update")
            ok = isinstance(tu, ast.Constant) and tu.value is True and isinstance(eu, ast.Constant) and eu.value is False
            ctx.ob("C15.b", f"{c.name} monitor '{name}': train_update=True, eval_update=False", ok,
                   "" if ok else "monitor would record while the layer is in eval mode (or not at all while training)", P.loc(rc, site.call), None)
    ctx.require("C15.b", "add_monitor sites", nsites, 45)

    # ---------------- (c) gating
    hooks.gating(ctx, "C15.c")

    # ---------------- (d) no hook re-entry in any Layer forward
    nl = 0
    for c in P.all_classes:
        if c.is_subclass_of("Layer") and "forward" in c.methods:
            f = c.methods["forward"]
            nl += 1
            bad = [x for x in P.calls_in(f) if (isinstance(x.func, ast.Name) and x.func.id == "self") or dotted(x.func) in ("self.__call__", "self.forward")]
            ctx.ob("C15.d", f"{f.short}: no re-entry through self(...)", not bad,
                   "" if not bad else "re-entering the layer fires every monitor hook a second time in one step", f.where)
            ctx.touch(f)
    ctx.require("C15.d", "Layer forward implementations", nl, 3)

    # ---------------- (e) release ownership of pooled monitors
    nrel = 0
    for mname in ("del_observed", "del_monitor"):
        f = pool.methods.get(mname)
        if f is None:
            raise AnalysisError(f"anchor vanished: MonitorPool.{mname}")
        ctx.touch(f)
        g = CFG(f.node)
        rel = g.stmt_nodes_calling(lambda c: isinstance(c.func, ast.Attribute) and c.func.attr == "deregister")
        for r in rel:
            nrel += 1
            owned = False
            for t, lab in g.guards_of(r):
                for e in _expand_names(t, f.node):
                    for x in ast.walk(e):
                        if isinstance(x, (ast.GeneratorExp, ast.ListComp, ast.SetComp, ast.DictComp)):
                            if any(is_self_attr(y, "monitors_") for gen in x.generators for y in ast.walk(gen.iter)):
                                owned = True
            # ... and the test must say "no other observable still holds it", whichever way it is written
            def holders(e, depth=0):
                """'some' = e is true iff some other group holds the monitor, 'none' = iff none does, None = not such a test"""
                if isinstance(e, ast.UnaryOp) and isinstance(e.op, ast.Not):
                    v = holders(e.operand, depth)
                    return {"some": "none", "none": "some"}.get(v)
                if isinstance(e, ast.Call) and isinstance(e.func, ast.Name) and e.func.id == "any" and e.args \
                        and isinstance(e.args[0], (ast.GeneratorExp, ast.ListComp)):
                    el = e.args[0].elt
                    if isinstance(el, ast.Compare) and len(el.ops) == 1:
                        if isinstance(el.ops[0], (ast.Is, ast.Eq)):
                            return "some"
                        if isinstance(el.ops[0], (ast.IsNot, ast.NotEq)):
                            return "wrong"
                    return None
                if isinstance(e, ast.Compare) and len(e.ops) == 1 and isinstance(e.ops[0], (ast.In, ast.NotIn)):
                    return "some" if isinstance(e.ops[0], ast.In) else "none"
                if isinstance(e, ast.Name) and depth < 3:
                    for d_ in _expand_names(e, f.node):
                        if d_ is not e:
                            v = holders(d_, depth + 1)
                            if v:
                                return v
                return None
            polarity = None
            for t, lab in g.guards_of(r):
                v = holders(t)
                if v in ("some", "none"):
                    polarity = v if lab == "T" else {"some": "none", "none": "some"}[v]
                elif v == "wrong":
                    polarity = "wrong"
            if owned:
                ctx.ob("C15.e", f"MonitorPool.{mname}: the monitor is released exactly when no other observable holds it", polarity == "none",
                       "" if polarity == "none" else
                       "the release test has the wrong polarity (or compares with `is not`): a monitor still shared with another cell is deregistered - "
                       "and one that nobody holds any more keeps its hooks", P.loc(f, r.ast), None)
            ctx.ob("C15.e", f"MonitorPool.{mname}: release of a possibly shared monitor", owned,
                   "deregister() is control-dependent on a test over the other observables' monitor groups" if owned else
                   "deregister() is unconditional: a pooled monitor shared with another cell stops recording for that cell too",
                   P.loc(f, r.ast), None)
    ctx.require("C15.e", "release sites", nrel, 2)
    # every other release inside the pool is either ownership-guarded or the not-training deregistration of add_monitor
    for f in pool.all_funcs():
        if f.name in ("del_observed", "del_monitor"):
            continue
        g = CFG(f.node)
        for r in g.stmt_nodes_calling(lambda c: isinstance(c.func, ast.Attribute) and c.func.attr == "deregister"):
            gs = g.guards_of(r)
            owned = any(isinstance(x, (ast.GeneratorExp, ast.ListComp, ast.SetComp, ast.DictComp)) and
                        any(is_self_attr(y, "monitors_") for gen in x.generators for y in ast.walk(gen.iter))
                        for t, lab in gs for e in _expand_names(t, f.node) for x in ast.walk(e))
            nottraining = any(ast.unparse(t) == "not self.training" and lab == "T" for t, lab in gs)
            ctx.ob("C15.e", f"MonitorPool.{f.name}: release `{ast.unparse(r.ast)[:40]}`", owned or nottraining,
                   "pool not training (every monitor is deregistered then)" if nottraining else ("ownership-guarded" if owned else
                   "deregisters a monitor that may be pooled (shared with another observable) without an ownership test: the other cell stops recording"),
                   P.loc(f, r.ast), None)

    # ---------------- (f) pool-key completeness
    for c in classes:
        rc = c.methods["register_cell"]
        bs = c.find_method("_build_cell_state")
        determined = {}   # state attr -> attrs that determine it (match on state.X assigning state.Y)
        if bs is not None:
            for m in [x for x in walk_own(bs.node) if isinstance(x, ast.Match)]:
                subj = T.state_attrs(m.subject)
                for case in m.cases:
                    for st in case.body:
                        if isinstance(st, ast.Assign) and isinstance(st.targets[0], ast.Attribute) and dotted(st.targets[0].value) == "state":
                            determined.setdefault(st.targets[0].attr, set()).update(subj)
        for name, site in T.monitor_sites(P, c).items():
            if site.reducer is None:
                continue
            unp = site.unpooled
            if isinstance(unp, ast.Constant) and unp.value is True:
                continue
            need = set()
            for x in [site.reducer.func] + list(site.reducer.args) + [k.value for k in site.reducer.keywords]:
                for a in T.state_attrs(x):
                    if a != "inplace":
                        need.add(("state", a))
                for nme in ast.walk(x):
                    if isinstance(nme, ast.Name) and nme.id == "delayed":
                        need.add(("local", "delayed"))
                    if isinstance(nme, ast.Attribute) and dotted(nme) == "cell.connection.dt":
                        need.add(("expr", "cell.connection.dt"))
            have_state, have_txt = set(), set()
            for tv in site.tags.values():
                have_state |= T.state_attrs(tv)
                have_txt |= {dotted(x) for x in ast.walk(tv) if isinstance(x, (ast.Name, ast.Attribute)) and dotted(x)}
            missing = []
            for kind, a in sorted(need):
                if kind == "state":
                    if a in have_state or (determined.get(a) and determined[a] <= have_state):
                        continue
                    missing.append(f"state.{a}")
                elif a not in have_txt:
                    missing.append(a)
            ctx.ob("C15.f", f"{c.name} monitor '{name}': aliasing tags cover the reducer's configuration", not missing,
                   f"tags {sorted(site.tags)}" if not missing else
                   f"reducer depends on {missing} but no tag does: two cells that differ only there are given the same pooled monitor",
                   P.loc(rc, site.call), None)

    # ---------------- (g) by-name capture
    oam = obs.methods.get("add_monitor")
    if oam is None:
        raise AnalysisError("anchor vanished: Observable.add_monitor")
    ctx.touch(oam)
    g = CFG(oam.node)
    stores = [nd for nd in g.nodes if nd.kind == "stmt" and isinstance(nd.ast, ast.Assign) and isinstance(nd.ast.targets[0], ast.Subscript)
              and dotted(nd.ast.targets[0].value) == "self.__monitors"]
    ctx.require("C15.g", "stores to the by-name monitor map", len(stores), 1)
    unowned = []
    for s in stores:
        gtxt = [ast.unparse(t) for t, lab in g.guards_of(s)]
        if not any("self.__monitors" in t for t in gtxt):
            unowned.append(s)
    ctx.ob("C15.g", "Observable.add_monitor: by-name monitor map store", not unowned,
           "" if not unowned else f"{len(unowned)} store(s) `self.__monitors[name] = ...` overwrite an existing entry of the same name without an ownership "
           "test: a second trainer using the same monitor names redirects monitor-of-monitor paths (`monitors.<name>.latest`) of the first",
           oam.where)
    # dependents are appended, sources prepended (ordering within one step)
    for c in classes:
        sites = T.monitor_sites(P, c)
        rc = c.methods["register_cell"]
        mk = {}
        for st in walk_own(rc.node):
            if isinstance(st, ast.Assign) and isinstance(st.targets[0], ast.Name) and isinstance(st.value, ast.Dict):
                mk[st.targets[0].id] = {k.value: v for k, v in zip(st.value.keys, st.value.values) if isinstance(k, ast.Constant)}

        def prepend(site):
            val = None
            for k in site.ctor.keywords:
                if k.arg is None and isinstance(k.value, ast.Name) and k.value.id in mk and "prepend" in mk[k.value.id]:
                    val = mk[k.value.id]["prepend"]
            for k in site.ctor.keywords:
                if k.arg == "prepend":
                    val = k.value
            return val.value if isinstance(val, ast.Constant) else None
        for name, site in sites.items():
            if site.subattrs and site.ctor is not None:
                srcs = [s.split(".")[0] for s in site.subattrs]
                ok = prepend(site) is False and all(s in sites and prepend(sites[s]) is True for s in srcs)
                ctx.ob("C15.g", f"{c.name} monitor '{name}' runs after its sources {srcs}", ok,
                       "dependent appended, sources prepended" if ok else "hook order within a step is not sources-then-dependent", P.loc(rc, site.call), None)

    # ---------------- (i) attribute realignment: cell shortcut -> component path -> layer path
    cell = P.cls("Cell")
    lr = cell.methods.get("local_remap")
    if lr is None:
        raise AnalysisError("anchor vanished: Cell.local_remap")
    ctx.touch(lr)
    table = None
    for n in ast.walk(lr.node):
        if isinstance(n, ast.Dict) and len(n.keys) >= 4 and all(isinstance(k, ast.Constant) for k in n.keys) and all(isinstance(v, ast.List) for v in n.values):
            table = {k.value: [e.value for e in v.elts if isinstance(e, ast.Constant)] for k, v in zip(n.keys, n.values)}
    ctx.ob("C15.i", "Cell.local_remap has a shortcut table", table is not None, "", lr.where)
    if table:
        for short, path in sorted(table.items()):
            g = cell.props.get(short, {}).get("get")
            if g is None:
                ctx.ob("C15.i", f"Cell shortcut '{short}' has a matching property", False, "shortcut without a property of the same name", lr.where)
                continue
            ret = [x for x in walk_own(g.node) if isinstance(x, ast.Return)]
            d = dotted(ret[0].value) if ret else None
            got = (d or "").replace("self.", "").replace("connection_", "connection").replace("neuron_", "neuron").split(".")
            ok = got == path
            ctx.ob("C15.i", f"Cell.local_remap['{short}'] names the attribute Cell.{short} returns", ok,
                   f"table {'.'.join(path)}, property returns {d}" + ("" if ok else " — a monitor registered on the shortcut observes a different quantity than the shortcut reports"),
                   lr.where)
        txt = ast.unparse(lr.node)
        ok = "{'connection_': 'connection', 'neuron_': 'neuron'}" in txt and "case 'connection':\n            return (('connection', '.'.join(attrchain[1:])), {})" in txt \
            and "case 'neuron':\n            return (('neuron', '.'.join(attrchain[1:])), {})" in txt and "return (('cell', '.'.join(attrchain)), {})" in txt
        ctx.ob("C15.i", "Cell.local_remap dispatches connection / neuron / cell targets with the remaining attribute chain", ok, "", lr.where)
    ra = P.cls("Layer").methods.get("_realign_attribute")
    if ra is None:
        raise AnalysisError("anchor vanished: Layer._realign_attribute")
    ctx.touch(ra)
    want = {"connection": "connections_.{connection}", "neuron": "neurons_.{neuron}", "cell": "cells_.{connection}.{neuron}"}
    for m in [n for n in walk_own(ra.node) if isinstance(n, ast.Match)]:
        for case in m.cases:
            if isinstance(case.pattern, ast.MatchValue) and isinstance(case.pattern.value, ast.Constant) and case.pattern.value.value in want:
                tgt = case.pattern.value.value
                fs = [x for b in case.body for x in ast.walk(b) if isinstance(x, ast.JoinedStr)]
                rets = [x for b in case.body for x in ast.walk(b) if isinstance(x, ast.Return) and isinstance(x.value, ast.JoinedStr)]
                pref = ""
                if rets:
                    for part in rets[0].value.values:
                        if isinstance(part, ast.Constant):
                            pref += part.value
                        elif isinstance(part, ast.FormattedValue) and isinstance(part.value, ast.Name):
                            pref += "{" + part.value.id + "}"
                        else:
                            break
                ok = pref.rstrip(".") == want[tgt]
                ctx.ob("C15.i", f"Layer._realign_attribute('{tgt}') = {want[tgt]}.<attr>", ok, f"builds {pref!r}", ra.where)
    init = P.cls("Layer").methods["__init__"]
    names = {n.targets[0].attr for n in walk_own(init.node) if isinstance(n, ast.Assign) and is_self_attr(n.targets[0]) and "ModuleDict" in ast.unparse(n.value)}
    ctx.ob("C15.i", "Layer registers connections_, neurons_, cells_ as module dictionaries (the realigned paths exist)", {"connections_", "neurons_", "cells_"} <= names, f"{sorted(names)}", init.where)

    # ---------------- (h) alias search guard
    ok_h, detail = False, "alias-search guard not found"
    for lp in [x for x in walk_own(oam.node) if isinstance(x, ast.For)]:
        if not (isinstance(lp.iter, ast.Name) and lp.iter.id == "pool"):
            continue
        var = lp.target.elts[0].id if isinstance(lp.target, ast.Tuple) else None
        atoms = {f"{var}.__basis()": "A", f"id({var}.__basis()) != id(self.__basis())": "B",
                 f"id(self.__basis()) != id({var}.__basis())": "B", f"{var}.__basis() is not self.__basis()": "B",
                 f"{var}.__basis() is None": "nA"}
        first_if = [st for st in lp.body if isinstance(st, ast.If)]
        if not first_if:
            continue
        try:
            names, tb = boolpath.table([first_if[0]], atoms, lambda st: isinstance(st, ast.Continue),
                                       constraint=lambda a: (a.get("A", True) or a.get("B", True)) and (("nA" not in a) or (a["nA"] != a.get("A", not a["nA"]))))
        except boolpath.Undecided as e:
            detail = f"guard atom `{e}` not recognised"
            continue
        bad = []
        for vals, got in tb.items():
            a = dict(zip(names, vals))
            alive = a.get("A", not a.get("nA", False))
            want = (not alive) or a.get("B", False)
            if got != want:
                bad.append(f"basis alive={alive}, different basis={a.get('B')}: skipped={got}, expected {want}")
        ok_h = not bad and "B" in names
        detail = "observables of a dead or different basis are skipped" if ok_h else "; ".join(bad) or "guard does not test for a different basis"
    ctx.ob("C15.h", "Observable.add_monitor: alias search skips dead / foreign observables", ok_h, detail, oam.where)
    # the aliasing tag '_attr' is the *realigned* path the monitor is constructed with
    from .. import terms as _terms, nf as _nf
    tagv, ctor_args = None, []
    for n in walk_own(oam.node):
        if isinstance(n, ast.Dict):
            for k, v in zip(n.keys, n.values):
                if isinstance(k, ast.Constant) and k.value == "_attr":
                    tagv = (n, v)
        if isinstance(n, ast.Call) and isinstance(n.func, ast.Name) and n.func.id == "constructor" and n.args:
            ctor_args.append((n, n.args[0]))
    okt = tagv is not None and bool(ctor_args)
    if okt:
        def val(node, expr):
            b = _terms.Builder(P, oam, {}, inline_depth=0)
            _terms.prime(b, oam.node, node)
            return b.t(expr)
        tv = val(tagv[0], tagv[1])
        okt = all(_nf.equal(tv, val(c, a)) for c, a in ctor_args) and "realign_attribute" in _nf.show(tv)
    ctx.ob("C15.h", "Observable.add_monitor: the '_attr' aliasing tag is the realigned (layer-level) path the monitor observes", okt,
           "" if okt else "the tag is not the realigned path: cells that differ only in the neuron group / connection they resolve to would share one monitor", oam.where)
    # alias identity = same name, same tags (incl. realigned attribute)
    ok = any(isinstance(x, ast.Compare) and "_tags" in ast.unparse(x.left) and isinstance(x.ops[0], ast.Eq) and ast.unparse(x.comparators[0]) == "tags"
             for x in walk_own(oam.node)) and any(isinstance(st, ast.Assign) and "'_attr': attr" in ast.unparse(st.value) for st in walk_own(oam.node))
    ctx.ob("C15.h", "alias identity = equal tags including the realigned attribute", ok, "", oam.where)
    # ---------------- (j) hook register / deregister typestate behind every monitor (shared with C16.a)
    ctx.import_clauses("C16", {"C16.a"}, "C15.j", minimum=4)
