"""C07 — spike traces and fold reducers (structure and one-step recurrences)."""
from __future__ import annotations

import ast

from ..model import walk_own, dotted, is_self_attr, strip_doc, AnalysisError, kwarg
from ..cfg import CFG
from .. import grules as G, specs, nf, terms, boolpath

EXPLANATION = (
    "Decides: (a) the five trace kernels, their exponential wrappers and exponential_smoothing equal their documented "
    "one-step recurrences, and each kernel's first-observation branch equals its general branch with trace := 0 "
    "(initial-condition consistency); the reducers' fold methods pass decay / amplitude / target / scale / criterion from "
    "the like-named attributes; EventReducer and CAReducer folds equal their formulas; (b) decay derived from dt is "
    "recomputed with the same term in every dt setter (7 trace-type reducers); (c) the fold/push typestate of "
    "FoldReducer.forward (first observation: fold(.., None) -> initialise iff storage ignored -> push -> _initial := False; "
    "afterwards push(fold(.., peek()))), peek/view/dump answer None exactly while _initial, clear sets _initial := True on "
    "both branches and resets or deinitialises; (d) the interpolation rule of each reducer class (analytic decay with the "
    "reducer's own time constant for traces, prev + elapsed for events, previous for pass-through, linear for averages); "
    "(e) dump = align(0) then flip(0), view = select(time, self.interpolate, tolerance); (f) reducer setters store the field "
    "their getter reads. Not decided: closed forms over whole event histories."
)
TECHNIQUE = "static analysis: normal-form comparison with documented recurrences (incl. initial-branch consistency), derived-state rule, CFG typestate, interpolation table, getter/setter agreement"
LEVEL_TEXT = "All-paths static decision of the one-step recurrences, reducer wiring and the fold/push typestate; closed forms over histories are not decided."
LEVEL_NOTE = "Trusts RecordTensor (C01/C02), torch semantics, the engine."
DESIGN_REF = "DESIGN.md §5 C07"

KERNELS = {
    "trace_nearest": ("""
def spec(observation, trace, decay, amplitude, target, tolerance):
    M = (observation == target) if tolerance is None else (torch.abs(observation - target) <= tolerance)
    return amplitude * M if trace is None else torch.where(M, amplitude, decay * trace)
""", {"trace": "0"}),
    "trace_cumulative": ("""
def spec(observation, trace, decay, amplitude, target, tolerance):
    M = (observation == target) if tolerance is None else (torch.abs(observation - target) <= tolerance)
    return amplitude * M if trace is None else decay * trace + amplitude * M
""", {"trace": "0"}),
    "trace_nearest_scaled": ("""
def spec(observation, trace, decay, amplitude, scale, matchfn):
    J = matchfn(observation)
    return (scale * observation + amplitude) * J if trace is None else torch.where(J, scale * observation + amplitude, decay * trace)
""", {"trace": "0"}),
    "trace_cumulative_scaled": ("""
def spec(observation, trace, decay, amplitude, scale, matchfn):
    J = matchfn(observation)
    return (scale * observation + amplitude) * J if trace is None else decay * trace + (scale * observation + amplitude) * J
""", {"trace": "0"}),
    "trace_cumulative_value": ("""
def spec(observation, trace, decay, scale):
    return scale * observation if trace is None else decay * trace + scale * observation
""", {"trace": "0"}),
}
WRAPPERS = {
    "exp_trace_nearest": ("trace_nearest", "math.exp(-step_time / time_constant)"),
    "exprate_trace_nearest": ("trace_nearest", "math.exp(-rate_constant * step_time)"),
    "exp_trace_cumulative": ("trace_cumulative", "math.exp(-step_time / time_constant)"),
    "exprate_trace_cumulative": ("trace_cumulative", "math.exp(-rate_constant * step_time)"),
}
FOLD_WIRING = {  # class -> (kernel, {kw: attribute})
    "NearestTraceReducer": ("trace_nearest", {"decay": "decay", "amplitude": "amplitude", "target": "target", "tolerance": "tolerance"}),
    "CumulativeTraceReducer": ("trace_cumulative", {"decay": "decay", "amplitude": "amplitude", "target": "target", "tolerance": "tolerance"}),
    "ScaledNearestTraceReducer": ("trace_nearest_scaled", {"decay": "decay", "amplitude": "amplitude", "scale": "scale", "matchfn": "criterion"}),
    "ScaledCumulativeTraceReducer": ("trace_cumulative_scaled", {"decay": "decay", "amplitude": "amplitude", "scale": "scale", "matchfn": "criterion"}),
    "ConditionalNearestTraceReducer": ("trace_nearest_scaled", {"decay": "decay", "amplitude": "amplitude", "scale": "scale"}),
    "ConditionalCumulativeTraceReducer": ("trace_cumulative_scaled", {"decay": "decay", "amplitude": "amplitude", "scale": "scale"}),
    "EligibilityTraceReducer": ("trace_cumulative_value", {"decay": "decay", "scale": "scale"}),
}
INTERP = {
    "NearestTraceReducer": ("interp_expdecay", "time_constant"), "CumulativeTraceReducer": ("interp_expdecay", "time_constant"),
    "ScaledNearestTraceReducer": ("interp_expdecay", "time_constant"), "ScaledCumulativeTraceReducer": ("interp_expdecay", "time_constant"),
    "ConditionalNearestTraceReducer": ("interp_expdecay", "time_constant"), "ConditionalCumulativeTraceReducer": ("interp_expdecay", "time_constant"),
    "EligibilityTraceReducer": ("interp_expdecay", "time_constant"),
    "PassthroughReducer": ("interp_previous", None), "EMAReducer": ("interp_linear", None), "CAReducer": ("interp_linear", None),
}


def check(ctx):
    P = ctx.prog
    # ---------------- (a) kernels
    for name, (spec, init_env) in KERNELS.items():
        f = P.fn(name, module="core.trace")
        specs.compare(ctx, "C07.a", f"{name} = documented one-step recurrence", f, spec, source="core/trace.py docstring")
        # initial branch == general branch at trace := 0
        none_t, _ = terms.function_term(P, f, {"trace": nf.app("const", "None")})
        zero_t, _ = terms.function_term(P, f, {"trace": nf.C(0)})
        # with trace bound to the constant 0, `trace is None` is decided False by construction
        ok = none_t is not None and zero_t is not None and nf.equal(none_t, zero_t)
        ctx.ob("C07.a", f"{name}: first-observation branch = general branch with trace := 0", ok,
               "the trace starts from rest" if ok else f"first observation gives {nf.show(none_t)[:150]}, general branch at 0 gives {nf.show(zero_t)[:150]}", f.where)
    for name, (inner, decay) in WRAPPERS.items():
        f = P.fn(name, module="core.trace")
        ctx.touch(f)
        calls = [c for c in P.calls_in(f) if dotted(c.func) == inner]
        ok = False
        if len(calls) == 1:
            d = kwarg(calls[0], "decay")
            b = terms.Builder(P, f, {})
            ok = d is not None and nf.equal(b.t(d), specs.spec_term(decay))
            others = all(isinstance(k.value, ast.Name) and k.value.id == k.arg for k in calls[0].keywords if k.arg != "decay")
            pos = [a.id for a in calls[0].args if isinstance(a, ast.Name)] == ["observation", "trace"]
            ok = ok and others and pos
        ctx.ob("C07.a", f"{name} = {inner} with decay = {decay}", ok, "", f.where)
    specs.compare(ctx, "C07.a", "exponential_smoothing = alpha*obs + (1 - alpha)*level (level None: obs)", P.fn("exponential_smoothing", module="core.math"),
                  "obs if level is None else alpha * obs + (1 - alpha) * level", source="core/math.py docstring")
    # fold wiring
    for cname, (kernel, wiring) in FOLD_WIRING.items():
        c = P.cls(cname)
        f = c.methods.get("fold")
        if f is None:
            raise AnalysisError(f"anchor vanished: {cname}.fold")
        ctx.touch(f)
        calls = [x for x in P.calls_in(f) if dotted(x.func) == kernel]
        ok = len(calls) == 1
        bad = []
        if ok:
            for k, attr in wiring.items():
                v = kwarg(calls[0], k)
                if v is None or dotted(v) != f"self.{attr}":
                    bad.append(f"{k}={ast.unparse(v) if v is not None else 'missing'} (expected self.{attr})")
            # the previous state is the kernel's trace argument
            st = calls[0].args[1] if len(calls[0].args) > 1 else kwarg(calls[0], "trace")
            if not (isinstance(st, ast.Name) and st.id == f.params()[-1]):
                bad.append("previous state is not passed as the trace")
        ctx.ob("C07.a", f"{cname}.fold -> {kernel} with its own decay/amplitude/...", ok and not bad, "; ".join(bad), f.where)
    er = P.cls("EventReducer")
    specs.compare(ctx, "C07.a", "EventReducer.fold: 0 on event else previous + dt (initial value before the first event)", er.methods["fold"],
                  "torch.where(self.criterion(obs), 0, self.__initial_value) if state is None else torch.where(self.criterion(obs), 0, state + self.dt)",
                  source="observe/reducers/general.py docstring", inline_depth=0)
    pr = P.cls("PassthroughReducer")
    specs.compare(ctx, "C07.a", "PassthroughReducer.fold reproduces the observation", pr.methods["fold"], "obs", source="docstring")
    ca = P.cls("CAReducer")
    f = ca.methods["fold"]
    ctx.touch(f)
    b = terms.Builder(P, f, {}, inline_depth=0)
    r = b.run(strip_doc(f.node.body))
    want = specs.spec_term("obs if state is None else state + (obs - state) / (self._count + 1)")
    ctx.ob("C07.a", "CAReducer.fold = running mean: state + (obs - state)/count with the count incremented first", r is not None and nf.equal(r, want),
           f"computes {nf.show(r)[:200]}" if r is not None else "", f.where)
    ema = P.cls("EMAReducer")
    calls = [x for x in P.calls_in(ema.methods["fold"]) if dotted(x.func) == "exponential_smoothing"]
    ok = len(calls) == 1 and [getattr(a, "id", None) for a in calls[0].args] == ["obs", "state"] and dotted(kwarg(calls[0], "alpha")) == "self.alpha"
    ctx.ob("C07.a", "EMAReducer.fold = exponential_smoothing(obs, state, alpha=self.alpha)", ok, "", ema.methods["fold"].where)

    # ---------------- (b) derived decay
    reducers = [c for c in P.all_classes if c.is_subclass_of("Reducer")]
    n8 = G.g8_derived_state(ctx, reducers, rule="C07.b/G8")
    ctx.require("C07.b", "derived-state instances in reducers", n8, 7)

    # ---------------- (c) typestate of FoldReducer
    fr = P.cls("FoldReducer")
    fw = fr.methods.get("forward")
    if fw is None:
        raise AnalysisError("anchor vanished: FoldReducer.forward")
    ctx.touch(fw)
    body = strip_doc(fw.node.body)
    top = [s for s in body if isinstance(s, ast.If)]
    ok_init = ok_next = False
    if top:
        t = top[0]
        neg = isinstance(t.test, ast.UnaryOp) and isinstance(t.test.op, ast.Not) and dotted(t.test.operand) == "self._initial"
        first, later = (t.orelse, t.body) if neg else (t.body, t.orelse)
        if (neg or dotted(t.test) == "self._initial"):
            g = CFG(first)
            fold = g.stmt_nodes_calling(lambda c: dotted(c.func) == "self.fold" and c.args and isinstance(c.args[-1], ast.Constant) and c.args[-1].value is None)
            init = g.stmt_nodes_calling(lambda c: dotted(c.func) == "self.data_.initialize")
            push = g.stmt_nodes_calling(lambda c: dotted(c.func) == "self.push")
            flag = [n for n in g.nodes if n.kind == "stmt" and isinstance(n.ast, ast.Assign) and is_self_attr(n.ast.targets[0], "_initial")
                    and isinstance(n.ast.value, ast.Constant) and n.ast.value.value is False]
            gi = [ast.unparse(x) + ":" + lab for i in init for x, lab in g.guards_of(i)]
            ok_init = bool(fold) and bool(init) and bool(push) and bool(flag) and g.always_before(fold, push) and g.must_pass(push) and g.must_pass(flag) \
                and "self.data_.ignored:T" in gi and all(g.can_follow(i, p) for i in init for p in push) and g.always_before(push, flag)
            calls = [c for s in later for c in ast.walk(s) if isinstance(c, ast.Call) and dotted(c.func) == "self.push"]
            ok_next = len(calls) == 1 and calls[0].args and isinstance(calls[0].args[0], ast.Call) and dotted(calls[0].args[0].func) == "self.fold" \
                and isinstance(calls[0].args[0].args[-1], ast.Call) and dotted(calls[0].args[0].args[-1].func) == "self.peek"
    ctx.ob("C07.c", "FoldReducer.forward, first observation: fold(.., None) -> initialise iff ignored -> push -> _initial := False", ok_init, "", fw.where)
    ctx.ob("C07.c", "FoldReducer.forward, later observations: push(fold(.., peek()))", ok_next, "", fw.where)
    for m in ("peek", "view", "dump"):
        f = fr.methods.get(m)
        if f is None:
            raise AnalysisError(f"anchor vanished: FoldReducer.{m}")
        ctx.touch(f)
        atoms = {"self._initial": "I"}
        try:
            names, tb = boolpath.table(strip_doc(f.node.body), atoms, lambda st: isinstance(st, ast.Return) and st.value is not None)
            ok = tb == {(False,): True, (True,): False}
        except boolpath.Undecided:
            ok = False
        ctx.ob("C07.c", f"FoldReducer.{m} answers None exactly while no observation was folded", ok, "", f.where)
    clr = fr.methods.get("clear")
    g = CFG(clr.node)
    flag = [n for n in g.nodes if n.kind == "stmt" and isinstance(n.ast, ast.Assign) and is_self_attr(n.ast.targets[0], "_initial")
            and isinstance(n.ast.value, ast.Constant) and n.ast.value.value is True]
    rs = g.stmt_nodes_calling(lambda c: dotted(c.func) in ("self.data_.reset", "self.data_.deinitialize"))
    ok = bool(flag) and g.must_pass(flag) and g.must_pass(rs)
    ctx.ob("C07.c", "FoldReducer.clear: storage reset or deinitialised and _initial := True on every path", ok, "", clr.where)
    gk = [ast.unparse(t) + ":" + lab for r in rs for t, lab in g.guards_of(r) if any(isinstance(c, ast.Call) and dotted(c.func) == "self.data_.reset" for c in ast.walk(r.ast))]
    ctx.ob("C07.c", "FoldReducer.clear(keepshape=True) keeps storage and refills it", "keepshape:T" in gk, f"{gk}", clr.where)
    # fill value: the reducer's own fill is what clear(keepshape=True) and the lazy initialisation write
    fi = fr.methods["__init__"]
    okf = any(isinstance(n, ast.Assign) and is_self_attr(n.targets[0], "__fill") and isinstance(n.value, ast.Name) and n.value.id == "fill" for n in walk_own(fi.node))
    rcalls = [c for c in P.calls_in(clr) if dotted(c.func) == "self.data_.reset"]
    okr = len(rcalls) == 1 and len(rcalls[0].args) == 1 and dotted(rcalls[0].args[0]) == "self.__fill"
    icalls = [c for c in P.calls_in(fw) if dotted(c.func) == "self.data_.initialize"]
    oki = len(icalls) == 1 and dotted(kwarg(icalls[0], "fill", 3)) == "self.__fill"
    ctx.ob("C07.c", "FoldReducer: clear(keepshape=True) and lazy initialisation refill storage with the reducer's own fill value", okf and okr and oki,
           "" if okf and okr and oki else "history slots are refilled with a value other than the reducer's fill: after clear() a view further back than the new observations "
           "does not show the pre-first-observation value", clr.where)
    ev = P.cls("EventReducer").methods["__init__"]
    ec = [c for c in P.calls_in(ev) if dotted(c.func) == "FoldReducer.__init__"]
    oke = len(ec) == 1 and len(ec[0].args) >= 6 and isinstance(ec[0].args[5], ast.Name) and ec[0].args[5].id == "initial"
    ctx.ob("C07.c", "EventReducer passes its initial value as the reducer's fill", oke, "", ev.where)
    push = fr.methods.get("push")
    calls = [c for c in P.calls_in(push) if dotted(c.func) == "self.data_.push"]
    ok = len(calls) == 1 and dotted(kwarg(calls[0], "inplace", 1)) == "self.inplace" and isinstance(calls[0].args[0], ast.Name) and calls[0].args[0].id == push.params()[0]
    ctx.ob("C07.c", "FoldReducer.push pushes into the record with self.inplace", ok, "", push.where)
    cac = ca.methods.get("clear")
    ok = any(isinstance(n, ast.Assign) and is_self_attr(n.targets[0], "_count") and isinstance(n.value, ast.Constant) and n.value.value == 0 for n in walk_own(cac.node)) \
        and any(dotted(c.func) == "FoldReducer.clear" for c in P.calls_in(cac))
    ctx.ob("C07.c", "CAReducer.clear resets its counter and delegates", ok, "", cac.where)
    # every piece of state a fold method accumulates in `self` (running counts ...) is reset by clear on *every* path
    # (clear(keepshape=True) included) and clear still reaches FoldReducer.clear on every path
    nstate = 0
    for c in sorted(P.all_classes, key=lambda c: c.name):
        if not c.is_subclass_of("FoldReducer") or c.name == "FoldReducer":
            continue
        fold = c.methods.get("fold")
        if fold is None:
            continue
        acc = sorted({t.attr for n in walk_own(fold.node) if isinstance(n, (ast.Assign, ast.AugAssign, ast.AnnAssign))
                      for t in (n.targets if isinstance(n, ast.Assign) else [n.target])
                      if isinstance(t, ast.Attribute) and isinstance(t.value, ast.Name) and t.value.id == "self"})
        for attr in acc:
            nstate += 1
            clr_ = c.find_method("clear") if hasattr(c, "find_method") else next((k.methods["clear"] for k in c.mro if "clear" in k.methods), None)
            own = clr_ is not None and clr_.cls is not None and clr_.cls.name != "FoldReducer"
            ok = False
            why = f"{c.name} inherits FoldReducer.clear, which does not know about self.{attr}"
            if own:
                g = CFG(clr_.node)
                stores = [n for n in g.nodes if n.kind == "stmt" and isinstance(n.ast, ast.Assign) and is_self_attr(n.ast.targets[0], attr)]
                deleg = g.stmt_nodes_calling(lambda call: dotted(call.func) in ("FoldReducer.clear", "super().clear") or
                                             (isinstance(call.func, ast.Attribute) and call.func.attr == "clear" and dotted(call.func.value) not in (None, "self")))
                ok = bool(stores) and g.must_pass(stores) and bool(deleg) and g.must_pass(deleg)
                why = "" if ok else f"a path through {c.name}.clear leaves self.{attr} as it was or skips the base clear: the next fold continues from stale state"
            ctx.ob("C07.c", f"{c.name}.clear resets the fold state self.{attr} on every path", ok, why, (clr_ or fold).where)
    ctx.require("C07.c", "fold-state attributes accumulated in self", nstate, 1)

    # ---------------- (d) interpolation table
    for cname, (fn, tcattr) in INTERP.items():
        c = P.cls(cname)
        f = c.methods.get("interpolate")
        if f is None:
            raise AnalysisError(f"anchor vanished: {cname}.interpolate")
        ctx.touch(f)
        calls = [x for x in P.calls_in(f) if dotted(x.func) == fn]
        ok = len(calls) == 1 and [getattr(a, "id", None) for a in calls[0].args[:4]] == ["prev_data", "next_data", "sample_at", "step_time"]
        if ok and tcattr:
            ok = dotted(kwarg(calls[0], "time_constant")) == f"self.{tcattr}"
        ctx.ob("C07.d", f"{cname}.interpolate = {fn}" + (f" with its own {tcattr}" if tcattr else ""), ok, "", f.where)
    specs.compare(ctx, "C07.d", "EventReducer.interpolate = previous + elapsed time", er.methods["interpolate"], "prev_data + sample_at", source="docstring")

    # ---------------- (e) dump / view
    d = fr.methods["dump"]
    g = CFG(d.node)
    al = g.stmt_nodes_calling(lambda c: dotted(c.func) == "self.data_.align" and ((not c.args) or (isinstance(c.args[0], ast.Constant) and c.args[0].value == 0)))
    rt = [n for n in g.nodes if n.kind == "stmt" and isinstance(n.ast, ast.Return) and n.ast.value is not None]
    ok = bool(al) and bool(rt) and g.always_before(al, rt) and all(ast.unparse(r.ast.value) == "self.data_.value.flip(0)" for r in rt)
    ctx.ob("C07.e", "FoldReducer.dump = align(0) then flip(0): newest first", ok, "", d.where)
    v = fr.methods["view"]
    calls = [c for c in P.calls_in(v) if dotted(c.func) == "self.data_.select"]
    ok = len(calls) == 1 and len(calls[0].args) >= 2 and isinstance(calls[0].args[0], ast.Name) and calls[0].args[0].id == v.params()[0] \
        and dotted(calls[0].args[1]) == "self.interpolate" and isinstance(kwarg(calls[0], "tolerance"), ast.Name) and kwarg(calls[0], "tolerance").id == "tolerance"
    ctx.ob("C07.e", "FoldReducer.view = select(time, self.interpolate, tolerance=tolerance)", ok, "", v.where)

    # ---------------- (f) reducer setters
    n = G.g7_getset(ctx, reducers, rule="C07.f/G7")
    ctx.require("C07.f", "reducer property setters", n, 10)
