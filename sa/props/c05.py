"""C05 — connections compute their documented linear map (structure)."""
from __future__ import annotations

import ast

from ..model import walk_own, dotted, is_self_attr, strip_doc, AnalysisError, kwarg
from .. import grules as G, specs, nf, terms, einops_alg

EXPLANATION = (
    "Decides for LinearDense, LinearDirect, LinearLateral and Conv2D: (a) every einops pattern is well formed and the "
    "producer/consumer patterns agree in rank and unit axes (selector -> delayed branch of forward; pre-/post-synaptic "
    "receptive views have equal rank = weight rank + batch + receptive axis); (b) the undelayed branches are "
    "F.linear(res, weight, bias), res*weight (+ bias) and matmul(flatten(weight, 'f (c h w)'), unfold(x)) folded to (f, oh, ow) "
    "(+ bias as '1 f 1 1'); the delayed branches contract the same input axis; the synapse is fed like_synaptic(input) and the "
    "result is viewed as (-1, *outshape); (c) every F.unfold / F.fold call of Conv2D passes the same (kernel, dilation, padding, "
    "stride) attributes and fold restores (height, width); the output size equals floor((size + 2p - d(k-1) - 1)/s + 1); "
    "(d) lateral mask ownership: mask = 1 - eye, the constructor's initial weight and delay carry the mask factor, the only "
    "stores to weight_ / delay_ in the whole package are the mixin setters, and LinearLateral's overriding setters pass "
    "value * self.mask. Not decided: numerical equality with a reference operator over the geometry grid."
)
TECHNIQUE = "static analysis: einops pattern algebra (well-formedness, producer/consumer rank agreement), structural term checks, writer/reader parameter-table agreement, who-may-write ownership over the whole package, normal-form comparison of the output-size formula"
LEVEL_TEXT = "All-sites static decision of pattern well-formedness, map structure, unfold/fold agreement, output-size formula and lateral-mask ownership."
LEVEL_NOTE = "Trusts einops / F.linear / F.unfold / F.fold semantics and the engine."
DESIGN_REF = "DESIGN.md §5 C05"

CONNS = ("LinearDense", "LinearDirect", "LinearLateral", "Conv2D")


def _pattern_of(call):
    for a in call.args:
        if isinstance(a, ast.Constant) and isinstance(a.value, str) and "->" in a.value:
            return a.value
    return None


def _ret_pattern(P, f):
    """Pattern of the rearrange a helper returns (following explicit delegation)."""
    for _ in range(3):
        rets = [s for s in walk_own(f.node) if isinstance(s, ast.Return) and s.value is not None]
        for r in rets:
            for c in ast.walk(r.value):
                if isinstance(c, ast.Call) and dotted(c.func) == "ein.rearrange":
                    return _pattern_of(c), f
        # delegation
        nxt = None
        for r in rets:
            for c in ast.walk(r.value):
                if isinstance(c, ast.Call):
                    rr = P.resolve_call(f, c)
                    if rr and rr[0].name == f.name and rr[0] is not f:
                        nxt = rr[0]
                    elif isinstance(c.func, ast.Attribute) and c.func.attr == "fget":
                        e = P.resolve_expr(f.module.name, c.func.value)
                        if e and e[0] == "prop":
                            nxt = e[1][0].find_prop(e[1][1], "get")
        if nxt is None:
            return None, f
        f = nxt
    return None, f


def _rank(side):
    return len(side.groups)


def _unit(g):
    return g == ["1"] or g == []


def check(ctx):
    P = ctx.prog
    classes = [P.cls(c) for c in CONNS]
    funcs = [f for c in classes for f in c.all_funcs()]
    # ---------------- (a) patterns
    n = G.g11_einops(ctx, funcs, rule="C05.a/G11")
    ctx.require("C05.a", "einops patterns in connection classes", n, 20)
    for c in classes:
        sel = c.find_prop("selector", "get")
        fw = c.find_method("forward")
        pre, post = c.find_method("presyn_receptive"), c.find_method("postsyn_receptive")
        if not all((sel, fw, pre, post)):
            raise AnalysisError(f"anchor vanished: {c.name} selector/forward/receptive helpers")
        ctx.touch(sel, fw, pre, post)
        sp, sf = _ret_pattern(P, sel)
        # consumer: first pattern applied to self.syncurrent in the (possibly delegated) forward
        f2 = fw
        for _ in range(2):
            d = [x for x in P.calls_in(f2) if isinstance(x.func, ast.Attribute) and x.func.attr == "forward" and P.resolve_call(f2, x) and P.resolve_call(f2, x)[0] is not f2]
            if d:
                f2 = P.resolve_call(f2, d[0])[0]
        cons = None
        g_syn = False
        for st in walk_own(f2.node):
            if isinstance(st, ast.If) and dotted(st.test) == "self.delayedby":
                for x in [y for b in st.body for y in ast.walk(b)]:
                    if isinstance(x, ast.Call) and dotted(x.func) in ("ein.rearrange", "ein.einsum") and cons is None:
                        pat = _pattern_of(x)
                        if pat:
                            p_ = einops_alg.Pattern(pat)
                            # the operand that is the delayed current: the one fed by self.syncurrent / `res` assigned from it
                            idx = 0
                            if dotted(x.func) == "ein.einsum":
                                ops = [a for a in x.args if not (isinstance(a, ast.Constant) and isinstance(a.value, str))]
                                idx = next((i for i, a in enumerate(ops) if isinstance(a, ast.Name) and a.id == "res"), 0)
                            cons = p_.inputs[idx]
                    if isinstance(x, ast.Attribute) and dotted(x) == "self.syncurrent":
                        g_syn = True
        ctx.ob("C05.a", f"{c.name}.forward: delayed branch reads self.syncurrent under `if self.delayedby`", g_syn, "", f2.where)
        ok = False
        detail = f"selector pattern {sp!r}, consumer {cons.text if cons else None!r}"
        if sp and cons is not None:
            out = einops_alg.Pattern(sp).output
            # `.expand(B, -1, L, -1)` on the rearranged delays: explicit sizes turn unit axes into real ones
            expanded = set()
            for r_ in [s_ for s_ in walk_own(sf.node) if isinstance(s_, ast.Return) and s_.value is not None]:
                v_ = r_.value
                if isinstance(v_, ast.Call) and isinstance(v_.func, ast.Attribute) and v_.func.attr == "expand":
                    for i_, a_ in enumerate(v_.args):
                        if not (isinstance(a_, ast.UnaryOp) and isinstance(a_.operand, ast.Constant) and a_.operand.value == 1):
                            expanded.add(i_)
            ok = _rank(out) == _rank(cons) and all((_unit(a) and i_ not in expanded) == _unit(b_)
                                                   for i_, (a, b_) in enumerate(zip(out.groups, cons.groups)) if i_ >= 1)
            ok = ok and 0 in expanded and _unit(out.groups[0])
            detail += f", expanded axes {sorted(expanded)}"
        ctx.ob("C05.a", f"{c.name}: selector layout matches the delayed branch's consumer pattern", ok, detail, sel.where)
        pp, pf = _ret_pattern(P, pre)
        qp, qf = _ret_pattern(P, post)
        # weight rank from the mixin constructor call
        init = c.methods.get("__init__")
        wr = None
        for call in P.calls_in(init):
            if dotted(call.func) == "WeightBiasDelayMixin.__init__":
                w = kwarg(call, "weight")
                for x in ast.walk(w):
                    if isinstance(x, ast.Call) and dotted(x.func) in ("torch.rand", "torch.zeros", "torch.ones", "torch.empty"):
                        wr = sum(2 if isinstance(a, ast.Starred) else 1 for a in x.args)
                        break
        ok = False
        if pp and qp and wr is not None:
            ro, qo = einops_alg.Pattern(pp).output, einops_alg.Pattern(qp).output
            ok = _rank(ro) == _rank(qo) == wr + 2
            detail = f"presyn {pp!r} (rank {_rank(ro)}), postsyn {qp!r} (rank {_rank(qo)}), weight rank {wr}"
        else:
            detail = f"presyn {pp!r}, postsyn {qp!r}, weight rank {wr}"
        ctx.ob("C05.a", f"{c.name}: receptive views broadcast against the weight (rank = weight rank + batch + receptive)", ok, detail, pre.where)

    # ---------------- (b) map structure
    dense = P.cls("LinearDense").methods["forward"]
    ctx.touch(dense)
    lin = [x for x in P.calls_in(dense) if dotted(x.func) == "F.linear"]
    ok = len(lin) == 1 and [ast.unparse(a) for a in lin[0].args] == ["res", "self.weight", "self.bias"]
    ctx.ob("C05.b", "LinearDense.forward (undelayed) = F.linear(current, weight, bias)", ok, "", dense.where)
    es = [x for x in P.calls_in(dense) if dotted(x.func) == "ein.einsum"]
    ok = bool(es)
    for x in es:
        p_ = einops_alg.Pattern(_pattern_of(x))
        ops = [ast.unparse(a) for a in x.args if not (isinstance(a, ast.Constant) and isinstance(a.value, str))]
        contracted = p_.lnames - p_.output.names
        ok = ok and ops == ["res", "self.weight"] and len(p_.inputs) == 2 and p_.inputs[0].axes[0] == p_.output.axes[0] \
            and contracted == (set(p_.inputs[0].axes) & set(p_.inputs[1].axes)) - set(p_.output.axes) and len(contracted) == 1 \
            and p_.inputs[1].axes == [p_.output.axes[1], next(iter(contracted))]
    ctx.ob("C05.b", "LinearDense.forward (delayed) contracts the input axis of the per-synapse currents with weight[o, i]", ok, "", dense.where)
    biased = [st for st in walk_own(dense.node) if isinstance(st, ast.If) and dotted(st.test) == "self.biased"]
    ok = bool(biased) and all(any(isinstance(x, ast.BinOp) and isinstance(x.op, ast.Add) and dotted(x.right) == "self.bias" for b in st.body for x in ast.walk(b))
                              and not any(dotted(x) == "self.bias" for b in st.orelse for x in ast.walk(b)) for st in biased)
    ctx.ob("C05.b", "LinearDense.forward (delayed): bias added iff biased", ok, "", dense.where)
    direct = P.cls("LinearDirect").methods["forward"]
    ctx.touch(direct)
    b = terms.Builder(P, direct, {}, inline_depth=0)
    r = b.run(strip_doc(direct.node.body))
    want = specs.spec_term("""
def spec(self, inputs, kwargs):
    res = self.synapse(*(self.like_synaptic(inp) for inp in inputs), **kwargs)
    if self.delayedby:
        res = ein.rearrange(self.syncurrent, 'b n 1 -> b n')
    return ((res * self.weight + self.bias) if self.biased else (res * self.weight)).view(-1, *self.outshape)
""")
    ctx.ob("C05.b", "LinearDirect.forward = current * weight (+ bias), viewed as (-1, *outshape)", r is not None and nf.equal(r, want),
           f"computes {nf.show(r)[:240]}" if r is not None else "", direct.where)
    lat = P.cls("LinearLateral").methods["forward"]
    calls = [x for x in P.calls_in(lat) if dotted(x.func) == "LinearDense.forward"]
    ok = len(calls) == 1 and ast.unparse(calls[0]) == "LinearDense.forward(self, *inputs, **kwargs)"
    ctx.ob("C05.b", "LinearLateral.forward delegates to the dense map (with the masked weight)", ok, "", lat.where)
    conv = P.cls("Conv2D")
    cf = conv.methods["forward"]
    ctx.touch(cf)
    kflat = [x for x in P.calls_in(cf) if dotted(x.func) == "ein.rearrange" and x.args and dotted(x.args[0]) == "self.weight"]
    ok = len(kflat) == 1 and _pattern_of(kflat[0]) == "f c h w -> f (c h w)"
    ctx.ob("C05.b", "Conv2D.forward flattens the kernel as 'f (c h w)' (the channel-major order F.unfold produces)", ok, "", cf.where)
    mm = [x for x in P.calls_in(cf) if dotted(x.func) == "torch.matmul"]
    ok = len(mm) == 1 and [ast.unparse(a) for a in mm[0].args] == ["kernel", "res"]
    ctx.ob("C05.b", "Conv2D.forward (undelayed) = matmul(flat kernel, unfolded current)", ok, "", cf.where)
    folds = [x for x in P.calls_in(cf) if dotted(x.func) == "ein.rearrange" and _pattern_of(x) == "b f (oh ow) -> b f oh ow"]
    ok = len(folds) == 2 and all(dotted(kwarg(x, "oh")) == "self.outheight" and dotted(kwarg(x, "ow")) == "self.outwidth" for x in folds)
    ctx.ob("C05.b", "Conv2D.forward folds positions to (oh, ow) = (outheight, outwidth) in both branches", ok, "", cf.where)
    eb = [x for x in P.calls_in(cf) if dotted(x.func) == "ein.einsum"]
    ok = len(eb) == 1 and _pattern_of(eb[0]) is not None
    if ok:
        p_ = einops_alg.Pattern(_pattern_of(eb[0]))
        ok = [ast.unparse(a) for a in eb[0].args[:2]] == ["kernel", "res"] and (p_.lnames - p_.output.names) == {"n"} and p_.output.axes == ["b", "f", "l"]
    ctx.ob("C05.b", "Conv2D.forward (delayed) contracts the unfolded input axis per filter", ok, "", cf.where)
    bias = [x for x in P.calls_in(cf) if dotted(x.func) == "ein.rearrange" and x.args and dotted(x.args[0]) == "self.bias"]
    ok = len(bias) == 1 and _pattern_of(bias[0]) == "f -> 1 f 1 1"
    ctx.ob("C05.b", "Conv2D.forward adds the bias per filter", ok, "", cf.where)
    for c in (P.cls("LinearDense"), P.cls("LinearDirect"), conv):
        f = c.methods["forward"]
        syn = [x for x in P.calls_in(f) if dotted(x.func) == "self.synapse"]
        ok = len(syn) == 1 and syn[0].args and isinstance(syn[0].args[0], ast.Starred) and "self.like_synaptic(inp)" in ast.unparse(syn[0].args[0])
        ctx.ob("C05.b", f"{c.name}.forward steps its synapse with like_synaptic(input)", ok, "", f.where)

    # ---------------- (c) unfold / fold agreement and output size
    uf = [(f, x) for f in conv.all_funcs() for x in P.calls_in(f) if dotted(x.func) in ("F.unfold", "F.fold")]
    ctx.require("C05.c", "F.unfold / F.fold calls in Conv2D", len(uf), 6)
    for f, x in uf:
        pos = 1 if dotted(x.func) == "F.unfold" else 2
        k = x.args[pos] if len(x.args) > pos else kwarg(x, "kernel_size")
        pars = {"kernel": dotted(k) if k is not None else None}
        for name in ("dilation", "padding", "stride"):
            v = kwarg(x, name)
            pars[name] = dotted(v) if v is not None else None
        ok = pars == {"kernel": "self.kernel", "dilation": "self.dilation", "padding": "self.padding", "stride": "self.stride"}
        if dotted(x.func) == "F.fold":
            ok = ok and len(x.args) > 1 and ast.unparse(x.args[1]) == "(self.height, self.width)"
        ctx.ob("C05.c", f"{f.short}: {dotted(x.func)} uses the connection's (kernel, dilation, padding, stride)", ok, f"{pars}", P.loc(f, x), x)
    init = conv.methods["__init__"]
    ctx.touch(init)
    ok = False
    got = None
    for st in walk_own(init.node):
        if isinstance(st, ast.Assign) and isinstance(st.targets[0], ast.Tuple) and [dotted(t) for t in st.targets[0].elts] == ["self.outheight", "self.outwidth"] \
                and isinstance(st.value, ast.GeneratorExp):
            gen = st.value
            it = gen.generators[0]
            sizes = it.iter.args[0] if isinstance(it.iter, ast.Call) and dotted(it.iter.func) == "enumerate" else None
            ok_iter = sizes is not None and ast.unparse(sizes) == "(self.height, self.width)" and isinstance(it.target, ast.Tuple) and [t.id for t in it.target.elts] == ["d", "size"]
            b = terms.Builder(P, init, {"size": nf.sym("size")}, inline_depth=0)
            txt = ast.unparse(gen.elt)
            for a in ("padding", "dilation", "kernel", "stride"):
                txt = txt.replace(f"self.{a}[d]", a)
            got = terms.Builder(None, None, {}).t(ast.parse(txt, mode="eval").body)
            want = specs.spec_term("math.floor((size + 2 * padding - dilation * (kernel - 1) - 1) / stride + 1)")
            ok = ok_iter and nf.equal(got, want)
    ctx.ob("C05.c", "Conv2D output size = floor((size + 2p - d(k-1) - 1)/s + 1) per spatial dim", ok, f"computes {nf.show(got)}" if got is not None else "formula not found", init.where)
    syn = [x for x in P.calls_in(init) if dotted(x.func) == "synapse"]
    ok = len(syn) == 1 and bool(syn[0].args) and nf.equal(terms.Builder(P, init, {}, inline_depth=0).t(syn[0].args[0]),
                                                           specs.spec_term("(self.channels * math.prod(self.kernel), self.outheight * self.outwidth)"))
    ctx.ob("C05.c", "Conv2D synapse shape = (C*kh*kw, oh*ow)", ok, "", init.where)
    o = conv.props["outshape"]["get"]
    ok = ast.unparse([s for s in walk_own(o.node) if isinstance(s, ast.Return)][0].value) == "(self.filters, self.outheight, self.outwidth)"
    ctx.ob("C05.c", "Conv2D.outshape = (filters, outheight, outwidth)", ok, "", o.where)

    # ---------------- (d) lateral mask ownership
    lc = P.cls("LinearLateral")
    li = lc.methods["__init__"]
    ctx.touch(li)
    mask = [x for x in P.calls_in(li) if dotted(x.func) == "self.register_buffer" and x.args and isinstance(x.args[0], ast.Constant) and x.args[0].value == "mask"]
    ok = len(mask) == 1 and ast.unparse(mask[0].args[1]) == "1 - torch.eye(size)"
    ctx.ob("C05.d", "LinearLateral.mask = 1 - eye(size)", ok, "", li.where)
    wb = [x for x in P.calls_in(li) if dotted(x.func) == "WeightBiasDelayMixin.__init__"]
    ok = len(wb) == 1
    if ok:
        for k in ("weight", "delay"):
            v = kwarg(wb[0], k)
            carries = any(isinstance(x, ast.BinOp) and isinstance(x.op, ast.Mult) and "self.mask" in (dotted(x.left), dotted(x.right)) for x in ast.walk(v))
            ok = ok and carries
    ctx.ob("C05.d", "LinearLateral.__init__: initial weight and delay carry the mask factor", ok, "", li.where)
    for p in ("weight", "delay"):
        s = lc.props.get(p, {}).get("set")
        if s is None:
            ctx.ob("C05.d", f"LinearLateral overrides the {p} setter", False, "no overriding setter: assignments bypass the mask", lc.module.rel)
            continue
        calls = [x for x in P.calls_in(s) if dotted(x.func) == f"WeightBiasDelayMixin.{p}.fset"]
        arg = calls[0].args[1] if len(calls) == 1 and len(calls[0].args) == 2 else None
        ok = arg is not None and isinstance(arg, ast.BinOp) and isinstance(arg.op, ast.Mult) and \
            {ast.unparse(arg.left), ast.unparse(arg.right)} == {s.params()[0], "self.mask"}
        stores = [n_ for n_ in walk_own(s.node) if isinstance(n_, ast.Attribute) and isinstance(n_.ctx, ast.Store)]
        ctx.ob("C05.d", f"LinearLateral.{p}.setter stores value * self.mask through the mixin setter only", ok and not stores,
               "" if ok and not stores else "the assigned value reaches the parameter without the off-diagonal mask", s.where)
        ctx.touch(s)
    # who may write weight_ / delay_ / bias_
    writers = []
    for f in P.funcs:
        for n_ in walk_own(f.node):
            if isinstance(n_, ast.Attribute) and isinstance(n_.ctx, ast.Store):
                base = n_.value if n_.attr == "data" else n_
                if isinstance(base, ast.Attribute) and base.attr in ("weight_", "delay_", "bias_"):
                    writers.append((f, base.attr, n_))
            if isinstance(n_, ast.Call) and isinstance(n_.func, ast.Attribute) and n_.func.attr.endswith("_") and not n_.func.attr.endswith("__") \
                    and isinstance(n_.func.value, ast.Attribute) and n_.func.value.attr in ("weight_", "delay_", "bias_", "weight", "delay") \
                    and n_.func.attr not in ("register_", ):
                writers.append((f, n_.func.value.attr + "." + n_.func.attr, n_))
    ctx.require("C05.d", "stores to weight_/delay_/bias_", len(writers), 3)
    for f, what, node in writers:
        ok = f.kind == "setter" and f.cls is not None and f.cls.name in ("WeightMixin", "WeightBiasMixin", "WeightBiasDelayMixin") and f"{f.prop}_" == what
        ctx.ob("C05.d", f"{f.short} writes {what}", ok,
               "the mixin setter (reached through the overriding masked setter on LinearLateral)" if ok else
               f"`{ast.unparse(node)[:60]}` writes a connection parameter outside the mixin setters: a lateral connection's mask is bypassed", P.loc(f, node), node)
    # any `.data` store / in-place tensor method outside the storage classes must be one of the mixin setters: a write that
    # goes around the property (e.g. `getattr(module, p).data = ...` in the updater) bypasses the lateral mask
    datas = []
    for f in P.funcs:
        if f.module.name.endswith("core.infrastructure") or ".learn.classifiers" in f.module.name:
            continue
        for n_ in walk_own(f.node):
            if isinstance(n_, ast.Attribute) and n_.attr == "data" and isinstance(n_.ctx, ast.Store):
                datas.append((f, n_))
    for f, node in datas:
        ok = f.kind == "setter" and f.cls is not None and f.cls.name in ("WeightMixin", "WeightBiasMixin", "WeightBiasDelayMixin")
        ctx.ob("C05.d", f"{f.short}: `.data` store `{ast.unparse(node)}`", ok,
               "mixin setter" if ok else f"`{ast.unparse(node)} = ...` writes a parameter's data outside the connection's property setters: "
               f"an assignment through this path is not masked on a lateral connection", P.loc(f, node), node)
    ctx.assume("F.linear, F.unfold, F.fold, torch.matmul and einops implement their documented semantics")
    # ---------------- (e) the advertised shapes and synapse wiring every connection inherits (tables shared with C06)
    ctx.import_clauses("C06", {"C06.t"}, "C05.e", pick=lambda s: s.startswith("Connection."), minimum=10)
