"""C13 — resizing a record keeps the newest observations in order and the size formula."""
from __future__ import annotations

import ast

from ..model import walk_own, dotted, is_self_attr, strip_doc, AnalysisError
from ..cfg import CFG
from .. import specs, nf, terms

EXPLANATION = (
    "Decides on every path of the resizing code: (a) the constructor and the dt / duration setters all compute "
    "max(ceil(duration/dt) + inclusive, 1), reading the freshly stored value, and the inclusive setter re-enters the duration "
    "setter; (b) each temporal setter stores, recomputes and - iff the size differs - aligns to slot 0 before reconstraining "
    "dim 0; RecordTensor.reconstrain shifts non-negative dims by one and aligns first; (c) every call of align() on a resize "
    "path is guarded by 'storage not ignored' (align refuses uninitialised storage); (d) __make_compatible keeps the tail "
    "slice [old - size:] when shrinking, prepends size - old zeros when growing, and returns the tensor itself otherwise; "
    "(e) in ShapedTensor.reconstrain no constraint or data store precedes a refusing raise on the add and edit paths, the "
    "added constraint is stored only under the compatibility test of constraints | {dim: size}, the remove path stores no "
    "data, and `valid` is owner-alive and ignore-or-compatible over all constraints. Not decided: preservation of contents "
    "from every ring state (run-time values)."
)
TECHNIQUE = "static analysis: normal-form comparison of the size formula at 3 sites, CFG ordering and guard rules, refuse-before-mutate reachability, symbolic tail/zero-prepend tiling"
LEVEL_TEXT = "All-paths static decision of the size formula, setter ordering, guarded align, tail-preserving resize and refuse-before-mutate; content preservation from arbitrary ring states is not decided."
LEVEL_NOTE = "Trusts torch slicing/cat semantics and the engine."
DESIGN_REF = "DESIGN.md §5 C13"

SIZE_SPEC = "max(math.ceil(D / T) + I, 1)"


def recompute_on_every_path(ctx, rule):
    """dt / duration setters store and recompute the record size on *every* normal path: `inclusive` re-assigns an unchanged
    duration to trigger the resize, so a skip-if-unchanged shortcut would leave the record one slot off."""
    P = ctx.prog
    rt = P.cls("RecordTensor")
    for pname in ("dt", "duration"):
        s = rt.props.get(pname, {}).get("set")
        if s is None:
            raise AnalysisError(f"anchor vanished: RecordTensor.{pname}.setter")
        g = CFG(s.node)
        sizes = [n for n in g.nodes if n.kind == "stmt" and isinstance(n.ast, ast.Assign) and isinstance(n.ast.targets[0], ast.Name) and n.ast.targets[0].id == "size"]
        tests = [n for n in g.nodes if n.kind == "test" and "size" in ast.unparse(n.ast) and "recordsz" in ast.unparse(n.ast)]
        ok = bool(sizes) and g.must_pass(sizes) and bool(tests) and g.must_pass(tests)
        ctx.ob(rule, f"RecordTensor.{pname}.setter recomputes and compares the size on every path", ok,
               "" if ok else "a path returns before the size is recomputed: RecordTensor.inclusive re-enters this setter with an unchanged value to resize the record",
               s.where)


def check(ctx):
    P = ctx.prog
    rt, st = P.cls("RecordTensor"), P.cls("ShapedTensor")
    want = specs.spec_term(SIZE_SPEC)

    # ---------------- (a) size formula
    init = rt.methods.get("__init__")
    if init is None:
        raise AnalysisError("anchor vanished: RecordTensor.__init__")
    ctx.touch(init)
    nsites = 0
    for n in strip_doc(init.node.body):
        if isinstance(n, ast.Assign) and isinstance(n.targets[0], ast.Name) and n.targets[0].id == "size":
            b = terms.Builder(P, init, {"duration": nf.sym("D"), "step_time": nf.sym("T"), "inclusive": nf.sym("I")}, inline_depth=0)
            terms.prime(b, init.node, n, skip=("duration", "step_time", "inclusive", "size"))
            got = b.t(n.value)
            nsites += 1
            ok = nf.equal(got, want)
            ctx.ob("C13.a", "RecordTensor.__init__: size = max(ceil(duration/dt) + inclusive, 1)", ok, f"computes {nf.show(got)}", P.loc(init, n), n)
    for pname in ("dt", "duration"):
        s = rt.props.get(pname, {}).get("set")
        if s is None:
            raise AnalysisError(f"anchor vanished: RecordTensor.{pname}.setter")
        ctx.touch(s)
        g = CFG(s.node)
        store = g.stmt_nodes_calling(lambda c: dotted(c.func) == "setattr" and len(c.args) == 3 and ast.unparse(c.args[1]) == f"self.__attributes.{pname}"
                                     and isinstance(c.args[2], ast.Name) and c.args[2].id == s.params()[0])
        sizes = [n for n in g.nodes if n.kind == "stmt" and isinstance(n.ast, ast.Assign) and isinstance(n.ast.targets[0], ast.Name) and n.ast.targets[0].id == "size"]
        ok_store = bool(store) and bool(sizes) and g.always_before(store, sizes)
        ctx.ob("C13.b", f"RecordTensor.{pname}.setter stores the new value before recomputing the size", ok_store, "", s.where)
        for z in sizes:
            b = terms.Builder(P, s, {}, inline_depth=0)
            b.env.update({"self.__duration": nf.sym("D"), "self.__dt": nf.sym("T"), "self.__inclusive": nf.sym("I")})
            terms.prime(b, s.node, z.ast, skip=("value", "size"))
            got = b.t(z.ast.value)
            nsites += 1
            ok = nf.equal(got, want)
            ctx.ob("C13.a", f"RecordTensor.{pname}.setter: size = max(ceil(duration/dt) + inclusive, 1)", ok, f"computes {nf.show(got)}", P.loc(s, z.ast), z.ast)
        # (b) order: size != recordsz => align(0) then ShapedTensor.reconstrain(self, 0, size)
        al = g.stmt_nodes_calling(lambda c: dotted(c.func) == "self.align")
        rc = g.stmt_nodes_calling(lambda c: dotted(c.func) == "ShapedTensor.reconstrain")
        okc = False
        for r in rc:
            c = [c for c in ast.walk(r.ast) if isinstance(c, ast.Call) and dotted(c.func) == "ShapedTensor.reconstrain"][0]
            okc = len(c.args) == 3 and isinstance(c.args[1], ast.Constant) and c.args[1].value == 0 and isinstance(c.args[2], ast.Name) and c.args[2].id == "size"
        guards_rc = [ast.unparse(t) + ":" + lab for r in rc for t, lab in g.guards_of(r)]
        ok = bool(rc) and okc and "size != self.__recordsz:T" in guards_rc and bool(al) and not any(g.can_follow(r, a) for r in rc for a in al)
        ctx.ob("C13.b", f"RecordTensor.{pname}.setter: iff the size differs, align(0) precedes reconstrain(0, size)", ok, f"guards {guards_rc}", s.where)
        ok = all((not c.args and not c.keywords) or (c.args and isinstance(c.args[0], ast.Constant) and c.args[0].value == 0)
                 for a in al for c in ast.walk(a.ast) if isinstance(c, ast.Call) and dotted(c.func) == "self.align")
        ctx.ob("C13.b", f"RecordTensor.{pname}.setter aligns the write position to slot 0", ok, "after align(0) the newest observation is the last slot, so the kept tail is the newest data", s.where)
        # (c) guarded align
        for a in al:
            gs = [ast.unparse(t) + ":" + lab for t, lab in g.guards_of(a)]
            allowed = ("self._ignore(self.__data):F", "not self._ignore(self.__data):T", "self.ignored:F", "not self.ignored:T", "size != self.__recordsz:T")
            extra = [x for x in gs if x not in allowed]
            ctx.ob("C13.b", f"RecordTensor.{pname}.setter: whenever the size changes and storage exists, the ring is aligned before it is resized", not extra,
                   "" if not extra else f"align(0) is additionally conditioned on {extra}: on the other resizes (e.g. growing) the zero slots are inserted into a rotated ring "
                   f"and the history moves away from its steps-before-present positions", P.loc(s, a.ast), None)
            ok = any(x in ("self._ignore(self.__data):F", "not self._ignore(self.__data):T", "self.ignored:F", "not self.ignored:T") for x in gs)
            ctx.ob("C13.c/G12", f"RecordTensor.{pname}.setter: align() only on initialised storage", ok,
                   "guarded like RecordTensor.reconstrain" if ok else
                   "align() raises 'cannot align uninitialized storage', and this resize path calls it unguarded (RecordTensor.reconstrain guards the same call): "
                   "changing dt/duration/inclusive of a record that has no storage yet fails", P.loc(s, a.ast), None)
    ctx.require("C13.a", "record-size formula sites", nsites, 3)
    recompute_on_every_path(ctx, "C13.b")
    inc = rt.props.get("inclusive", {}).get("set")
    if inc is None:
        raise AnalysisError("anchor vanished: RecordTensor.inclusive.setter")
    ctx.touch(inc)
    g = CFG(inc.node)
    st_ = g.stmt_nodes_calling(lambda c: dotted(c.func) == "setattr" and len(c.args) == 3 and ast.unparse(c.args[1]) == "self.__attributes.inclusive")
    re_ = [n for n in g.nodes if n.kind == "stmt" and isinstance(n.ast, ast.Assign) and is_self_attr(n.ast.targets[0], "duration")]
    ok = bool(st_) and bool(re_) and g.always_before(st_, re_) and g.must_pass(re_)
    ctx.ob("C13.a", "RecordTensor.inclusive.setter stores, then re-enters the duration setter (which recomputes the size)", ok, "", inc.where)
    # align itself refuses ignored storage (the reason for (c))
    al = rt.methods.get("align")
    g = CFG(al.node)
    rz = [n for n in g.nodes if n.kind == "stmt" and isinstance(n.ast, ast.Raise)]
    gs = [ast.unparse(t) + ":" + lab for r in rz for t, lab in g.guards_of(r)]
    ctx.ob("C13.c/G12", "RecordTensor.align refuses ignored storage", any("_ignore" in x for x in gs), f"raise guards {gs}", al.where)
    rcn = rt.methods.get("reconstrain")
    if rcn is None:
        raise AnalysisError("anchor vanished: RecordTensor.reconstrain")
    ctx.touch(rcn)
    g = CFG(rcn.node)
    al_ = g.stmt_nodes_calling(lambda c: dotted(c.func) == "self.align")
    gs = [ast.unparse(t) + ":" + lab for a in al_ for t, lab in g.guards_of(a)]
    ok = bool(al_) and any(x in ("not self._ignore(self.__data):T", "self._ignore(self.__data):F") for x in gs)
    ctx.ob("C13.c/G12", "RecordTensor.reconstrain: align() only on initialised storage", ok, f"{gs}", rcn.where)
    ret = [s for s in walk_own(rcn.node) if isinstance(s, ast.Return)]
    ok = False
    if ret and isinstance(ret[0].value, ast.Call) and dotted(ret[0].value.func) == "ShapedTensor.reconstrain" and len(ret[0].value.args) == 3:
        d = terms.Builder(P, rcn, {}).t(ret[0].value.args[1])
        ok = nf.equal(d, specs.spec_term("dim + (dim >= 0)")) and ast.unparse(ret[0].value.args[2]) == "size"
    ctx.ob("C13.b", "RecordTensor.reconstrain shifts non-negative dims past the time dimension", ok, "", rcn.where)
    # public constraints view undoes the shift
    cg = rt.props.get("constraints", {}).get("get")
    ok = cg is not None and "d - 1 if d >= 0 else d" in ast.unparse(cg.node) and "d != 0" in ast.unparse(cg.node)
    ctx.ob("C13.b", "RecordTensor.constraints hides the time dimension and unshifts the rest", ok, "", cg.where if cg else "")

    # ---------------- (d) __make_compatible
    mc = st.methods.get("__make_compatible")
    if mc is None:
        raise AnalysisError("anchor vanished: ShapedTensor.__make_compatible")
    ctx.touch(mc)
    specs.compare_full(ctx, "C13.d", "ShapedTensor.__make_compatible: shrink keeps the tail slice [old - size:], grow prepends size - old zeros along dim, equal size returns the data unchanged", mc, """
def spec(tensor, dim, size):
    if tensor.shape[dim] > size:
        slices = list(repeat(slice(None), times=tensor.ndim))
        slices[dim] = slice(tensor.shape[dim] - size, None)
        return tensor[*slices]
    elif tensor.shape[dim] < size:
        shape = list(tensor.shape)
        shape[dim] = size - tensor.shape[dim]
        return torch.cat((zeros(tensor, shape=shape), tensor), dim)
    elif isinstance(tensor, nn.Parameter):
        return tensor.data
    else:
        return tensor
""", source="the newest min(old, new) observations are the tail after align(0); older new slots are zero", inline_depth=0)

    rz = st.methods.get("resize")
    if rz is None:
        raise AnalysisError("anchor vanished: ShapedTensor.resize")
    specs.compare_full(ctx, "C13.d", "ShapedTensor.resize: preserve_tail keeps the tail / prepends size - old fill; otherwise keeps the head / appends; a parameter is resized in place", rz, """
def spec(value, dim, size, preserve_tail=True, fill=0):
    if value.shape[dim] > size:
        slices = list(repeat(slice(None), times=value.ndim))
        if preserve_tail:
            slices[dim] = slice(value.shape[dim] - size, None)
        else:
            slices[dim] = slice(None, size)
        data = value[*slices]
    elif value.shape[dim] < size:
        shape = list(value.shape)
        shape[dim] = size - value.shape[dim]
        if preserve_tail:
            data = torch.cat((full(value, fill, shape=shape), value), dim)
        else:
            data = torch.cat((value, full(value, fill, shape=shape)), dim)
    else:
        return value
    if isinstance(value, nn.Parameter):
        value.data = data
        return value
    else:
        return data
""", source="resize docstring", inline_depth=0, erase_validation=True)
    # ---------------- (e) refuse-before-mutate in ShapedTensor.reconstrain
    rc = st.methods.get("reconstrain")
    if rc is None:
        raise AnalysisError("anchor vanished: ShapedTensor.reconstrain")
    ctx.touch(rc)
    # the whole decision table: which (dim, size, storage) combinations are refused, which store the constraint, which
    # reshape the data - returned value, the constraint mapping and the data store are compared with the documented table
    specs.compare_full(ctx, "C13.e", "ShapedTensor.reconstrain: add / edit / remove decision table (refusals without side effects; add only if compatible with constraints | {dim: size}; remove never touches data; edit reshapes only incompatible data)", rc, """
def spec(self, dim, size):
    data, constraints = self.__data, self.__constraints
    if dim not in constraints:
        if size is None:
            raise ValueError("cannot remove a constraint on an unconstrained dim")
        if self._ignore(data):
            constraints[dim] = size
        elif not _constraints_compatible(data, constraints, self.__strict):
            raise RuntimeError("already invalidated")
        elif _constraints_compatible(data, constraints | {dim: size}, self.__strict):
            constraints[dim] = size
        else:
            raise ValueError("would be invalidated")
    elif size is None:
        del constraints[dim]
        if not self._ignore_or_compatible(data, constraints, self.__strict):
            raise RuntimeError("already invalidated")
    elif self._ignore(data):
        constraints[dim] = size
    elif data.ndim >= _constraint_dimensionality(constraints, self.__strict) and _constraints_consistent(constraints | {dim: size}, data.ndim):
        constraints[dim] = size
        if not _constraints_compatible(data, constraints, self.__strict):
            self.__data = self.__make_compatible(data, dim, size)
            data = self.__data
    else:
        raise RuntimeError("cannot be made valid")
    return data
""", source="reconstrain docstring: add / edit / remove, Raises section", inline_depth=0, keep_raises=True, track_locals=True, erase_validation=True)
    v = st.props.get("valid", {}).get("get")
    b = terms.Builder(P, v, {}, inline_depth=0) if v else None
    ok = False
    if v is not None:
        r = [s_ for s_ in walk_own(v.node) if isinstance(s_, ast.Return)]
        txt = ast.unparse(r[0].value) if r else ""
        ok = isinstance(r[0].value, ast.BoolOp) and isinstance(r[0].value.op, ast.And) and "self.__owner()" in txt \
            and "self._ignore_or_compatible(self.__data, self.__constraints, self.__strict)" in txt
    ctx.ob("C13.e", "ShapedTensor.valid = owner alive and ignore-or-compatible over all constraints", ok, "", v.where if v else "")
    ioc = st.methods.get("_ignore_or_compatible")
    ok = ioc is not None and "_constraints_compatible(tensor, constraints, strict)" in ast.unparse(ioc.node)
    ctx.ob("C13.e", "_ignore_or_compatible checks compatibility against the full constraint mapping", ok, "", ioc.where if ioc else "")
    # constraint helpers: documented dimensionality / compatibility / consistency predicates
    cd = P.fn("_constraint_dimensionality", module="core.infrastructure")
    specs.compare(ctx, "C13.e", "_constraint_dimensionality: 0 if none; strict: max(maxdim + 1, 0) - min(mindim, 0); else max(maxdim + 1, |mindim|)", cd, """
def spec(constraints, strict):
    if not constraints:
        return 0
    return (max(max(constraints) + 1, 0) - min(min(constraints), 0)) if strict else max(max(constraints) + 1, abs(min(constraints)))
""", source="helper docstring", inline_depth=0)
    cc = P.fn("_constraints_compatible", module="core.infrastructure")
    specs.compare(ctx, "C13.e", "_constraints_compatible: enough dimensions and shape[d] == s for every constraint", cc, """
def spec(tensor, constraints, strict):
    if tensor.ndim < _constraint_dimensionality(constraints, strict):
        return False
    return all(starmap(lambda d, s, shape=tensor.shape: shape[d] == s, constraints.items()))
""", source="helper docstring", inline_depth=0)
    cs = P.fn("_constraints_consistent", module="core.infrastructure")
    ctx.touch(cs)
    g = CFG(cs.node)
    retF = [n for n in g.nodes if n.kind == "stmt" and isinstance(n.ast, ast.Return) and isinstance(n.ast.value, ast.Constant) and n.ast.value.value is False]
    gs = [(ast.unparse(t), lab) for r in retF for t, lab in g.guards_of(r)]
    ok = len(retF) == 1 and ("hypoth[dim] is None", "F") in gs and ("hypoth[dim] == size", "F") in gs and \
        any(isinstance(n.ast, ast.Return) and isinstance(n.ast.value, ast.Constant) and n.ast.value.value is True for n in g.nodes if n.kind == "stmt")
    ctx.ob("C13.e", "_constraints_consistent: False exactly when two constraints name the same physical dim with different sizes", ok, f"{gs}", cs.where)
    ctx.assume("slicing, torch.cat and roll implement their documented semantics")
    # ---------------- (f) the padding / emptying helpers
    from .. import helper_specs
    helper_specs.check(ctx, "C13.f", ["zeros", "full", "empty"])
    # ---------------- (g) the owners' dt / delay / duration setters forward every new value to their records (shared with C14.c)
    ctx.import_clauses("C14", {"C14.c"}, "C13.g", pick=lambda s: any(k in s for k in (".dt.setter", ".delay.setter", ".duration.setter")), minimum=4)
