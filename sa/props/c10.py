"""C10 — updater algebra: accumulate, reduce, bound, apply once, clear (DESIGN 5/C10)."""
from __future__ import annotations

import ast

from ..model import walk_own, dotted, is_self_attr, strip_doc, AnalysisError
from ..cfg import CFG
from .. import grules as G, specs, nf, terms

EXPLANATION = (
    "Decides the structural necessary conditions of the updater algebra on every path of "
    "neural/modeling.py and functional/bounding.py: (a) each mutation of an accumulator's part list is "
    "followed on all paths by the matching cache_clear; (b) the constructor's `reduction` argument flows "
    "to every accumulator's reduce field; (c) apply strictly precedes clear, write-back is "
    "setattr(parent, p, acc(getattr(parent, p))), unchanged parameter when nothing accumulated, both "
    "parts cleared; (d) the fifteen bounding kernels equal their documented formulas and every call "
    "binds to its callee's signature; (e) Accumulator.update = upper(pos) - lower(neg) on all four "
    "presence branches with slot 0 <- upperbound, slot 1 <- lowerbound. Does NOT decide stay-in-range "
    "over unbounded histories or order independence up to rounding (run-time values)."
)
TECHNIQUE = "static analysis: CFG pairing/ordering rules, def-use flow, call-signature binding, normal-form comparison with documented formulas"
LEVEL_TEXT = ("Static, all-paths decision of the structural clauses C10.a-e (pairing, flow, ordering, signature "
              "conformance, formula equality modulo a rational-function normal form). Behavioural remainder "
              "(numeric stay-in-range, rounding) is not decided.")
LEVEL_NOTE = "Trusts CPython's ast, the engine's resolution/CFG/normaliser, torch semantics of stack/sum/heaviside."
DESIGN_REF = "DESIGN.md §5 C10"
TRUSTED = ["spec table for bounding kernels (functional/bounding.py docstrings)"]

BOUND_SPECS = {
    "bound_upper_power": "(limit - param) ** power * update",
    "bound_lower_power": "(param - limit) ** power * update",
    "bound_upper_scaled_power": "((limit - param) / range) ** power * update",
    "bound_lower_scaled_power": "((param - limit) / range) ** power * update",
    "bound_upper_multiplicative": "(limit - param) * update",
    "bound_lower_multiplicative": "(param - limit) * update",
    "bound_upper_scaled_multiplicative": "(limit - param) / range * update",
    "bound_lower_scaled_multiplicative": "(param - limit) / range * update",
    "bound_upper_sharp": "torch.heaviside(limit - param, 0) * update",
    "bound_lower_sharp": "torch.heaviside(param - limit, 0) * update",
    "bound_power": """
def spec(param, pos, neg, max, min, upper_power, lower_power):
    return (pos if max is None else (max - param) ** upper_power * pos) - (neg if min is None else (param - min) ** lower_power * neg)
""",
    "bound_scaled_power": """
def spec(param, pos, neg, max, min, upper_power, lower_power):
    return (pos if max is None else ((max - param) / (max - min)) ** upper_power * pos) - (neg if min is None else ((param - min) / (max - min)) ** lower_power * neg)
""",
    "bound_multiplicative": """
def spec(param, pos, neg, max, min):
    return (pos if max is None else (max - param) * pos) - (neg if min is None else (param - min) * neg)
""",
    "bound_scaled_multiplicative": """
def spec(param, pos, neg, max, min):
    return (pos if max is None else (max - param) / (max - min) * pos) - (neg if min is None else (param - min) / (max - min) * neg)
""",
    "bound_sharp": """
def spec(param, pos, neg, max, min):
    return (pos if max is None else torch.heaviside(max - param, 0) * pos) - (neg if min is None else torch.heaviside(param - min, 0) * neg)
""",
}


def _stores_to_self(fnode, attr):
    """Statements that rebind self.<attr> or call a mutating method on it."""
    out = []
    for n in walk_own(fnode):
        if isinstance(n, (ast.Assign, ast.AugAssign, ast.AnnAssign)):
            tg = n.targets if isinstance(n, ast.Assign) else [n.target]
            if any(is_self_attr(t, attr) for t in tg):
                out.append(n)
        elif isinstance(n, ast.Call) and isinstance(n.func, ast.Attribute) and is_self_attr(n.func.value, attr) \
                and n.func.attr in ("append", "extend", "insert", "pop", "clear", "remove", "__setitem__", "__delitem__"):
            out.append(n)
        elif isinstance(n, ast.Delete) and any(is_self_attr(t, attr) for t in n.targets):
            out.append(n)
    return out


def cache_fields(ctx, acc):
    """Discover {cache attr: fields read by the cached closure} from Accumulator.__init__."""
    init = acc.methods.get("__init__")
    if init is None:
        raise AnalysisError("anchor vanished: Accumulator.__init__")
    local_defs = {n.name: n for n in init.node.body if isinstance(n, ast.FunctionDef)}
    out = {}
    for n in walk_own(init.node):
        if isinstance(n, ast.Assign) and len(n.targets) == 1 and is_self_attr(n.targets[0]) and isinstance(n.value, ast.Call):
            d = dotted(n.value.func)
            if d in ("cache", "functools.cache", "lru_cache", "functools.lru_cache") and n.value.args:
                a = n.value.args[0]
                body = local_defs.get(a.id) if isinstance(a, ast.Name) else a
                if body is not None:
                    fields = {x.attr for x in ast.walk(body) if is_self_attr(x)}
                    out[n.targets[0].attr] = fields
    return out


def check(ctx):
    P = ctx.prog
    acc = P.cls("Accumulator")
    upd = P.cls("Updater")
    updatable = P.cls("Updatable")

    caches = check_cache_pairing(ctx, "C10.a")

    # ---------------- C10.b reduction flows to every accumulator
    init = upd.methods.get("__init__")
    if init is None:
        raise AnalysisError("anchor vanished: Updater.__init__")
    ctx.touch(init)
    G.g5_property_called(ctx, [init], rule="C10.b")
    has_param = "reduction" in [a.arg for a in init.node.args.kwonlyargs + init.node.args.args]
    ctx.ob("C10.b", "Updater.__init__ has a reduction parameter", has_param, "", init.where)
    flows = []
    clobbers = []
    for n in walk_own(init.node):
        if isinstance(n, ast.For):
            it = n.iter
            over_values = (isinstance(it, ast.Call) and isinstance(it.func, ast.Attribute) and it.func.attr == "values"
                           and is_self_attr(it.func.value, "updates_"))
            var = n.target.id if isinstance(n.target, ast.Name) else None
            for b in ast.walk(n):
                if isinstance(b, ast.Call) and isinstance(b.func, ast.Attribute) and isinstance(b.func.value, ast.Name) \
                        and b.func.value.id == var and b.func.attr == "reduction":
                    if b.args and isinstance(b.args[0], ast.Name) and b.args[0].id == "reduction" and over_values:
                        flows.append(b)
                if isinstance(b, ast.Assign) and isinstance(b.targets[0], ast.Attribute) and isinstance(b.targets[0].value, ast.Name) \
                        and b.targets[0].value.id == var:
                    attr = b.targets[0].attr
                    if attr == "reduce" and isinstance(b.value, ast.Name) and b.value.id == "reduction" and over_values:
                        flows.append(b)
                    elif acc.find_method(attr) is not None:
                        clobbers.append((b, attr))
    # also accept passing reduction into the Accumulator constructor, if it takes one
    for c in P.calls_in(init):
        if dotted(c.func) == "Accumulator" and any(isinstance(a, ast.Name) and a.id == "reduction" for a in list(c.args) + [k.value for k in c.keywords]):
            flows.append(c)
    for b, attr in clobbers:
        ctx.ob("C10.b", f"Updater.__init__: assignment over method Accumulator.{attr}", False,
               f"`{ast.unparse(b)}` rebinds the method '{attr}' instead of calling it: the accumulator's reduce field is never set",
               P.loc(init, b), b)
    ctx.ob("C10.b", "Updater.__init__: reduction -> Accumulator.reduce", bool(flows),
           "constructor argument `reduction` reaches every accumulator (call of .reduction(reduction) / store to .reduce over updates_.values())"
           if flows else "no value flow from the constructor argument `reduction` to the accumulators' reduce field",
           init.where)
    # Accumulator.reduction stores fn into self.reduce; the cached closures read self.reduce
    red = acc.methods.get("reduction")
    if red is None:
        raise AnalysisError("anchor vanished: Accumulator.reduction")
    st = [n for n in walk_own(red.node) if isinstance(n, ast.Assign) and is_self_attr(n.targets[0], "reduce")
          and isinstance(n.value, ast.Name) and n.value.id == red.params()[0]]
    ctx.ob("C10.b", "Accumulator.reduction stores its argument in self.reduce", bool(st), "", red.where)
    ok = all("reduce" in v for v in caches.values())
    ctx.ob("C10.b", "cached closures reduce with self.reduce", ok,
           "" if ok else f"closure fields: {caches}", acc.methods['__init__'].where)

    # ---------------- C10.c ordering / write-back
    up = updatable.methods.get("update")
    us = updatable.methods.get("updatesome")
    if up is None or us is None:
        raise AnalysisError("anchor vanished: Updatable.update/updatesome")
    for f in (up, us):
        ctx.touch(f)
        g = CFG(f.node)
        apply_nodes = g.stmt_nodes_calling(lambda c: dotted(c.func) == "self.updater")
        clear_nodes = g.stmt_nodes_calling(lambda c: isinstance(c.func, ast.Attribute) and c.func.attr == "clear"
                                           and any(is_self_attr(x, "updater") for x in ast.walk(c.func.value)))
        ok = bool(apply_nodes) and bool(clear_nodes) and g.always_before(apply_nodes, clear_nodes)
        ctx.ob("C10.c", f"{f.short}: apply strictly before clear", ok,
               "every path reaching updater.clear() has passed the application self.updater(...)" if ok
               else "a path reaches updater.clear() without having applied the accumulated update (update lost)", f.where)
        # no second application after clear on the same path (apply once)
        again = any(g.can_follow(c, a) for c in clear_nodes for a in apply_nodes) if f is up else False
        ctx.ob("C10.c", f"{f.short}: applied once", not again, "" if not again else "application reachable again after clear", f.where)
        # default clear=True
        dflt = dict(zip([a.arg for a in f.node.args.kwonlyargs], f.node.args.kw_defaults))
        dflt.update(dict(zip([a.arg for a in f.node.args.args][-len(f.node.args.defaults):] if f.node.args.defaults else [], f.node.args.defaults)))
        d = dflt.get("clear")
        ok = isinstance(d, ast.Constant) and d.value is True
        ctx.ob("C10.c", f"{f.short}: clear defaults to True", ok, "", f.where)
        # clear is guarded only by `clear`
        for cn in clear_nodes:
            guards = [ast.unparse(t) for t, lab in g.guards_of(cn) if lab == "T"]
            ctx.ob("C10.c", f"{f.short}: clear runs when requested", "clear" in guards,
                   f"guards of the clear call: {guards}", f.where)
    # updatesome applies exactly the requested parameter and clears the same one
    loops = [n for n in walk_own(us.node) if isinstance(n, ast.For)]
    ok = False
    for lp in loops:
        v = lp.target.id if isinstance(lp.target, ast.Name) else None
        it_ok = isinstance(lp.iter, ast.Name) and lp.iter.id == (us.node.args.vararg.arg if us.node.args.vararg else "")
        app_ok = any(isinstance(c, ast.Call) and dotted(c.func) == "self.updater" and c.args and isinstance(c.args[0], ast.Name) and c.args[0].id == v
                     for c in ast.walk(lp))
        clr_ok = any(isinstance(c, ast.Call) and isinstance(c.func, ast.Attribute) and c.func.attr == "clear"
                     and isinstance(c.func.value, ast.Call) and dotted(c.func.value.func) == "getattr"
                     and len(c.func.value.args) == 2 and isinstance(c.func.value.args[1], ast.Name) and c.func.value.args[1].id == v
                     for c in ast.walk(lp))
        ok = ok or (it_ok and app_ok and clr_ok)
    ctx.ob("C10.c", "Updatable.updatesome: per requested parameter apply(p) then clear accumulator p", ok, "", us.where)

    fw = upd.methods.get("forward")
    if fw is None:
        raise AnalysisError("anchor vanished: Updater.forward")
    ctx.touch(fw)
    wb = []
    for lp in [n for n in walk_own(fw.node) if isinstance(n, ast.For)]:
        v = lp.target.id if isinstance(lp.target, ast.Name) else None
        for c in ast.walk(lp):
            if isinstance(c, ast.Call) and dotted(c.func) == "setattr" and len(c.args) == 3:
                tgt, name, val = c.args
                good = (isinstance(name, ast.Name) and name.id == v and isinstance(val, ast.Call)
                        and isinstance(val.func, ast.Subscript) and is_self_attr(val.func.value, "updates_")
                        and isinstance(val.func.slice, ast.Name) and val.func.slice.id == v
                        and val.args and isinstance(val.args[0], ast.Call) and dotted(val.args[0].func) == "getattr"
                        and len(val.args[0].args) == 2 and ast.unparse(val.args[0].args[0]) == ast.unparse(tgt)
                        and isinstance(val.args[0].args[1], ast.Name) and val.args[0].args[1].id == v)
                wb.append((c, good))
        # equivalent write-back through the parameter object: `x = getattr(module, p); x.data = self.updates_[p](x)`
        # (same value for the updater algebra; whether it may bypass a masking setter is C05's concern, not C10's)
        for st_ in ast.walk(lp):
            if isinstance(st_, ast.Assign) and isinstance(st_.targets[0], ast.Attribute) and st_.targets[0].attr == "data" and isinstance(st_.targets[0].value, ast.Name):
                x = st_.targets[0].value.id
                defs = [n_.value for n_ in ast.walk(lp) if isinstance(n_, ast.Assign) and isinstance(n_.targets[0], ast.Name) and n_.targets[0].id == x]
                val = st_.value
                good = len(defs) == 1 and isinstance(defs[0], ast.Call) and dotted(defs[0].func) == "getattr" and len(defs[0].args) == 2 \
                    and isinstance(defs[0].args[1], ast.Name) and defs[0].args[1].id == v \
                    and isinstance(val, ast.Call) and isinstance(val.func, ast.Subscript) and is_self_attr(val.func.value, "updates_") \
                    and isinstance(val.func.slice, ast.Name) and val.func.slice.id == v and val.args and isinstance(val.args[0], ast.Name) and val.args[0].id == x
                wb.append((st_, good))
    ctx.ob("C10.c", "Updater.forward: parent.p := updates_[p](parent.p) for each requested name", bool(wb) and all(g for _, g in wb),
           "" if wb and all(g for _, g in wb) else "write-back does not read, transform and store the same named parameter of the parent",
           fw.where)
    # default: all parameters
    dflt_all = any(isinstance(n, ast.If) and isinstance(n.test, ast.UnaryOp) and isinstance(n.test.op, ast.Not)
                   and ast.unparse(n.test.operand) == (fw.node.args.vararg.arg if fw.node.args.vararg else "?")
                   and any("updates_" in ast.unparse(s) for s in n.body) for n in walk_own(fw.node))
    ctx.ob("C10.c", "Updater.forward: no names => every accumulator", dflt_all, "", fw.where)
    # parent = weakly held constructor argument
    specs.compare(ctx, "C10.c", "Accumulator.forward: param + update, or param unchanged when nothing accumulated",
                  acc.methods["forward"],
                  "def spec(self, param, kwargs):\n    u = self.update(param, **kwargs)\n    return param if u is None else param + u",
                  source="Accumulator.forward docstring", inline_depth=0)
    # _setacc_ tuple order and _delacc_
    sa = upd.methods.get("_setacc_")
    if sa is None:
        raise AnalysisError("anchor vanished: Updater._setacc_")
    ok = False
    for n in walk_own(sa.node):
        if isinstance(n, ast.Assign) and isinstance(n.targets[0], ast.Tuple) and len(n.targets[0].elts) == 2:
            a, b = n.targets[0].elts
            if isinstance(a, ast.Attribute) and isinstance(b, ast.Attribute) and (a.attr, b.attr) == ("pos", "neg") \
                    and ast.unparse(a.value) == ast.unparse(b.value) and isinstance(n.value, ast.Name) and n.value.id == "value":
                ok = True
    ctx.ob("C10.c", "Updater._setacc_: (pos, neg) = value", ok, "tuple assigned to an updater attribute feeds element 0 to pos, element 1 to neg", sa.where)
    single = any(isinstance(n, ast.Assign) and isinstance(n.targets[0], ast.Attribute) and n.targets[0].attr == "pos"
                 and isinstance(n.value, ast.Name) and n.value.id == "value" for n in walk_own(sa.node))
    ctx.ob("C10.c", "Updater._setacc_: single tensor => potentiating part", single, "", sa.where)

    # ---------------- C10.e Accumulator.update (shared with C09.c)
    check_accumulator_update(ctx, "C10.e")

    # ---------------- C10.d bounding kernels
    n = G.g1_signatures(ctx, P.module_funcs("functional.bounding"), rule="C10.d/G1")
    ctx.require("C10.d", "resolved calls in functional/bounding.py", n, 8)
    cnt = 0
    for name, spec in BOUND_SPECS.items():
        f = P.fn(name, module="functional.bounding")
        specs.compare(ctx, "C10.d", f"{name} = documented formula", f, spec, source="functional/bounding.py docstring")
        cnt += 1
    ctx.require("C10.d", "bounding kernels", cnt, 15)
    # ---------------- C10.f one-step range invariant (inductive step of "stays inside [min, max] forever")
    range_invariant(ctx)
    ctx.assume("torch.stack / the configured reduction / torch.heaviside implement their documented semantics")
    ctx.assume("bound_*_sharp: the value at the limit is 0 (second heaviside argument), as property C10 requires")


def check_cache_pairing(ctx, rule):
    P = ctx.prog
    acc = P.cls("Accumulator")
    # ---------------- C10.a cache-clear pairing
    caches = cache_fields(ctx, acc)
    ctx.require(rule, "cached closures in Accumulator.__init__", len(caches), 2)
    list_fields = {}
    for cache_attr, fields in caches.items():
        for fld in fields:
            if fld in ("reduce",):
                continue
            list_fields.setdefault(fld, set()).add(cache_attr)
    nmut = 0
    for f in acc.all_funcs():
        if f.name == "__init__":
            continue
        ctx.touch(f)
        g = None
        for fld, cattrs in list_fields.items():
            muts = _stores_to_self(f.node, fld)
            if not muts:
                continue
            g = g or CFG(f.node)
            for m in muts:
                nmut += 1
                mnode = g.node_of(m)
                clear_nodes = g.stmt_nodes_calling(
                    lambda c: isinstance(c.func, ast.Attribute) and c.func.attr == "cache_clear"
                    and is_self_attr(c.func.value) and c.func.value.attr in cattrs)
                ok = mnode is not None and g.always_after([mnode], clear_nodes)
                ctx.ob(rule, f"{f.short}: mutation of self.{fld}", ok,
                       f"`{ast.unparse(m)[:60]}` is followed on every path by {sorted(cattrs)}.cache_clear()" if ok else
                       f"`{ast.unparse(m)[:60]}` can reach the function exit without {sorted(cattrs)}.cache_clear(): "
                       f"the cached reduction keeps serving the stale part list",
                       P.loc(f, m), m)
    ctx.require(rule, "part-list mutations outside __init__", nmut, 4)
    # getters read through the caches
    for pname, cattr in (("pos", None), ("neg", None)):
        g = acc.find_prop(pname, "get")
        if g is None:
            raise AnalysisError(f"anchor vanished: Accumulator.{pname}")
        called = [dotted(c.func) for c in P.calls_in(g)]
        used = [c for c in called if c and c.startswith("self.") and c.split(".")[1] in caches]
        want = [k for k, v in caches.items() if f"_{pname}" in v]
        ok = bool(used) and all(u.split(".")[1] in want for u in used)
        ctx.ob(rule, f"Accumulator.{pname} getter", ok,
               f"returns the cache built over self._{pname}" if ok else f"getter reads {used}, expected the cache over self._{pname} ({want})", g.where)
    # deleters rebind to an empty list
    for pname in ("pos", "neg"):
        d = acc.find_prop(pname, "del")
        if d is None:
            raise AnalysisError(f"anchor vanished: Accumulator.{pname} deleter")
        ok = any(isinstance(n, ast.Assign) and is_self_attr(n.targets[0], f"_{pname}") and isinstance(n.value, ast.Call) and not n.value.args
                 for n in walk_own(d.node))
        ctx.ob(rule, f"Accumulator.{pname} deleter empties the part list", ok,
               "" if ok else f"deleter does not rebind self._{pname} to an empty container", d.where)
    clr = acc.methods.get("clear")
    if clr is None:
        raise AnalysisError("anchor vanished: Accumulator.clear")
    dels = {t.attr for n in walk_own(clr.node) if isinstance(n, ast.Delete) for t in n.targets if is_self_attr(t)}
    ctx.ob(rule, "Accumulator.clear deletes both parts", {"pos", "neg"} <= dels,
           f"clear deletes {sorted(dels)}; both 'pos' and 'neg' must be emptied or a second application re-applies the kept part", clr.where)

    return caches


def range_invariant(ctx):
    """With multiplicative dependence and reduced magnitudes in [0, 1] (scaled multiplicative: in [0, range]) one application
    maps [min, max] into itself: new - min and max - new are polynomials with non-negative coefficients in non-negative
    quantities.  Proved from the kernels' own value-flow terms: param = min + a, max = min + a + b (a, b >= 0)."""
    P = ctx.prog
    a, b, mn = nf.sym("a"), nf.sym("b"), nf.sym("min")
    pos, neg, pc, ncx = nf.sym("pos"), nf.sym("neg"), nf.sym("pos_c"), nf.sym("neg_c")   # pos_c = cap - pos >= 0, neg_c = cap - neg >= 0
    assume = {k: "P" for k in ("a", "b", "pos", "neg", "pos_c", "neg_c")}
    for name, cap in (("bound_multiplicative", nf.C(1)), ("bound_scaled_multiplicative", a + b)):
        f = P.fn(name, module="functional.bounding")
        env = {"param": mn + a, "max": mn + a + b, "min": mn}
        facts = nf.Facts()
        for v in ("max", "min"):
            facts = facts.assume(nf.app("isnone", env[v]), False)
        # lower bound: substitute neg = cap - neg_c
        lo_t, _ = terms.function_term(P, f, dict(env, pos=pos, neg=cap - ncx), facts=facts)
        hi_t, _ = terms.function_term(P, f, dict(env, pos=cap - pc, neg=neg), facts=facts)
        ok_lo = ok_hi = False
        if isinstance(lo_t, nf.Rat) and isinstance(hi_t, nf.Rat):
            lower = nf.restrict(a + lo_t, facts)            # new - min
            upper = nf.restrict(b - hi_t, facts)            # max - new
            ok_lo = nf.sign_of(lower, assume) in ("P", "Z")
            ok_hi = nf.sign_of(upper, assume) in ("P", "Z")
            detail = f"new - min = {nf.show(lower)[:120]};  max - new = {nf.show(upper)[:120]}"
        else:
            detail = "kernel term not a single expression"
        capn = "1" if name == "bound_multiplicative" else "max - min"
        ctx.ob("C10.f", f"{name}: a parameter inside [min, max] stays inside after one update with parts in [0, {capn}]", ok_lo and ok_hi,
               detail + ("" if ok_lo and ok_hi else " — not provably non-negative: the update can leave the range"), f.where)
        ctx.touch(f)
    # Accumulator applies exactly param + update
    ctx.note("C10.f: the invariant is inductive: Accumulator.forward = param + update (C10.c), update = kernel(param, reduce(pos), reduce(neg)) (C10.e)")


def check_accumulator_update(ctx, rule):
    P = ctx.prog
    acc = P.cls("Accumulator")
    f = acc.methods.get("update")
    if f is None:
        raise AnalysisError("anchor vanished: Accumulator.update")
    spec = """
def spec(self, param, kwargs):
    pos, neg = self.pos, self.neg
    if isinstance(self.bind, list):
        if pos is not None and neg is not None:
            return self.bind[0](param, pos) - self.bind[1](param, neg)
        elif pos is not None:
            return self.bind[0](param, pos)
        elif neg is not None:
            return -self.bind[1](param, neg)
        else:
            return None
    else:
        if pos is not None and neg is not None:
            return self.bind(param, pos, neg)
        elif pos is not None:
            return self.bind(param, pos, 0)
        elif neg is not None:
            return self.bind(param, 0, neg)
        else:
            return None
"""
    specs.compare(ctx, rule, "Accumulator.update = upper(pos) - lower(neg) on all presence branches", f, spec,
                  source="Accumulator.update docstring / C09: potentiation minus depression", inline_depth=0)
    # slot ownership: upperbound writes bind[0] with (x, p, max), lowerbound bind[1] with (x, n, min)
    for meth, slot, lim in (("upperbound", 0, "max"), ("lowerbound", 1, "min")):
        m = acc.methods.get(meth)
        if m is None:
            raise AnalysisError(f"anchor vanished: Accumulator.{meth}")
        ctx.touch(m)
        slots = set()
        lam_ok = True
        for n in walk_own(m.node):
            if isinstance(n, ast.Assign) and isinstance(n.targets[0], ast.Subscript) and is_self_attr(n.targets[0].value, "bind"):
                k = n.targets[0].slice
                slots.add(k.value if isinstance(k, ast.Constant) else "?")
                lam = n.value
                if isinstance(lam, ast.Lambda) and isinstance(lam.body, ast.Call) and dotted(lam.body.func) == "bound":
                    a = lam.body.args
                    names = [x.arg for x in lam.args.args]
                    dmap = dict(zip(names[-len(lam.args.defaults):], lam.args.defaults)) if lam.args.defaults else {}
                    third = a[2] if len(a) >= 3 else None
                    tid = third.id if isinstance(third, ast.Name) else None
                    src = dmap.get(tid)
                    lam_ok = lam_ok and len(a) >= 3 and isinstance(a[0], ast.Name) and a[0].id == names[0] \
                        and isinstance(a[1], ast.Name) and a[1].id == names[1] \
                        and ((isinstance(src, ast.Name) and src.id == lim) or tid == lim)
        ctx.ob(rule, f"Accumulator.{meth} owns bind[{slot}] and passes (param, part, {lim})", slots == {slot} and lam_ok,
               f"{meth} stores into bind slots {sorted(map(str, slots))}; lambda wiring ok={lam_ok}", m.where)
    fb = acc.methods.get("fullbound")
    if fb is not None:
        ok = True
        for n in walk_own(fb.node):
            if isinstance(n, ast.Lambda) and isinstance(n.body, ast.Call) and dotted(n.body.func) == "bound":
                names = [x.arg for x in n.args.args]
                dmap = dict(zip(names[-len(n.args.defaults):], n.args.defaults)) if n.args.defaults else {}
                a = n.body.args
                src = [dmap.get(x.id).id if isinstance(x, ast.Name) and isinstance(dmap.get(x.id), ast.Name) else getattr(x, "id", None) for x in a]
                ok = ok and src[:5] == [names[0], names[1], names[2], "max", "min"]
            if isinstance(n, ast.Lambda) and isinstance(n.body, ast.BinOp):
                names = [x.arg for x in n.args.args]
                ok = ok and isinstance(n.body.op, ast.Sub) and ast.unparse(n.body) == f"{names[1]} - {names[2]}"
        ctx.ob(rule, "Accumulator.fullbound passes (param, pos, neg, max, min); default bind is p - n", ok, "", fb.where)
