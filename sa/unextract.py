"""Undo "extract method / extract function" at load time.

A helper that the reference tree does not have (sa/reference_shapes.json lists the reference functions) and that is called
from the module it is defined in is part of its caller's behaviour.  Before any rule runs, calls to such helpers are
replaced by the helper's body with the parameters substituted - only in the two shapes below, which are exact:

  * statement `self.helper(a, b)` / `helper(a, b)` / `Class.helper(self, a, b)` whose body returns nothing (no `return`
    with a value, no `return` except as the last statement): the statement becomes the body;
  * a call, anywhere, of a helper whose body is the single statement `return <expr>`: the call becomes the expression.

Arguments must be names, attribute chains, constants or simple arithmetic of those (so substituting them neither repeats
nor reorders an effect); the helper's own locals get a suffix so that they cannot capture the caller's names (the
alpha-normalisation that follows renames them to the reference names where the definitions agree).  Everything else - a
helper in another module, a helper with early returns, `*args` - is left as written; the term builder still inlines such
helpers where a rule compares summaries (`inline_new`).  Like the other load-time normalisations this is a reading aid:
no rule consults the reference table."""
from __future__ import annotations

import ast
import copy

from . import alpha


def _simple_arg(e) -> bool:
    if isinstance(e, (ast.Name, ast.Constant)):
        return True
    if isinstance(e, ast.Attribute):
        return _simple_arg(e.value)
    if isinstance(e, ast.UnaryOp):
        return _simple_arg(e.operand)
    if isinstance(e, ast.BinOp):
        return _simple_arg(e.left) and _simple_arg(e.right)
    if isinstance(e, ast.Subscript):
        return _simple_arg(e.value) and _simple_arg(e.slice)
    if isinstance(e, ast.Tuple):
        return all(_simple_arg(x) for x in e.elts)
    return False


def _helper_ok(fn: ast.FunctionDef) -> bool:
    a = fn.args
    if a.vararg or a.kwarg or a.posonlyargs:
        return False
    if any(not (isinstance(d, ast.Name) and d.id == "staticmethod") for d in fn.decorator_list):
        return False
    for n in ast.walk(fn):
        if n is not fn and isinstance(n, (ast.FunctionDef, ast.AsyncFunctionDef, ast.Lambda, ast.ClassDef, ast.Yield, ast.YieldFrom, ast.Global, ast.Nonlocal)):
            return False
    return True


def _body(fn):
    b = list(fn.body)
    if b and isinstance(b[0], ast.Expr) and isinstance(b[0].value, ast.Constant) and isinstance(b[0].value.value, str):
        b = b[1:]
    return b


def _kind(fn):
    """'expr' (single `return e`), 'stmts' (no value returned, no early return) or None."""
    b = _body(fn)
    if len(b) == 1 and isinstance(b[0], ast.Return) and b[0].value is not None:
        return "expr"
    rets = [n for n in ast.walk(fn) if isinstance(n, ast.Return)]
    if all(r.value is None for r in rets) and all(r is b[-1] for r in rets):
        return "stmts"
    return None


class _Subst(ast.NodeTransformer):
    def __init__(self, mapping, rename):
        self.mapping, self.rename = mapping, rename

    def visit_Name(self, n):
        if n.id in self.mapping and isinstance(n.ctx, ast.Load):
            return copy.deepcopy(self.mapping[n.id])
        if n.id in self.rename:
            return ast.copy_location(ast.Name(id=self.rename[n.id], ctx=n.ctx), n)
        return n


def _bind(fn, call, is_method_call, explicit_self):
    """parameter -> argument expression, or None when the call does not bind simply."""
    a = fn.args
    names = [x.arg for x in a.args]
    static = any(isinstance(d, ast.Name) and d.id == "staticmethod" for d in fn.decorator_list)
    mapping = {}
    args = list(call.args)
    if is_method_call and not static:
        if not names:
            return None
        if explicit_self:
            if not args:
                return None
            mapping[names[0]] = args[0]
            args = args[1:]
        else:
            mapping[names[0]] = call.func.value
        names = names[1:]
    if any(isinstance(x, ast.Starred) for x in args) or any(k.arg is None for k in call.keywords) or len(args) > len(names):
        return None
    for n, v in zip(names, args):
        mapping[n] = v
    kwonly = [x.arg for x in a.kwonlyargs]
    for k in call.keywords:
        if k.arg in mapping or (k.arg not in names and k.arg not in kwonly):
            return None
        mapping[k.arg] = k.value
    defaults = dict(zip(names[len(names) - len(a.defaults):], a.defaults)) if a.defaults else {}
    for n in names:
        if n not in mapping:
            if n not in defaults:
                return None
            mapping[n] = defaults[n]
    for x, d in zip(a.kwonlyargs, a.kw_defaults):
        if x.arg not in mapping:
            if d is None:
                return None
            mapping[x.arg] = d
    if not all(_simple_arg(v) for v in mapping.values()):
        return None
    # a parameter that the helper rebinds cannot be substituted textually
    stored = {n.id for n in ast.walk(fn) if isinstance(n, ast.Name) and isinstance(n.ctx, ast.Store)}
    if stored & set(mapping):
        return None
    return mapping


def normalise(tree: ast.Module, rel: str) -> int:
    helpers = {}      # (class name or None, function name) -> FunctionDef
    for n in tree.body:
        if isinstance(n, ast.FunctionDef) and not alpha.is_reference_function(rel, None, n.name) and _helper_ok(n) and _kind(n):
            helpers[(None, n.name)] = n
        elif isinstance(n, ast.ClassDef):
            for m in n.body:
                if isinstance(m, ast.FunctionDef) and not alpha.is_reference_function(rel, n.name, m.name) and _helper_ok(m) and _kind(m):
                    helpers[(n.name, m.name)] = m
    if not helpers:
        return 0
    total = 0

    def resolve(call, cls):
        f = call.func
        if isinstance(f, ast.Name) and (None, f.id) in helpers:
            return helpers[(None, f.id)], False, False
        if isinstance(f, ast.Attribute) and isinstance(f.value, ast.Name):
            if f.value.id == "self" and cls is not None and (cls, f.attr) in helpers:
                return helpers[(cls, f.attr)], True, False
            if (f.value.id, f.attr) in helpers:
                static = any(isinstance(d, ast.Name) and d.id == "staticmethod" for d in helpers[(f.value.id, f.attr)].decorator_list)
                return helpers[(f.value.id, f.attr)], True, not static
        return None

    counter = [0]

    def expand_in(fn, cls):
        nonlocal total
        changed = False

        def locals_rename(h):
            counter[0] += 1
            params = {x.arg for x in h.args.args + h.args.kwonlyargs}
            return {n.id: f"{n.id}__x{counter[0]}" for n in ast.walk(h) if isinstance(n, ast.Name) and isinstance(n.ctx, ast.Store) and n.id not in params}

        class Expr(ast.NodeTransformer):
            def visit_FunctionDef(self, n):
                return n if n is not fn else self.generic_visit(n)

            def visit_Lambda(self, n):
                return n

            def visit_Call(self, c):
                self.generic_visit(c)
                r = resolve(c, cls)
                if r is None or r[0] is fn or _kind(r[0]) != "expr":
                    return c
                h, is_m, expl = r
                mp = _bind(h, c, is_m, expl)
                if mp is None:
                    return c
                nonlocal_changed[0] = True
                return ast.copy_location(_Subst(mp, {}).visit(copy.deepcopy(_body(h)[0].value)), c)
        nonlocal_changed = [False]
        Expr().visit(fn)
        changed = nonlocal_changed[0]
        for node in ast.walk(fn):
            for field in ("body", "orelse", "finalbody"):
                blk = getattr(node, field, None)
                if not (isinstance(blk, list) and blk and isinstance(blk[0], ast.stmt)):
                    continue
                i = 0
                while i < len(blk):
                    st = blk[i]
                    if isinstance(st, ast.Expr) and isinstance(st.value, ast.Call):
                        r = resolve(st.value, cls)
                        if r is not None and r[0] is not fn and _kind(r[0]) == "stmts":
                            h, is_m, expl = r
                            mp = _bind(h, st.value, is_m, expl)
                            if mp is not None:
                                ren = locals_rename(h)
                                new = [_Subst(mp, ren).visit(copy.deepcopy(s)) for s in _body(h) if not isinstance(s, ast.Return)] or [ast.Pass()]
                                for s_ in new:
                                    ast.copy_location(s_, st)
                                    for y in ast.walk(s_):
                                        if hasattr(y, "lineno"):
                                            y.lineno, y.end_lineno = st.lineno, getattr(st, "end_lineno", st.lineno)
                                blk[i:i + 1] = new
                                changed = True
                                i += len(new)
                                continue
                    i += 1
        if changed:
            total += 1
        return changed

    for _ in range(3):
        any_change = False
        for n in tree.body:
            if isinstance(n, ast.FunctionDef):
                any_change |= expand_in(n, None)
            elif isinstance(n, ast.ClassDef):
                for m in n.body:
                    if isinstance(m, ast.FunctionDef):
                        any_change |= expand_in(m, n.name)
        if not any_change:
            break
    if total:
        ast.fix_missing_locations(tree)
    return total
