"""Command line of the static analyser.  Usage: cli.py <Cxx> [--tier quick|thorough] [--root DIR]
                                                 cli.py --selfcheck
Exit 0: property's structural clauses hold (KNOWN-FINDING lines allowed); 1: VIOLATION; 2: ANALYSIS-ERROR.
"""
from __future__ import annotations

import argparse
import importlib
import json
import os
import sys
import time
import traceback

HERE = os.path.dirname(os.path.abspath(__file__))
sys.path.insert(0, os.path.dirname(HERE))

from sa.model import Program, AnalysisError  # noqa: E402
from sa.framework import Ctx, load_known, is_known, write_evidence, VERIF  # noqa: E402

PROPS = [f"C{i:02d}" for i in range(1, 21)]


def run_property(pid: str, tier: str, root: str, quiet=False, write=True):
    t0 = time.time()
    prog = Program(root)
    from sa import tables as _tables
    _tables.read_as_tables(prog)
    mod = importlib.import_module(f"sa.props.{pid.lower()}")
    ctx = Ctx(prog, pid, tier)
    mod.check(ctx)
    from sa import thorough, tables
    tables.check_registered(ctx, pid)
    thorough.sweep(ctx)
    known = load_known()
    viol, hits = [], []
    for o in ctx.findings():
        k = is_known(known, pid, o)
        if k is not None:
            hits.append(k)
            if not quiet:
                print(f"KNOWN-FINDING: property={pid} {o.rule} {o.construct}: {k['what']}")
        else:
            viol.append(o)
    wall = time.time() - t0
    seed = int(os.environ.get("VERIF_SEED", "0") or 0)
    if write:
        write_evidence(ctx, mod.EXPLANATION, mod.TECHNIQUE, wall, len(viol), hits, seed,
                       trusted_base=getattr(mod, "TRUSTED", []) + [
                           "CPython ast parser", "sa/model.py name/MRO resolution", "sa/nf.py normaliser", "sa/cfg.py"],
                       checker_cmd=f"./check {pid} --tier {tier}")
    if viol:
        vp = VERIF / "evidence" / f"{pid}.violations.json"
        if write:
            vp.write_text(json.dumps([o.as_sample() for o in viol], indent=1) + "\n")
        print(f"VIOLATION property={pid} replay={vp}")
        for o in viol:
            print(f"  [{o.rule}] {o.where} {o.construct}: {o.detail}")
        return 1, ctx
    if not quiet:
        n = len(ctx.obs)
        print(f"OK property={pid} tier={tier} obligations={n} discharged={n - len(ctx.findings())} "
              f"known_findings={len(hits)} functions_analysed={len(ctx.analysed_funcs)} wall={wall:.2f}s")
    return 0, ctx


def main(argv=None):
    ap = argparse.ArgumentParser()
    ap.add_argument("prop", nargs="?")
    ap.add_argument("--tier", default=os.environ.get("VERIF_TIER", "quick"), choices=["quick", "thorough"])
    ap.add_argument("--root", default=os.environ.get("SA_ROOT", "/repo"))
    ap.add_argument("--selfcheck", action="store_true")
    ap.add_argument("--explain")
    ap.add_argument("--no-evidence", action="store_true")
    a = ap.parse_args(argv)
    try:
        if a.selfcheck:
            from sa import selfcheck
            return selfcheck.main()
        if a.explain:
            print(open(a.explain).read())
            return 0
        if a.prop not in PROPS:
            print(f"ANALYSIS-ERROR unknown property {a.prop}")
            return 2
        rc, _ = run_property(a.prop, a.tier, a.root, write=not a.no_evidence)
        return rc
    except AnalysisError as e:
        print(f"ANALYSIS-ERROR {e}")
        return 2
    except Exception:
        print("ANALYSIS-ERROR internal error:\n" + traceback.format_exc())
        return 2


if __name__ == "__main__":
    sys.exit(main())
