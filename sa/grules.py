"""Generic rule catalogue G1..G12 over the resolved program (DESIGN 3).

Each rule takes a Ctx and a *scope* (iterable of Func / ClassInfo) and records one obligation
per instance.  Rules fire only on resolved facts; unresolved callees or untyped receivers yield
no obligation.
"""
from __future__ import annotations

import ast
import re

from .model import Program, Func, ClassInfo, walk_own, dotted, is_self_attr, strip_doc, walk_ordered
from .framework import Ctx
from . import einops_alg


# --------------------------------------------------------------------------- G1
def bind_call(call: ast.Call, fn: ast.FunctionDef, skip_first: bool):
    """Bind like CPython; returns (messages, open) — open when */** make it undecidable."""
    a = fn.args
    pos = [x.arg for x in a.posonlyargs + a.args]
    posonly = {x.arg for x in a.posonlyargs}
    if skip_first and pos:
        posonly.discard(pos[0])
        pos = pos[1:]
    nd = len(a.defaults)
    req_pos = pos[: len(pos) - nd] if nd <= len(pos) else []
    kwonly = [x.arg for x in a.kwonlyargs]
    kwreq = [x.arg for x, d in zip(a.kwonlyargs, a.kw_defaults) if d is None]
    star = any(isinstance(x, ast.Starred) for x in call.args) or any(k.arg is None for k in call.keywords)
    npos = len([x for x in call.args if not isinstance(x, ast.Starred)])
    msgs = []
    if npos > len(pos) and not a.vararg:
        extra = pos[len(pos):]
        msgs.append(f"{npos} positional arguments for {len(pos)} positional parameters"
                    + (f" (keyword-only: {', '.join(kwonly)})" if kwonly else ""))
    kws = [k.arg for k in call.keywords if k.arg]
    for k in kws:
        if (k not in pos or k in posonly) and k not in kwonly and not a.kwarg:
            msgs.append(f"unknown keyword '{k}'")
        if k in pos[:npos] and not star:
            msgs.append(f"parameter '{k}' given twice")
    if len(set(kws)) != len(kws):
        msgs.append("repeated keyword")
    if not star:
        for r in req_pos[npos:]:
            if r not in kws:
                msgs.append(f"missing required argument '{r}'")
        for r in kwreq:
            if r not in kws:
                msgs.append(f"missing required keyword-only argument '{r}'")
    return msgs, star


def g1_signatures(ctx: Ctx, scope, rule="G1"):
    n = 0
    for f in scope:
        for call in ctx.prog.calls_in(f):
            r = ctx.prog.resolve_call(f, call)
            if r is None:
                continue
            callee, bound = r
            if callee.node.decorator_list and any("singledispatch" in ast.unparse(d) or "overload" in ast.unparse(d) for d in callee.node.decorator_list):
                continue
            skip = bound and callee.cls is not None and callee.kind != "static"
            msgs, _ = bind_call(call, callee.node, skip)
            n += 1
            ctx.ob(rule, f"{f.short} -> {callee.short}", not msgs,
                   "; ".join(msgs) if msgs else "arguments bind to the callee's signature",
                   ctx.prog.loc(f, call), call)
        ctx.touch(f)
    return n


# --------------------------------------------------------------------------- G2
def _stem(e):
    if isinstance(e, ast.Attribute):
        s = e.attr
    elif isinstance(e, ast.Name):
        s = e.id
    else:
        return None
    return s.strip("_").lower()


def _name_match(a: str, param: str) -> bool:
    b = param.strip("_").lower()
    return a == b or a.endswith("_" + b) or (a.endswith(b) and len(b) >= 5)


def g2_name_swap(ctx: Ctx, scope, rule="G2"):
    n = 0
    for f in scope:
        for call in ctx.prog.calls_in(f):
            r = ctx.prog.resolve_call(f, call)
            if r is None or any(isinstance(a, ast.Starred) for a in call.args):
                continue
            callee, bound = r
            pos = [x.arg for x in callee.node.args.posonlyargs + callee.node.args.args]
            if bound and callee.cls is not None and callee.kind != "static":
                pos = pos[1:]
            stems = [_stem(a) for a in call.args]
            if len([s for s in stems if s]) < 2:
                continue
            n += 1
            bad = []
            for i, (s, p) in enumerate(zip(stems, pos)):
                if s is None:
                    continue
                for j, (s2, p2) in enumerate(zip(stems, pos)):
                    if j <= i or s2 is None:
                        continue
                    if _name_match(s, p2) and _name_match(s2, p) and not (_name_match(s, p) and _name_match(s2, p2)):
                        bad.append(f"argument {i} '{s}' is bound to parameter '{p}' and argument {j} '{s2}' to '{p2}' (swapped)")
            ctx.ob(rule, f"{f.short} -> {callee.short}", not bad, "; ".join(bad) or "positional roles in order",
                   ctx.prog.loc(f, call), call)
    return n


# --------------------------------------------------------------------------- G3
def class_private_stores(prog: Program, c: ClassInfo) -> set:
    """Mangled privates `_C__x` that class C (lexically) defines."""
    out = set()
    cname = c.name.lstrip("_")
    for n in ast.walk(c.node):
        if isinstance(n, ast.Attribute) and n.attr.startswith("__") and not n.attr.endswith("__"):
            if isinstance(n.ctx, (ast.Store, ast.Del)):
                out.add(f"_{cname}{n.attr}")
        elif isinstance(n, ast.FunctionDef) and n.name.startswith("__") and not n.name.endswith("__"):
            out.add(f"_{cname}{n.name}")
        elif isinstance(n, ast.Name) and isinstance(n.ctx, ast.Store) and n.id.startswith("__") and not n.id.endswith("__"):
            out.add(f"_{cname}{n.id}")
    return out


_all_strings_cache: dict = {}


def _all_strings(prog: Program) -> set:
    k = id(prog)
    if k not in _all_strings_cache:
        s = set()
        for m in prog.modules.values():
            for n in ast.walk(m.tree):
                if isinstance(n, ast.Constant) and isinstance(n.value, str):
                    s.add(n.value)
        _all_strings_cache[k] = s
    return _all_strings_cache[k]


def g3_mangled(ctx: Ctx, classes, rule="G3"):
    n = 0
    strs = _all_strings(ctx.prog)
    for c in classes:
        defined = class_private_stores(ctx.prog, c)
        cname = c.name.lstrip("_")
        for f in c.all_funcs():
            for node in walk_own(f.node):
                if isinstance(node, ast.Attribute) and node.attr.startswith("__") and not node.attr.endswith("__") \
                        and isinstance(node.ctx, ast.Load):
                    m = f"_{cname}{node.attr}"
                    n += 1
                    ok = m in defined or m in strs
                    ctx.ob(rule, f"{f.short}: {node.attr}", ok,
                           "" if ok else f"reads {ast.unparse(node)} = '{m}', which class {c.name} never defines "
                           f"(privates of {c.name}: {sorted(defined)})",
                           ctx.prog.loc(f, node), node)
            ctx.touch(f)
    return n


# --------------------------------------------------------------------------- G7
def _returns(fnode):
    return [s for s in walk_own(fnode) if isinstance(s, ast.Return) and s.value is not None]


def getter_field(f: Func):
    """The single `self.F` a getter returns (directly or through `.value`/call/cast), else None."""
    rets = _returns(f.node)
    fields = set()
    for r in rets:
        v = r.value
        # unwrap attribute chains/calls on self.F: self.F, self.F.value, self.F.peek(), float(self.F)
        names = {n.attr for n in ast.walk(v) if is_self_attr(n)}
        if len(names) != 1:
            return None
        fields |= names
    if len(fields) == 1:
        return next(iter(fields))
    return None


def setter_stores(prog: Program, f: Func, depth=0):
    """Fields stored by a setter: direct, through (`self.F.data = v`, `.value`, `.push(v)`,
    `.fill_`), plus re-entry through other setters of the same class and fset delegation."""
    direct, through, deleg, reenter = set(), set(), False, set()
    for n in walk_own(f.node):
        if isinstance(n, ast.Attribute) and isinstance(n.ctx, ast.Store):
            if is_self_attr(n):
                direct.add(n.attr)
            elif is_self_attr(n.value):
                through.add(n.value.attr)
        elif isinstance(n, ast.Subscript) and isinstance(n.ctx, ast.Store) and is_self_attr(n.value):
            through.add(n.value.attr)
        elif isinstance(n, ast.Call):
            fn = n.func
            if isinstance(fn, ast.Attribute):
                if fn.attr in ("fset", "__set__"):
                    deleg = True
                elif is_self_attr(fn.value) and (fn.attr.endswith("_") or fn.attr in ("push", "write", "insert", "reconstrain", "register", "deregister")):
                    through.add(fn.value.attr)
                elif fn.attr in ("__setattr__",):
                    deleg = True
            if isinstance(fn, ast.Name) and fn.id == "setattr":
                if len(n.args) >= 2 and isinstance(n.args[1], ast.Constant):
                    direct.add(str(n.args[1].value))
                else:
                    deleg = True
            if isinstance(fn, ast.Attribute) and fn.attr in ("register_buffer", "register_parameter", "register_extra", "register_module") \
                    and n.args and isinstance(n.args[0], ast.Constant):
                direct.add(str(n.args[0].value))
    if f.cls is not None and depth < 3:
        for d in list(direct):
            sf = f.cls.find_prop(d, "set")
            if sf is not None and sf is not f:
                dd, tt, dl, _ = setter_stores(prog, sf, depth + 1)
                reenter |= dd | tt
                deleg = deleg or dl
    return direct, through, deleg, reenter


def g7_getset(ctx: Ctx, classes, rule="G7"):
    n = 0
    for c in classes:
        for pname, fs in c.props.items():
            g, s = fs.get("get"), fs.get("set")
            if s is None:
                continue
            if g is None:
                g = c.find_prop(pname, "get")
            if g is None:
                continue
            body = strip_doc(s.node.body)
            if all(isinstance(b, ast.Pass) for b in body):
                continue
            n += 1
            fld = getter_field(g)
            direct, through, deleg, reenter = setter_stores(ctx.prog, s)
            if fld is None or deleg or not (direct or through):
                ctx.ob(rule, f"{c.name}.{pname}", True,
                       "getter computes a derived value or setter delegates (fset/setattr)", s.where, None)
                continue
            m = c.mangle(fld)
            stored = direct | through | reenter
            ok = fld in stored or m in stored
            ctx.ob(rule, f"{c.name}.{pname}", ok,
                   f"getter returns self.{fld}; setter stores {sorted(stored)}" if not ok
                   else f"getter reads and setter stores self.{fld}", s.where, None)
            ctx.touch(g, s)
    return n


# --------------------------------------------------------------------------- G9
def g9_self_recursion(ctx: Ctx, scope, rule="G9"):
    from .cfg import CFG
    n = 0
    for f in scope:
        selfcalls = []
        for call in ctx.prog.calls_in(f):
            r = ctx.prog.resolve_call(f, call)
            if r is not None and r[0] is f:
                # same receiver: self.f(...) / f(...)
                selfcalls.append(call)
        n += 1
        if not selfcalls:
            ctx.ob(rule, f.short, True, "no call resolves to the function itself", f.where)
            continue
        g = CFG(f.node)
        nodes = g.stmt_nodes_calling(lambda c: c in selfcalls)
        ok = not g.must_pass(nodes) or g.exit not in g.reachable(g.entry)
        ctx.ob(rule, f.short, ok,
               "" if ok else f"every path to a return passes through a call to {f.short} itself (unbounded recursion)",
               ctx.prog.loc(f, selfcalls[0]), selfcalls[0])
    return n


# --------------------------------------------------------------------------- G10
def g10_identical_arms(ctx: Ctx, scope, rule="G10"):
    n = 0
    for f in scope:
        params = {a.arg for a in f.node.args.posonlyargs + f.node.args.args + f.node.args.kwonlyargs}
        for node in walk_own(f.node):
            a = b = test = None
            if isinstance(node, ast.IfExp):
                a, b, test = ast.unparse(node.body), ast.unparse(node.orelse), node.test
            elif isinstance(node, ast.If) and node.orelse:
                a = "\n".join(ast.unparse(s) for s in node.body)
                b = "\n".join(ast.unparse(s) for s in node.orelse)
                test = node.test
            else:
                continue
            n += 1
            same = a == b
            dead = []
            if same:
                tnames = {x.id for x in ast.walk(test) if isinstance(x, ast.Name)} & params
                for p in tnames:
                    # loads that see the *parameter's* value: those up to (and inside) the first statement rebinding the name
                    first = None
                    for st in walk_ordered(f.node):
                        if isinstance(st, (ast.Assign, ast.AugAssign, ast.AnnAssign)):
                            tg = st.targets if isinstance(st, ast.Assign) else [st.target]
                            names = {y.id for t in tg for y in ast.walk(t) if isinstance(y, ast.Name)}
                            if p in names:
                                first = st
                                break
                    limit = (first.end_lineno, first.end_col_offset) if first is not None else (10 ** 9, 0)
                    uses = [x for x in walk_own(f.node) if isinstance(x, ast.Name) and x.id == p and isinstance(x.ctx, ast.Load)
                            and (x.lineno, x.col_offset) <= limit]
                    intest = [x for x in ast.walk(test) if isinstance(x, ast.Name) and x.id == p]
                    if uses and all(any(x is y for y in intest) for x in uses):
                        dead.append(p)
            ctx.ob(rule, f"{f.short}: {ast.unparse(test)[:40]}", not (same and dead),
                   "" if not (same and dead) else
                   f"both arms are `{a[:60]}`; parameter(s) {dead} are used only in the test, so they cannot influence the result",
                   ctx.prog.loc(f, node), node)
    return n


# --------------------------------------------------------------------------- G11
def g11_einops(ctx: Ctx, scope, rule="G11"):
    n = 0
    for f in scope:
        for call in ctx.prog.calls_in(f):
            d = dotted(call.func)
            if d is None or not (d.startswith("ein.") or d.startswith("einops.")):
                continue
            op = d.split(".")[-1]
            if op not in ("rearrange", "einsum", "reduce", "repeat"):
                continue
            pats = [a.value for a in call.args if isinstance(a, ast.Constant) and isinstance(a.value, str)]
            if not pats:
                continue
            n += 1
            kw = {k.arg for k in call.keywords if k.arg}
            nops = len([a for a in call.args if not (isinstance(a, ast.Constant) and isinstance(a.value, str))])
            msgs = einops_alg.wellformed(op, pats[0], kw, nops)
            ctx.ob(rule, f"{f.short}: {op} '{pats[0]}'", not msgs, "; ".join(msgs), ctx.prog.loc(f, call), call)
        ctx.touch(f)
    return n


# --------------------------------------------------------------------------- G6
def g6_mapping_iter(ctx: Ctx, scope, dict_attrs: dict, rule="G6"):
    """`for x in self.<dict-typed attr>` followed by `x.<method>()`: iterating a mapping yields keys (str).

    dict_attrs: class name -> set of attribute names certainly typed ModuleDict/dict in its MRO.
    """
    n = 0
    for f in scope:
        if f.cls is None:
            continue
        attrs = set()
        for c in f.cls.mro:
            attrs |= dict_attrs.get(c.name, set())
        for node in walk_own(f.node):
            if not (isinstance(node, ast.For) and isinstance(node.target, ast.Name)):
                continue
            it, view = node.iter, None
            if isinstance(it, ast.Call) and isinstance(it.func, ast.Attribute) and it.func.attr in ("values", "keys") and not it.args:
                it, view = it.func.value, it.func.attr
            if not (is_self_attr(it) and it.attr in attrs):
                continue
            n += 1
            var = node.target.id
            bad = []
            if view != "values":
                bad = [x for b in node.body for x in ast.walk(b)
                       if isinstance(x, ast.Call) and isinstance(x.func, ast.Attribute) and isinstance(x.func.value, ast.Name)
                       and x.func.value.id == var and not hasattr(str, x.func.attr)]
            ctx.ob(rule, f"{f.short}: for {var} in self.{it.attr}", not bad,
                   f"iterates the mapping's {'values' if view == 'values' else 'keys'}" if not bad else
                   f"self.{it.attr} is a mapping: iteration yields its string keys, "
                   f"but the body calls {var}.{bad[0].func.attr}() (missing .values())",
                   ctx.prog.loc(f, node), node.iter)
    return n


def dict_typed_attrs(prog: Program) -> dict:
    """Attributes assigned `nn.ModuleDict(...)` / `dict(...)` / `{}` in a constructor."""
    out = {}
    for c in prog.all_classes:
        init = c.methods.get("__init__")
        if not init:
            continue
        for n in walk_own(init.node):
            if isinstance(n, ast.Assign) and len(n.targets) == 1 and is_self_attr(n.targets[0]):
                v = n.value
                d = dotted(v.func) if isinstance(v, ast.Call) else None
                if isinstance(v, ast.Dict) or d in ("nn.ModuleDict", "torch.nn.ModuleDict", "dict", "OrderedDict", "nn.ParameterDict"):
                    out.setdefault(c.name, set()).add(n.targets[0].attr)
    return out


# --------------------------------------------------------------------------- G5
def g5_property_called(ctx: Ctx, scope, rule="G5"):
    """Calling the value of a property (`self.p()` where p is a @property returning a non-callable),
    iterating a bound method, assigning over a method."""
    n = 0
    for f in scope:
        if f.cls is None:
            continue
        for node in walk_own(f.node):
            if isinstance(node, ast.Call) and is_self_attr(node.func):
                name = node.func.attr
                owner = f.cls.prop_owner(name)
                if owner is not None:
                    g = owner.props[name].get("get")
                    ann = ast.unparse(g.node.returns) if g is not None and g.node.returns is not None else ""
                    callable_ret = any(k in ann for k in ("Callable", "OneToOne", "ManyToOne", "Protocol", "type[", "Module", "Interpolation", "Extrapolation", "Fn", "partial")) or ann == ""
                    n += 1
                    ctx.ob(rule, f"{f.short}: self.{name}()", callable_ret,
                           "" if callable_ret else f"'{name}' is a property of {owner.name} returning {ann}; its value is called like a method",
                           ctx.prog.loc(f, node), node)
            # iterating a bound method / attribute of it
            if isinstance(node, (ast.For, ast.comprehension)):
                it = node.iter
                tgt = it
                if isinstance(tgt, ast.Attribute) and not isinstance(tgt, ast.Call):
                    base = tgt.value
                    # self.X.values  (no call) where .values/.items/.keys are methods
                    if tgt.attr in ("values", "items", "keys"):
                        n += 1
                        ctx.ob(rule, f"{f.short}: iterate {ast.unparse(it)}", False,
                               f"`{ast.unparse(it)}` is a bound method (not called); iterating it raises TypeError",
                               ctx.prog.loc(f, node.iter), it)
                    elif is_self_attr(tgt) and f.cls.find_method(tgt.attr) is not None and f.cls.prop_owner(tgt.attr) is None:
                        n += 1
                        ctx.ob(rule, f"{f.short}: iterate {ast.unparse(it)}", False,
                               f"`{ast.unparse(it)}` is a method of {f.cls.name}; iterating it raises TypeError",
                               ctx.prog.loc(f, node.iter), it)
        ctx.touch(f)
    return n


# --------------------------------------------------------------------------- G8
def g8_derived_state(ctx: Ctx, classes, rule="G8"):
    """`self.A = f(self.p)` in __init__ (p a settable property, A plain attribute): p's setter as resolved on the
    class must re-assign self.A with a term of the same normal form."""
    from . import terms, nf
    n = 0
    for c in classes:
        init = c.methods.get("__init__")
        if init is None:
            continue
        for st in strip_doc(init.node.body):
            if not (isinstance(st, ast.Assign) and len(st.targets) == 1 and is_self_attr(st.targets[0])):
                continue
            a = st.targets[0].attr
            if a.startswith("__") or c.prop_owner(a) is not None:
                continue
            props = sorted({x.attr for x in ast.walk(st.value) if is_self_attr(x) and isinstance(x.ctx, ast.Load)
                            and c.find_prop(x.attr, "set") is not None and c.find_prop(x.attr, "get") is not None})
            for p in props:
                setter = c.find_prop(p, "set")
                n += 1
                b0 = terms.Builder(ctx.prog, init, inline_depth=0)
                want = b0.t(st.value)
                stores = [s for s in walk_own(setter.node) if isinstance(s, ast.Assign) and any(is_self_attr(t, a) for t in s.targets)]
                ok = False
                got = None
                for s in stores:
                    b1 = terms.Builder(ctx.prog, setter, inline_depth=0)
                    got = b1.t(s.value)
                    if nf.equal(want, got):
                        ok = True
                ctx.ob(rule, f"{c.name}.{a} derived from {p}", ok,
                       f"constructor computes self.{a} = {nf.show(want)[:120]}; setter {setter.short} "
                       + ("recomputes the same term" if ok else
                          (f"recomputes {nf.show(got)[:120]}" if got is not None else f"never re-assigns self.{a}, so it keeps the value for the old {p}")),
                       setter.where, st)
                if ok and stores:
                    # the recomputation must read the *new* value of p: it has to follow the statement that updates p
                    from .cfg import CFG
                    g = CFG(setter.node)
                    upd = g.stmt_nodes_calling(lambda c_: isinstance(c_.func, ast.Attribute) and c_.func.attr == "fset")
                    gf = getter_field(c.find_prop(p, "get")) if c.find_prop(p, "get") else None
                    upd += [n_ for n_ in g.nodes if n_.kind == "stmt" and isinstance(n_.ast, ast.Assign) and gf and is_self_attr(n_.ast.targets[0], gf)]
                    rec = [n_ for n_ in g.nodes if n_.kind == "stmt" and n_.ast in stores]
                    ordered = bool(upd) and g.always_before(upd, rec)
                    ctx.ob(rule, f"{c.name}.{a}: recomputed after {p} is updated", ordered,
                           "" if ordered else f"self.{a} is recomputed before the new {p} is stored: it is derived from the old value and stays stale",
                           setter.where, st)
                ctx.touch(init, setter)
    return n


# --------------------------------------------------------------------------- light types
def attr_types(prog: Program, c: ClassInfo) -> dict:
    """`self.A = ClassName(...)` in a constructor of the MRO: attribute A is certainly a ClassName."""
    out = {}
    for k in reversed(c.mro):
        init = k.methods.get("__init__")
        if not init:
            continue
        for n in walk_own(init.node):
            if isinstance(n, ast.Assign) and len(n.targets) == 1 and is_self_attr(n.targets[0]) and isinstance(n.value, ast.Call):
                r = prog.resolve_expr(k.module.name, n.value.func)
                if r and r[0] == "class":
                    out[n.targets[0].attr] = r[1]
    return out


NON_CALLABLE_ANN = ("Iterator", "Iterable", "Generator", "tuple", "list", "dict", "int", "float", "bool", "str", "torch.Tensor", "Tensor")


def g5_typed_property_call(ctx: Ctx, scope, rule="G5"):
    """`self.A.p()` where A is certainly typed (constructor) and p is a property of that type whose annotation
    is not callable."""
    n = 0
    for f in scope:
        if f.cls is None:
            continue
        types = attr_types(ctx.prog, f.cls)
        for node in walk_own(f.node):
            if isinstance(node, ast.Call) and isinstance(node.func, ast.Attribute) and is_self_attr(node.func.value) \
                    and node.func.value.attr in types:
                t = types[node.func.value.attr]
                name = node.func.attr
                owner = t.prop_owner(name)
                n += 1
                if owner is None:
                    has = t.find_method(name) is not None or any(b for b in t.ext_bases)
                    ctx.ob(rule, f"{f.short}: self.{node.func.value.attr}.{name}()", True, f"{name} is a method of {t.name}", ctx.prog.loc(f, node), node)
                    continue
                g = owner.props[name].get("get")
                ann = ast.unparse(g.node.returns) if g is not None and g.node.returns is not None else ""
                bad = any(ann == k or ann.startswith(k + "[") for k in NON_CALLABLE_ANN)
                ctx.ob(rule, f"{f.short}: self.{node.func.value.attr}.{name}()", not bad,
                       "" if not bad else f"'{name}' is a property of {t.name} returning {ann}; calling its value raises TypeError",
                       ctx.prog.loc(f, node), node)
    return n


# --------------------------------------------------------------------------- G18  dead parameter (G12 is the precondition rule of C13.c)
# A named parameter that the body never reads cannot influence the result: when the signature documents it as an option
# (not as a slot of a protocol) the option is silently ignored.  Exempt: stubs / abstract methods, methods overriding a
# base-class method that has the same parameter (signature conformance), and the protocol tables below.
G12_PROTOCOL_PREFIXES = ("interp_", "extrap_")           # Interpolation / Extrapolation protocol functions
G12_PROTOCOL_METHODS = {"_monitor_call", "_monitor_pre_call", "_monitor_post_call", "interpolate", "extrapolate", "fold",
                        "forward", "__call__", "__exit__", "__torch_function__"}
G12_EXEMPT = {
    ("DifferenceMonitor.partialconstructor", "op_"): "outside the twenty properties: no trainer or component they cover builds a DifferenceMonitor (noted in DESIGN 6 as an observation)",
}


def _is_stub(node) -> bool:
    body = strip_doc(node.body)
    return not body or all(isinstance(s, (ast.Pass, ast.Raise)) or (isinstance(s, ast.Expr) and isinstance(s.value, ast.Constant)) for s in body)


def g12_dead_parameter(ctx: Ctx, scope, rule="G18"):
    n = 0
    for f in scope:
        node = f.node
        if _is_stub(node) or any("abstractmethod" in ast.unparse(d) or "overload" in ast.unparse(d) for d in node.decorator_list):
            continue
        a = node.args
        params = [x.arg for x in a.posonlyargs + a.args + a.kwonlyargs]
        used = {x.id for x in ast.walk(node) if isinstance(x, ast.Name) and isinstance(x.ctx, (ast.Load, ast.Del))}
        if any(isinstance(x, ast.Call) and isinstance(x.func, ast.Name) and x.func.id in ("locals", "vars") for x in ast.walk(node)):
            continue
        for p in params:
            if p in ("self", "cls") or p.startswith("_") or p in used:
                continue
            if f.name.startswith(G12_PROTOCOL_PREFIXES) or f.name in G12_PROTOCOL_METHODS:
                continue
            if f.cls is not None and any(b is not f.cls and p in _params_of(b.methods.get(f.name)) for b in f.cls.mro):
                continue
            n += 1
            why = G12_EXEMPT.get((f.short, p))
            ctx.ob(rule, f"{f.short}: parameter '{p}' is read", why is not None,
                   f"exempt: {why}" if why else f"parameter '{p}' is never read in the body: the documented option has no effect", f.where, node)
    return n


def _params_of(fn):
    if fn is None:
        return ()
    a = fn.node.args
    return [x.arg for x in a.posonlyargs + a.args + a.kwonlyargs]


# --------------------------------------------------------------------------- G13  in-place update of state that is not owned
# `x *= w`, `x.mul_(w)`, `x.add_(...)` on a tensor the function did not create modifies whoever owns it: a connection
# scaling the synapse's stored current in place, a synapse decaying the view of its own history record.  Owned = created
# in this function by arithmetic / a creating call, or a plain private field of self.  Not owned = a parameter, the value of
# a property (views of records), the result of calling a component, or any view (view / reshape / rearrange / indexing) of
# those.  Updates guarded by the documented `inplace` option are the component's own in-place mode and are exempt.
_VIEW_METHODS = {"view", "reshape", "unsqueeze", "squeeze", "expand", "expand_as", "permute", "transpose", "t", "detach", "flatten",
                 "unflatten", "narrow", "select", "unfold", "movedim", "swapaxes", "view_as", "contiguous", "to", "float", "double",
                 "half", "bool", "long", "int", "type", "requires_grad_", "rearrange"}
_TORCH_INPLACE = {"add_", "sub_", "mul_", "div_", "fill_", "zero_", "copy_", "clamp_", "clamp_min_", "clamp_max_", "scatter_", "scatter_add_",
                  "index_put_", "masked_fill_", "masked_scatter_", "exponential_", "normal_", "uniform_", "bernoulli_", "random_", "pow_", "neg_",
                  "exp_", "log_", "sqrt_", "abs_", "floor_", "ceil_", "round_", "trunc_", "logical_and_", "logical_or_", "logical_not_",
                  "addcmul_", "addcdiv_", "lerp_", "index_add_", "index_fill_", "index_copy_", "set_", "resize_", "t_", "transpose_",
                  "squeeze_", "unsqueeze_", "sigmoid_", "tanh_", "relu_", "fmod_", "remainder_", "sign_", "reciprocal_", "cumsum_", "detach_",
                  "nan_to_num_", "where_", "bitwise_and_", "bitwise_or_", "bitwise_not_", "mul", "true_divide_", "floor_divide_", "sort_"} - {"mul"}


def _is_inplace_method(name: str) -> bool:
    return name in _TORCH_INPLACE


def _owned_expr(ctx, f, e, env, depth=0, _seen=None) -> bool:
    """True when the value of e is a tensor created inside f (so an in-place update cannot be seen elsewhere)."""
    _seen = set() if _seen is None else _seen
    if id(e) in _seen:
        return True                 # a definition in terms of itself (x = x.op_()): decided by the other definitions
    if depth > 12:
        return False
    if not isinstance(e, ast.Name):
        _seen = _seen | {id(e)}
    if isinstance(e, (ast.BinOp, ast.UnaryOp, ast.Compare, ast.BoolOp, ast.Constant, ast.List, ast.Tuple, ast.ListComp, ast.JoinedStr)):
        return True
    if isinstance(e, ast.IfExp):
        return _owned_expr(ctx, f, e.body, env, depth + 1, _seen) and _owned_expr(ctx, f, e.orelse, env, depth + 1, _seen)
    if isinstance(e, ast.Name):
        defs = env.get(e.id)
        if defs is None:
            return False            # parameter / global
        return all(_owned_expr(ctx, f, d, env, depth + 1, _seen) for d in defs)
    if isinstance(e, ast.Subscript):
        return False if not isinstance(e.value, ast.Name) else (_owned_expr(ctx, f, e.value, env, depth + 1, _seen))
    if isinstance(e, ast.Attribute):
        if isinstance(e.value, ast.Name) and e.value.id == "self" and f.cls is not None:
            # a plain field of self is the object's own state; a property may hand out a view of a record
            # (the tensor containers of core.infrastructure own the storage behind their `value` property)
            if f.cls.is_subclass_of("ShapedTensor") or f.cls.name in ("ShapedTensor", "VirtualTensor"):
                return True
            return f.cls.find_prop(e.attr, "get") is None and not e.attr.endswith("_")
        return False
    if isinstance(e, ast.Call):
        fn = e.func
        if isinstance(fn, ast.Attribute):
            if fn.attr in _VIEW_METHODS:
                return _owned_expr(ctx, f, fn.value, env, depth + 1, _seen)
            base = dotted(fn.value)
            if base in ("torch", "F", "torch.nn.functional", "math", "ein", "einops", "torch.special", "torch.linalg"):
                if fn.attr == "rearrange":
                    return bool(e.args) and _owned_expr(ctx, f, e.args[0], env, depth + 1, _seen)
                return fn.attr not in ("as_tensor", "from_numpy", "asarray", "as_strided", "squeeze", "unsqueeze", "reshape", "flatten", "broadcast_to")
            if _is_inplace_method(fn.attr):
                return _owned_expr(ctx, f, fn.value, env, depth + 1, _seen)
            r = ctx.prog.resolve_call(f, e)
            if r is not None:
                return False        # result of a component / repo function: may be a view of its state
            # tensor method producing a new tensor (sum, mean, exp, clone, abs, where, new_zeros, ...)
            return not isinstance(fn.value, ast.Name) or fn.value.id != "self"
        if isinstance(fn, ast.Name):
            if fn.id in ("float", "int", "bool", "len", "abs", "max", "min", "sum", "tuple", "list", "range", "zeros", "ones", "full", "empty",
                         "zeros_like", "ones_like", "full_like", "empty_like", "fullc", "scalar", "uniform", "normal"):
                return True
            return False
    return False


def _local_defs(f):
    env = {}
    for n in walk_own(f.node):
        tgts = []
        if isinstance(n, ast.Assign):
            tgts = [(t, n.value) for t in n.targets]
        elif isinstance(n, ast.AnnAssign) and n.value is not None:
            tgts = [(n.target, n.value)]
        elif isinstance(n, (ast.For, ast.AsyncFor)):
            tgts = [(n.target, ast.Call(func=ast.Name(id="__iter_of__", ctx=ast.Load()), args=[n.iter], keywords=[]))]
        elif isinstance(n, ast.NamedExpr):
            tgts = [(n.target, n.value)]
        for t, v in tgts:
            if isinstance(t, ast.Name):
                env.setdefault(t.id, []).append(v)
            elif isinstance(t, (ast.Tuple, ast.List)):
                for i, el in enumerate(t.elts):
                    if isinstance(el, ast.Name):
                        sub = v.elts[i] if isinstance(v, (ast.Tuple, ast.List)) and len(v.elts) == len(t.elts) else ast.Call(func=ast.Name(id="__unpack__", ctx=ast.Load()), args=[v], keywords=[])
                        env.setdefault(el.id, []).append(sub)
    return env


def g13_inplace_alias(ctx: Ctx, scope, rule="G13"):
    from .cfg import CFG
    n = 0
    for f in scope:
        sites = []
        for x in walk_own(f.node):
            if isinstance(x, ast.AugAssign) and isinstance(x.target, (ast.Name, ast.Attribute)):
                sites.append((x, x.target, f"`{ast.unparse(x)[:50]}`"))
            elif isinstance(x, ast.Call) and isinstance(x.func, ast.Attribute) and _is_inplace_method(x.func.attr) and x.func.attr not in ("requires_grad_",):
                sites.append((x, x.func.value, f"`{ast.unparse(x)[:50]}`"))
        if not sites:
            continue
        env = _local_defs(f)
        g = None
        for node, recv, text in sites:
            if isinstance(recv, ast.Attribute) and isinstance(recv.value, ast.Name) and recv.value.id == "self" and isinstance(node, ast.AugAssign) \
                    and f.cls is not None and f.cls.find_prop(recv.attr, "get") is None:
                continue            # counter / plain field of self
            owned = _owned_expr(ctx, f, recv, env)
            guarded = False
            if not owned:
                g = g or CFG(f.node)
                cn = g.node_of(node)
                if cn is not None:
                    for t, lab in g.guards_of(cn):
                        names = {y.attr if isinstance(y, ast.Attribute) else y.id for y in ast.walk(t) if isinstance(y, (ast.Attribute, ast.Name))}
                        if "inplace" in names and lab == "T":
                            guarded = True
                # conditional expression `a.mul_(b) if self.inplace else a.mul(b)`
                for p in walk_own(f.node):
                    if isinstance(p, ast.IfExp) and any(y is node for y in ast.walk(p.body)) and "inplace" in ast.unparse(p.test):
                        guarded = True
            n += 1
            ctx.ob(rule, f"{f.short}: in-place update {text} acts on a tensor this function owns", owned or guarded,
                   "" if owned else ("guarded by the component's documented `inplace` option" if guarded else
                                     f"`{ast.unparse(recv)[:40]}` is a parameter, a property value or a view of another component's state: "
                                     f"updating it in place changes that state (stored history, the caller's tensor) behind its owner's back"),
                   ctx.prog.loc(f, node), node)
    return n


# --------------------------------------------------------------------------- G14  exact comparison through a conversion
# `a == b` between stored quantities is exact only if neither side went through a conversion that can round
# (`torch.as_tensor(python float)` is float32; `.float()`, `.to(dtype)`, `.half()`): a double-precision state compared with
# its own single-precision copy is never equal.
_ROUNDING_CALLS = {"as_tensor", "tensor", "scalar_tensor", "float", "half", "bfloat16"}


def g14_exact_compare(ctx: Ctx, scope, rule="G14"):
    n = 0
    for f in scope:
        env = None
        for x in walk_own(f.node):
            if not (isinstance(x, ast.Compare) and len(x.ops) == 1 and isinstance(x.ops[0], (ast.Eq, ast.NotEq))):
                continue
            sides = [x.left, x.comparators[0]]
            env = env or _local_defs(f)

            def unwrap(e, seen):
                """Strip conversion calls (and single-definition locals); returns (core expression, conversions passed)."""
                conv = []
                for _ in range(8):
                    if isinstance(e, ast.Name) and e.id in env and len(env[e.id]) == 1 and e.id not in seen:
                        seen.add(e.id)
                        e = env[e.id][0]
                        continue
                    if isinstance(e, ast.Call):
                        nm = e.func.attr if isinstance(e.func, ast.Attribute) else (e.func.id if isinstance(e.func, ast.Name) else "")
                        is_to = nm == "to" and (any(k.arg == "dtype" for k in e.keywords) or e.args)
                        if nm in _ROUNDING_CALLS or is_to:
                            conv.append(nm)
                            if isinstance(e.func, ast.Attribute) and not (isinstance(e.func.value, ast.Name) and e.func.value.id in ("torch",)):
                                e = e.func.value
                            elif e.args:
                                e = e.args[0]
                            else:
                                break
                            continue
                    break
                return e, conv

            def statey(e):
                return isinstance(e, (ast.Attribute, ast.Name)) or (isinstance(e, ast.Call) and dotted(e.func) in ("getattr", "rgetattr"))
            cores = [unwrap(s_, set()) for s_ in sides]
            if not all(statey(c_) for c_, _ in cores) or any(isinstance(c_, ast.Name) and c_.id in ("self", "cls") for c_, _ in cores):
                continue
            if not any(isinstance(c_, ast.Attribute) and isinstance(c_.value, ast.Name) and c_.value.id == "self" for c_, _ in cores):
                continue
            bad = [f"`{ast.unparse(s_)[:50]}` passes through `{cv[0]}`" for s_, (_, cv) in zip(sides, cores) if cv]
            n += 1
            ctx.ob(rule, f"{f.short}: exact comparison `{ast.unparse(x)[:50]}` compares unconverted values", not bad,
                   "; ".join(bad) + ": a conversion that can round makes an exact comparison fail for values the narrower type cannot represent" if bad else "",
                   ctx.prog.loc(f, x), x)
    return n


# --------------------------------------------------------------------------- G2b  role tokens
# A callee whose name carries one token of an opposing pair (kernel_pre, lr_post, bound_upper ...) is handed only values of
# its own role: an argument named after the opposite role (and not also after the callee's) is a crossed wire.
ROLE_PAIRS = (("pre", "post"), ("pos", "neg"), ("upper", "lower"))


def _tokens(name: str) -> set:
    return set(re.split(r"[_\d]+", name.lower()))


def g2b_role_tokens(ctx: Ctx, scope, rule="G2b"):
    n = 0
    for f in scope:
        for c in walk_own(f.node):
            if not isinstance(c, ast.Call):
                continue
            nm = c.func.attr if isinstance(c.func, ast.Attribute) else (c.func.id if isinstance(c.func, ast.Name) else "")
            t = _tokens(nm)
            for a, b in ROLE_PAIRS:
                for mine, other in ((a, b), (b, a)):
                    if mine in t and other not in t:
                        names = set()
                        for x in list(c.args) + [k.value for k in c.keywords]:
                            for y in ast.walk(x):
                                if isinstance(y, ast.Attribute):
                                    names.add(y.attr)
                                elif isinstance(y, ast.Name):
                                    names.add(y.id)
                        opp = sorted(x for x in names if other in _tokens(x) and mine not in _tokens(x))
                        n += 1
                        ctx.ob(rule, f"{f.short}: `{nm}(...)` receives values of the '{mine}' role only", not opp,
                               f"argument(s) {opp} belong to the '{other}' role" if opp else "", ctx.prog.loc(f, c), c)
    return n


# --------------------------------------------------------------------------- G15  loop variable used after its loop
# A name bound only as the target of a `for` and read after that loop holds whatever the last iteration left (or is
# unbound when the iterable was empty): in a constructor that walks two argument lists this wires the second list's
# elements to the *last* element of the first.
def _for_targets(t):
    if isinstance(t, ast.Name):
        yield t.id
    elif isinstance(t, (ast.Tuple, ast.List)):
        for e in t.elts:
            yield from _for_targets(e)
    elif isinstance(t, ast.Starred):
        yield from _for_targets(t.value)


def _is_target(lp, name_node) -> bool:
    return any(x is name_node for x in ast.walk(lp.target))


def g15_leaked_loop_variable(ctx: Ctx, scope, rule="G15"):
    n = 0
    for f in scope:
        loops = [x for x in walk_own(f.node) if isinstance(x, (ast.For, ast.AsyncFor))]
        if not loops:
            continue
        a = f.node.args
        params = {x.arg for x in a.posonlyargs + a.args + a.kwonlyargs}
        order = {}

        def _number(node):
            order[id(node)] = len(order)
            for ch in ast.iter_child_nodes(node):
                _number(ch)
        _number(f.node)
        spans = []      # (first index, last index, names bound) per loop
        for lp in loops:
            idx = [order[id(y)] for y in ast.walk(lp) if not isinstance(y, ast.expr_context) and id(y) in order]
            spans.append((min(idx), max(idx), set(_for_targets(lp.target)) - {"_"} - params, lp))
        names = set().union(*[sp[2] for sp in spans]) if spans else set()
        plain_stores = {}
        for y in walk_own(f.node):
            if isinstance(y, ast.Name) and isinstance(y.ctx, ast.Store) and y.id in names:
                k = order[id(y)]
                if not any(lo <= k <= hi and y.id in nb and _is_target(lp_, y) for lo, hi, nb, lp_ in spans):
                    plain_stores.setdefault(y.id, []).append(k)
        for nm in sorted(names):
            n += 1
            bad = None
            for y in walk_own(f.node):
                if not (isinstance(y, ast.Name) and y.id == nm and isinstance(y.ctx, ast.Load)):
                    continue
                k = order[id(y)]
                if any(lo <= k <= hi and nm in nb for lo, hi, nb, _ in spans):
                    continue            # inside a loop that binds the name
                ended = [hi for lo, hi, nb, _ in spans if nm in nb and hi < k]
                if not ended:
                    continue
                if any(max(ended) < st < k for st in plain_stores.get(nm, ())):
                    continue            # rebound by an ordinary assignment after the loop
                bad = y
                break
            ctx.ob(rule, f"{f.short}: loop variable '{nm}' is not read after its loop", bad is None,
                   f"'{nm}' is read at line {bad.lineno} after the loop that binds it ended: it holds the last element of that iteration, not a value of its own" if bad is not None else "",
                   ctx.prog.loc(f, bad) if bad is not None else f.where, bad)
    return n


# --------------------------------------------------------------------------- G16  mode switch assigns the same fields in both arms
# A setter of the form `if <mode A>: self.x = ...; self.flag = True  else: self.x = ...; self.flag = False` keeps x and its
# mode flag in step; an arm that leaves one of the fields alone lets the flag of the previous mode survive.
def g16_symmetric_arms(ctx: Ctx, scope, rule="G16"):
    n = 0

    def stored(stmts):
        s = set()
        for st in stmts:
            for y in ast.walk(st):
                if isinstance(y, ast.Attribute) and isinstance(y.ctx, ast.Store) and isinstance(y.value, ast.Name) and y.value.id == "self":
                    s.add(y.attr)
        return s
    for f in scope:
        if f.kind != "setter":
            continue
        for x in walk_own(f.node):
            if isinstance(x, ast.If) and x.orelse:
                a, b = stored(x.body), stored(x.orelse)
                if not a or not b:
                    continue
                n += 1
                ctx.ob(rule, f"{f.short}: both arms of `if {ast.unparse(x.test)[:40]}` store the same fields", a == b,
                       "" if a == b else f"one arm stores {sorted(a)}, the other {sorted(b)}: {sorted(a ^ b)} keeps the value of the previous mode",
                       ctx.prog.loc(f, x), x)
    return n


# --------------------------------------------------------------------------- G17  keyword receives its namesake
# `f(..., eval_update=train_update)` inside a function that itself has a parameter `eval_update`: the keyword was handed a
# sibling of its namesake (copy / paste of the line above).  Fires only when both names are parameters of the enclosing
# function (or of the function it is nested in), so ordinary renaming at a call boundary is not touched.
G17_EXEMPT = {
    ("holt_linear_smoothing", "alpha", "beta"): "the trend series is smoothed with its own factor beta: exponential_smoothing's `alpha` is the generic smoothing factor",
}


def g17_keyword_namesake(ctx: Ctx, scope, rule="G17"):
    n = 0
    for f in scope:
        a = f.node.args
        params = {x.arg for x in a.posonlyargs + a.args + a.kwonlyargs}
        for c in ast.walk(f.node):
            if not isinstance(c, ast.Call):
                continue
            for k in c.keywords:
                if k.arg and isinstance(k.value, ast.Name) and k.arg in params and k.value.id in params:
                    n += 1
                    ok = k.value.id == k.arg
                    why = G17_EXEMPT.get((f.name, k.arg, k.value.id))
                    ctx.ob(rule, f"{f.short}: keyword `{k.arg}=` of `{ast.unparse(c.func)[:40]}` receives the parameter of the same name", ok or why is not None,
                           (f"exempt: {why}" if why else f"`{k.arg}={k.value.id}`: the enclosing function has its own parameter `{k.arg}`, which is bypassed") if not ok else "",
                           ctx.prog.loc(f, c), c)
    return n
