"""Generic rule catalogue G1..G12 over the resolved program (DESIGN 3).

Each rule takes a Ctx and a *scope* (iterable of Func / ClassInfo) and records one obligation
per instance.  Rules fire only on resolved facts; unresolved callees or untyped receivers yield
no obligation.
"""
from __future__ import annotations

import ast
import re

from .model import Program, Func, ClassInfo, walk_own, dotted, is_self_attr, strip_doc, walk_ordered
from .framework import Ctx
from . import einops_alg


# --------------------------------------------------------------------------- G1
def bind_call(call: ast.Call, fn: ast.FunctionDef, skip_first: bool):
    """Bind like CPython; returns (messages, open) — open when */** make it undecidable."""
    a = fn.args
    pos = [x.arg for x in a.posonlyargs + a.args]
    posonly = {x.arg for x in a.posonlyargs}
    if skip_first and pos:
        posonly.discard(pos[0])
        pos = pos[1:]
    nd = len(a.defaults)
    req_pos = pos[: len(pos) - nd] if nd <= len(pos) else []
    kwonly = [x.arg for x in a.kwonlyargs]
    kwreq = [x.arg for x, d in zip(a.kwonlyargs, a.kw_defaults) if d is None]
    star = any(isinstance(x, ast.Starred) for x in call.args) or any(k.arg is None for k in call.keywords)
    npos = len([x for x in call.args if not isinstance(x, ast.Starred)])
    msgs = []
    if npos > len(pos) and not a.vararg:
        extra = pos[len(pos):]
        msgs.append(f"{npos} positional arguments for {len(pos)} positional parameters"
                    + (f" (keyword-only: {', '.join(kwonly)})" if kwonly else ""))
    kws = [k.arg for k in call.keywords if k.arg]
    for k in kws:
        if (k not in pos or k in posonly) and k not in kwonly and not a.kwarg:
            msgs.append(f"unknown keyword '{k}'")
        if k in pos[:npos] and not star:
            msgs.append(f"parameter '{k}' given twice")
    if len(set(kws)) != len(kws):
        msgs.append("repeated keyword")
    if not star:
        for r in req_pos[npos:]:
            if r not in kws:
                msgs.append(f"missing required argument '{r}'")
        for r in kwreq:
            if r not in kws:
                msgs.append(f"missing required keyword-only argument '{r}'")
    return msgs, star


def g1_signatures(ctx: Ctx, scope, rule="G1"):
    n = 0
    for f in scope:
        for call in ctx.prog.calls_in(f):
            r = ctx.prog.resolve_call(f, call)
            if r is None:
                continue
            callee, bound = r
            if callee.node.decorator_list and any("singledispatch" in ast.unparse(d) or "overload" in ast.unparse(d) for d in callee.node.decorator_list):
                continue
            skip = bound and callee.cls is not None and callee.kind != "static"
            msgs, _ = bind_call(call, callee.node, skip)
            n += 1
            ctx.ob(rule, f"{f.short} -> {callee.short}", not msgs,
                   "; ".join(msgs) if msgs else "arguments bind to the callee's signature",
                   ctx.prog.loc(f, call), call)
        ctx.touch(f)
    return n


# --------------------------------------------------------------------------- G2
def _stem(e):
    if isinstance(e, ast.Attribute):
        s = e.attr
    elif isinstance(e, ast.Name):
        s = e.id
    else:
        return None
    return s.strip("_").lower()


def _name_match(a: str, param: str) -> bool:
    b = param.strip("_").lower()
    return a == b or a.endswith("_" + b) or (a.endswith(b) and len(b) >= 5)


def g2_name_swap(ctx: Ctx, scope, rule="G2"):
    n = 0
    for f in scope:
        for call in ctx.prog.calls_in(f):
            r = ctx.prog.resolve_call(f, call)
            if r is None or any(isinstance(a, ast.Starred) for a in call.args):
                continue
            callee, bound = r
            pos = [x.arg for x in callee.node.args.posonlyargs + callee.node.args.args]
            if bound and callee.cls is not None and callee.kind != "static":
                pos = pos[1:]
            stems = [_stem(a) for a in call.args]
            if len([s for s in stems if s]) < 2:
                continue
            n += 1
            bad = []
            for i, (s, p) in enumerate(zip(stems, pos)):
                if s is None:
                    continue
                for j, (s2, p2) in enumerate(zip(stems, pos)):
                    if j <= i or s2 is None:
                        continue
                    if _name_match(s, p2) and _name_match(s2, p) and not (_name_match(s, p) and _name_match(s2, p2)):
                        bad.append(f"argument {i} '{s}' is bound to parameter '{p}' and argument {j} '{s2}' to '{p2}' (swapped)")
            ctx.ob(rule, f"{f.short} -> {callee.short}", not bad, "; ".join(bad) or "positional roles in order",
                   ctx.prog.loc(f, call), call)
    return n


# --------------------------------------------------------------------------- G3
def class_private_stores(prog: Program, c: ClassInfo) -> set:
    """Mangled privates `_C__x` that class C (lexically) defines."""
    out = set()
    cname = c.name.lstrip("_")
    for n in ast.walk(c.node):
        if isinstance(n, ast.Attribute) and n.attr.startswith("__") and not n.attr.endswith("__"):
            if isinstance(n.ctx, (ast.Store, ast.Del)):
                out.add(f"_{cname}{n.attr}")
        elif isinstance(n, ast.FunctionDef) and n.name.startswith("__") and not n.name.endswith("__"):
            out.add(f"_{cname}{n.name}")
        elif isinstance(n, ast.Name) and isinstance(n.ctx, ast.Store) and n.id.startswith("__") and not n.id.endswith("__"):
            out.add(f"_{cname}{n.id}")
    return out


_all_strings_cache: dict = {}


def _all_strings(prog: Program) -> set:
    k = id(prog)
    if k not in _all_strings_cache:
        s = set()
        for m in prog.modules.values():
            for n in ast.walk(m.tree):
                if isinstance(n, ast.Constant) and isinstance(n.value, str):
                    s.add(n.value)
        _all_strings_cache[k] = s
    return _all_strings_cache[k]


def g3_mangled(ctx: Ctx, classes, rule="G3"):
    n = 0
    strs = _all_strings(ctx.prog)
    for c in classes:
        defined = class_private_stores(ctx.prog, c)
        cname = c.name.lstrip("_")
        for f in c.all_funcs():
            for node in walk_own(f.node):
                if isinstance(node, ast.Attribute) and node.attr.startswith("__") and not node.attr.endswith("__") \
                        and isinstance(node.ctx, ast.Load):
                    m = f"_{cname}{node.attr}"
                    n += 1
                    ok = m in defined or m in strs
                    ctx.ob(rule, f"{f.short}: {node.attr}", ok,
                           "" if ok else f"reads {ast.unparse(node)} = '{m}', which class {c.name} never defines "
                           f"(privates of {c.name}: {sorted(defined)})",
                           ctx.prog.loc(f, node), node)
            ctx.touch(f)
    return n


# --------------------------------------------------------------------------- G7
def _returns(fnode):
    return [s for s in walk_own(fnode) if isinstance(s, ast.Return) and s.value is not None]


def getter_field(f: Func):
    """The single `self.F` a getter returns (directly or through `.value`/call/cast), else None."""
    rets = _returns(f.node)
    fields = set()
    for r in rets:
        v = r.value
        # unwrap attribute chains/calls on self.F: self.F, self.F.value, self.F.peek(), float(self.F)
        names = {n.attr for n in ast.walk(v) if is_self_attr(n)}
        if len(names) != 1:
            return None
        fields |= names
    if len(fields) == 1:
        return next(iter(fields))
    return None


def setter_stores(prog: Program, f: Func, depth=0):
    """Fields stored by a setter: direct, through (`self.F.data = v`, `.value`, `.push(v)`,
    `.fill_`), plus re-entry through other setters of the same class and fset delegation."""
    direct, through, deleg, reenter = set(), set(), False, set()
    for n in walk_own(f.node):
        if isinstance(n, ast.Attribute) and isinstance(n.ctx, ast.Store):
            if is_self_attr(n):
                direct.add(n.attr)
            elif is_self_attr(n.value):
                through.add(n.value.attr)
        elif isinstance(n, ast.Subscript) and isinstance(n.ctx, ast.Store) and is_self_attr(n.value):
            through.add(n.value.attr)
        elif isinstance(n, ast.Call):
            fn = n.func
            if isinstance(fn, ast.Attribute):
                if fn.attr in ("fset", "__set__"):
                    deleg = True
                elif is_self_attr(fn.value) and (fn.attr.endswith("_") or fn.attr in ("push", "write", "insert", "reconstrain", "register", "deregister")):
                    through.add(fn.value.attr)
                elif fn.attr in ("__setattr__",):
                    deleg = True
            if isinstance(fn, ast.Name) and fn.id == "setattr":
                if len(n.args) >= 2 and isinstance(n.args[1], ast.Constant):
                    direct.add(str(n.args[1].value))
                else:
                    deleg = True
            if isinstance(fn, ast.Attribute) and fn.attr in ("register_buffer", "register_parameter", "register_extra", "register_module") \
                    and n.args and isinstance(n.args[0], ast.Constant):
                direct.add(str(n.args[0].value))
    if f.cls is not None and depth < 3:
        for d in list(direct):
            sf = f.cls.find_prop(d, "set")
            if sf is not None and sf is not f:
                dd, tt, dl, _ = setter_stores(prog, sf, depth + 1)
                reenter |= dd | tt
                deleg = deleg or dl
    return direct, through, deleg, reenter


def g7_getset(ctx: Ctx, classes, rule="G7"):
    n = 0
    for c in classes:
        for pname, fs in c.props.items():
            g, s = fs.get("get"), fs.get("set")
            if s is None:
                continue
            if g is None:
                g = c.find_prop(pname, "get")
            if g is None:
                continue
            body = strip_doc(s.node.body)
            if all(isinstance(b, ast.Pass) for b in body):
                continue
            n += 1
            fld = getter_field(g)
            direct, through, deleg, reenter = setter_stores(ctx.prog, s)
            if fld is None or deleg or not (direct or through):
                ctx.ob(rule, f"{c.name}.{pname}", True,
                       "getter computes a derived value or setter delegates (fset/setattr)", s.where, None)
                continue
            m = c.mangle(fld)
            stored = direct | through | reenter
            ok = fld in stored or m in stored
            ctx.ob(rule, f"{c.name}.{pname}", ok,
                   f"getter returns self.{fld}; setter stores {sorted(stored)}" if not ok
                   else f"getter reads and setter stores self.{fld}", s.where, None)
            ctx.touch(g, s)
    return n


# --------------------------------------------------------------------------- G9
def g9_self_recursion(ctx: Ctx, scope, rule="G9"):
    from .cfg import CFG
    n = 0
    for f in scope:
        selfcalls = []
        for call in ctx.prog.calls_in(f):
            r = ctx.prog.resolve_call(f, call)
            if r is not None and r[0] is f:
                # same receiver: self.f(...) / f(...)
                selfcalls.append(call)
        n += 1
        if not selfcalls:
            ctx.ob(rule, f.short, True, "no call resolves to the function itself", f.where)
            continue
        g = CFG(f.node)
        nodes = g.stmt_nodes_calling(lambda c: c in selfcalls)
        ok = not g.must_pass(nodes) or g.exit not in g.reachable(g.entry)
        ctx.ob(rule, f.short, ok,
               "" if ok else f"every path to a return passes through a call to {f.short} itself (unbounded recursion)",
               ctx.prog.loc(f, selfcalls[0]), selfcalls[0])
    return n


# --------------------------------------------------------------------------- G10
def g10_identical_arms(ctx: Ctx, scope, rule="G10"):
    n = 0
    for f in scope:
        params = {a.arg for a in f.node.args.posonlyargs + f.node.args.args + f.node.args.kwonlyargs}
        for node in walk_own(f.node):
            a = b = test = None
            if isinstance(node, ast.IfExp):
                a, b, test = ast.unparse(node.body), ast.unparse(node.orelse), node.test
            elif isinstance(node, ast.If) and node.orelse:
                a = "\n".join(ast.unparse(s) for s in node.body)
                b = "\n".join(ast.unparse(s) for s in node.orelse)
                test = node.test
            else:
                continue
            n += 1
            same = a == b
            dead = []
            if same:
                tnames = {x.id for x in ast.walk(test) if isinstance(x, ast.Name)} & params
                for p in tnames:
                    # loads that see the *parameter's* value: those up to (and inside) the first statement rebinding the name
                    first = None
                    for st in walk_ordered(f.node):
                        if isinstance(st, (ast.Assign, ast.AugAssign, ast.AnnAssign)):
                            tg = st.targets if isinstance(st, ast.Assign) else [st.target]
                            names = {y.id for t in tg for y in ast.walk(t) if isinstance(y, ast.Name)}
                            if p in names:
                                first = st
                                break
                    limit = (first.end_lineno, first.end_col_offset) if first is not None else (10 ** 9, 0)
                    uses = [x for x in walk_own(f.node) if isinstance(x, ast.Name) and x.id == p and isinstance(x.ctx, ast.Load)
                            and (x.lineno, x.col_offset) <= limit]
                    intest = [x for x in ast.walk(test) if isinstance(x, ast.Name) and x.id == p]
                    if uses and all(any(x is y for y in intest) for x in uses):
                        dead.append(p)
            ctx.ob(rule, f"{f.short}: {ast.unparse(test)[:40]}", not (same and dead),
                   "" if not (same and dead) else
                   f"both arms are `{a[:60]}`; parameter(s) {dead} are used only in the test, so they cannot influence the result",
                   ctx.prog.loc(f, node), node)
    return n


# --------------------------------------------------------------------------- G11
def g11_einops(ctx: Ctx, scope, rule="G11"):
    n = 0
    for f in scope:
        for call in ctx.prog.calls_in(f):
            d = dotted(call.func)
            if d is None or not (d.startswith("ein.") or d.startswith("einops.")):
                continue
            op = d.split(".")[-1]
            if op not in ("rearrange", "einsum", "reduce", "repeat"):
                continue
            pats = [a.value for a in call.args if isinstance(a, ast.Constant) and isinstance(a.value, str)]
            if not pats:
                continue
            n += 1
            kw = {k.arg for k in call.keywords if k.arg}
            nops = len([a for a in call.args if not (isinstance(a, ast.Constant) and isinstance(a.value, str))])
            msgs = einops_alg.wellformed(op, pats[0], kw, nops)
            ctx.ob(rule, f"{f.short}: {op} '{pats[0]}'", not msgs, "; ".join(msgs), ctx.prog.loc(f, call), call)
        ctx.touch(f)
    return n


# --------------------------------------------------------------------------- G6
def g6_mapping_iter(ctx: Ctx, scope, dict_attrs: dict, rule="G6"):
    """`for x in self.<dict-typed attr>` followed by `x.<method>()`: iterating a mapping yields keys (str).

    dict_attrs: class name -> set of attribute names certainly typed ModuleDict/dict in its MRO.
    """
    n = 0
    for f in scope:
        if f.cls is None:
            continue
        attrs = set()
        for c in f.cls.mro:
            attrs |= dict_attrs.get(c.name, set())
        for node in walk_own(f.node):
            if not (isinstance(node, ast.For) and isinstance(node.target, ast.Name)):
                continue
            it, view = node.iter, None
            if isinstance(it, ast.Call) and isinstance(it.func, ast.Attribute) and it.func.attr in ("values", "keys") and not it.args:
                it, view = it.func.value, it.func.attr
            if not (is_self_attr(it) and it.attr in attrs):
                continue
            n += 1
            var = node.target.id
            bad = []
            if view != "values":
                bad = [x for b in node.body for x in ast.walk(b)
                       if isinstance(x, ast.Call) and isinstance(x.func, ast.Attribute) and isinstance(x.func.value, ast.Name)
                       and x.func.value.id == var and not hasattr(str, x.func.attr)]
            ctx.ob(rule, f"{f.short}: for {var} in self.{it.attr}", not bad,
                   f"iterates the mapping's {'values' if view == 'values' else 'keys'}" if not bad else
                   f"self.{it.attr} is a mapping: iteration yields its string keys, "
                   f"but the body calls {var}.{bad[0].func.attr}() (missing .values())",
                   ctx.prog.loc(f, node), node.iter)
    return n


def dict_typed_attrs(prog: Program) -> dict:
    """Attributes assigned `nn.ModuleDict(...)` / `dict(...)` / `{}` in a constructor."""
    out = {}
    for c in prog.all_classes:
        init = c.methods.get("__init__")
        if not init:
            continue
        for n in walk_own(init.node):
            if isinstance(n, ast.Assign) and len(n.targets) == 1 and is_self_attr(n.targets[0]):
                v = n.value
                d = dotted(v.func) if isinstance(v, ast.Call) else None
                if isinstance(v, ast.Dict) or d in ("nn.ModuleDict", "torch.nn.ModuleDict", "dict", "OrderedDict", "nn.ParameterDict"):
                    out.setdefault(c.name, set()).add(n.targets[0].attr)
    return out


# --------------------------------------------------------------------------- G5
def g5_property_called(ctx: Ctx, scope, rule="G5"):
    """Calling the value of a property (`self.p()` where p is a @property returning a non-callable),
    iterating a bound method, assigning over a method."""
    n = 0
    for f in scope:
        if f.cls is None:
            continue
        for node in walk_own(f.node):
            if isinstance(node, ast.Call) and is_self_attr(node.func):
                name = node.func.attr
                owner = f.cls.prop_owner(name)
                if owner is not None:
                    g = owner.props[name].get("get")
                    ann = ast.unparse(g.node.returns) if g is not None and g.node.returns is not None else ""
                    callable_ret = any(k in ann for k in ("Callable", "OneToOne", "ManyToOne", "Protocol", "type[", "Module", "Interpolation", "Extrapolation", "Fn", "partial")) or ann == ""
                    n += 1
                    ctx.ob(rule, f"{f.short}: self.{name}()", callable_ret,
                           "" if callable_ret else f"'{name}' is a property of {owner.name} returning {ann}; its value is called like a method",
                           ctx.prog.loc(f, node), node)
            # iterating a bound method / attribute of it
            if isinstance(node, (ast.For, ast.comprehension)):
                it = node.iter
                tgt = it
                if isinstance(tgt, ast.Attribute) and not isinstance(tgt, ast.Call):
                    base = tgt.value
                    # self.X.values  (no call) where .values/.items/.keys are methods
                    if tgt.attr in ("values", "items", "keys"):
                        n += 1
                        ctx.ob(rule, f"{f.short}: iterate {ast.unparse(it)}", False,
                               f"`{ast.unparse(it)}` is a bound method (not called); iterating it raises TypeError",
                               ctx.prog.loc(f, node.iter), it)
                    elif is_self_attr(tgt) and f.cls.find_method(tgt.attr) is not None and f.cls.prop_owner(tgt.attr) is None:
                        n += 1
                        ctx.ob(rule, f"{f.short}: iterate {ast.unparse(it)}", False,
                               f"`{ast.unparse(it)}` is a method of {f.cls.name}; iterating it raises TypeError",
                               ctx.prog.loc(f, node.iter), it)
        ctx.touch(f)
    return n


# --------------------------------------------------------------------------- G8
def g8_derived_state(ctx: Ctx, classes, rule="G8"):
    """`self.A = f(self.p)` in __init__ (p a settable property, A plain attribute): p's setter as resolved on the
    class must re-assign self.A with a term of the same normal form."""
    from . import terms, nf
    n = 0
    for c in classes:
        init = c.methods.get("__init__")
        if init is None:
            continue
        for st in strip_doc(init.node.body):
            if not (isinstance(st, ast.Assign) and len(st.targets) == 1 and is_self_attr(st.targets[0])):
                continue
            a = st.targets[0].attr
            if a.startswith("__") or c.prop_owner(a) is not None:
                continue
            props = sorted({x.attr for x in ast.walk(st.value) if is_self_attr(x) and isinstance(x.ctx, ast.Load)
                            and c.find_prop(x.attr, "set") is not None and c.find_prop(x.attr, "get") is not None})
            for p in props:
                setter = c.find_prop(p, "set")
                n += 1
                b0 = terms.Builder(ctx.prog, init, inline_depth=0)
                want = b0.t(st.value)
                stores = [s for s in walk_own(setter.node) if isinstance(s, ast.Assign) and any(is_self_attr(t, a) for t in s.targets)]
                ok = False
                got = None
                for s in stores:
                    b1 = terms.Builder(ctx.prog, setter, inline_depth=0)
                    got = b1.t(s.value)
                    if nf.equal(want, got):
                        ok = True
                ctx.ob(rule, f"{c.name}.{a} derived from {p}", ok,
                       f"constructor computes self.{a} = {nf.show(want)[:120]}; setter {setter.short} "
                       + ("recomputes the same term" if ok else
                          (f"recomputes {nf.show(got)[:120]}" if got is not None else f"never re-assigns self.{a}, so it keeps the value for the old {p}")),
                       setter.where, st)
                if ok and stores:
                    # the recomputation must read the *new* value of p: it has to follow the statement that updates p
                    from .cfg import CFG
                    g = CFG(setter.node)
                    upd = g.stmt_nodes_calling(lambda c_: isinstance(c_.func, ast.Attribute) and c_.func.attr == "fset")
                    gf = getter_field(c.find_prop(p, "get")) if c.find_prop(p, "get") else None
                    upd += [n_ for n_ in g.nodes if n_.kind == "stmt" and isinstance(n_.ast, ast.Assign) and gf and is_self_attr(n_.ast.targets[0], gf)]
                    rec = [n_ for n_ in g.nodes if n_.kind == "stmt" and n_.ast in stores]
                    ordered = bool(upd) and g.always_before(upd, rec)
                    ctx.ob(rule, f"{c.name}.{a}: recomputed after {p} is updated", ordered,
                           "" if ordered else f"self.{a} is recomputed before the new {p} is stored: it is derived from the old value and stays stale",
                           setter.where, st)
                ctx.touch(init, setter)
    return n


# --------------------------------------------------------------------------- light types
def attr_types(prog: Program, c: ClassInfo) -> dict:
    """`self.A = ClassName(...)` in a constructor of the MRO: attribute A is certainly a ClassName."""
    out = {}
    for k in reversed(c.mro):
        init = k.methods.get("__init__")
        if not init:
            continue
        for n in walk_own(init.node):
            if isinstance(n, ast.Assign) and len(n.targets) == 1 and is_self_attr(n.targets[0]) and isinstance(n.value, ast.Call):
                r = prog.resolve_expr(k.module.name, n.value.func)
                if r and r[0] == "class":
                    out[n.targets[0].attr] = r[1]
    return out


NON_CALLABLE_ANN = ("Iterator", "Iterable", "Generator", "tuple", "list", "dict", "int", "float", "bool", "str", "torch.Tensor", "Tensor")


def g5_typed_property_call(ctx: Ctx, scope, rule="G5"):
    """`self.A.p()` where A is certainly typed (constructor) and p is a property of that type whose annotation
    is not callable."""
    n = 0
    for f in scope:
        if f.cls is None:
            continue
        types = attr_types(ctx.prog, f.cls)
        for node in walk_own(f.node):
            if isinstance(node, ast.Call) and isinstance(node.func, ast.Attribute) and is_self_attr(node.func.value) \
                    and node.func.value.attr in types:
                t = types[node.func.value.attr]
                name = node.func.attr
                owner = t.prop_owner(name)
                n += 1
                if owner is None:
                    has = t.find_method(name) is not None or any(b for b in t.ext_bases)
                    ctx.ob(rule, f"{f.short}: self.{node.func.value.attr}.{name}()", True, f"{name} is a method of {t.name}", ctx.prog.loc(f, node), node)
                    continue
                g = owner.props[name].get("get")
                ann = ast.unparse(g.node.returns) if g is not None and g.node.returns is not None else ""
                bad = any(ann == k or ann.startswith(k + "[") for k in NON_CALLABLE_ANN)
                ctx.ob(rule, f"{f.short}: self.{node.func.value.attr}.{name}()", not bad,
                       "" if not bad else f"'{name}' is a property of {t.name} returning {ann}; calling its value raises TypeError",
                       ctx.prog.loc(f, node), node)
    return n
