"""Two-way self-test of the checker (not a registered check; DESIGN §7).

Builds scratch copies of /repo/inferno under a temporary directory outside /repo and /verif, applies one source edit per
variant, and runs the analyser with --root on the copy:
  * breaking variants must make the named property's check exit 1 (VIOLATION);
  * benign variants (behaviour-preserving rewrites) must leave *every* check silent (exit 0).
Usage: python3 -I sa/selftest.py [-j 16] [--only ID_SUBSTRING] [--keep]
"""
from __future__ import annotations

import argparse
import ast
import concurrent.futures as cf
import os
import shutil
import subprocess
import sys
import tempfile
import time

HERE = os.path.dirname(os.path.abspath(__file__))
VERIF = os.path.dirname(HERE)
sys.path.insert(0, VERIF)

from sa.selftest_corpus import BREAKING, BENIGN  # noqa: E402

PROPS = [f"C{i:02d}" for i in range(1, 21)]
PY = "/venv/bin/python" if os.path.exists("/venv/bin/python") else sys.executable


def make_copy(root_src: str, tmp: str):
    dst = os.path.join(tmp, "inferno")
    shutil.copytree(os.path.join(root_src, "inferno"), dst, ignore=shutil.ignore_patterns("__pycache__"))
    return tmp


def apply_edit(tmp, v):
    if v.get("transform") == "unparse_all":
        for dp, _, fs in os.walk(os.path.join(tmp, "inferno")):
            for f in fs:
                if f.endswith(".py"):
                    p = os.path.join(dp, f)
                    src = open(p).read()
                    open(p, "w").write(ast.unparse(ast.parse(src)) + "\n")
        return None
    if v.get("transform") == "rename_locals":
        for dp, _, fs in os.walk(os.path.join(tmp, "inferno")):
            for f in fs:
                if f.endswith(".py"):
                    p = os.path.join(dp, f)
                    tree = ast.parse(open(p).read())
                    rename_locals(tree, v.get("suffix", "_r"))
                    open(p, "w").write(ast.unparse(tree) + "\n")
        return None
    if v.get("transform") in TREE_TRANSFORMS:
        fn = TREE_TRANSFORMS[v["transform"]]
        for dp, _, fs in os.walk(os.path.join(tmp, "inferno")):
            for f in fs:
                if f.endswith(".py"):
                    p = os.path.join(dp, f)
                    tree = ast.parse(open(p).read())
                    tree = fn(tree)
                    ast.fix_missing_locations(tree)
                    open(p, "w").write(ast.unparse(tree) + "\n")
        return None
    if v.get("patch"):
        # a seeded change kept under /verif/seeded (unified diff against the repository root)
        r = subprocess.run(["patch", "-p1", "-s", "--no-backup-if-mismatch", "-i", v["patch"]], cwd=tmp, capture_output=True, text=True)
        if r.returncode != 0:
            return f"patch does not apply: {r.stdout[:200]} {r.stderr[:200]}"
        return None
    for ed in v["edits"]:
        p = os.path.join(tmp, "inferno", ed["file"])
        s = open(p).read()
        n = s.count(ed["old"])
        want = ed.get("count", 1)
        if n != want:
            return f"edit does not apply: {ed['file']}: found {n} occurrence(s) of {ed['old'][:50]!r}, expected {want}"
        s = s.replace(ed["old"], ed["new"])
        try:
            ast.parse(s)
        except SyntaxError as e:
            return f"edit breaks syntax: {e}"
        open(p, "w").write(s)
    return None


_FLIP = {ast.Lt: ast.Gt, ast.Gt: ast.Lt, ast.LtE: ast.GtE, ast.GtE: ast.LtE, ast.Eq: ast.Eq, ast.NotEq: ast.NotEq}


def flip_compares(tree):
    """`a < b` -> `b > a` for every two-operand ordering / equality comparison (behaviour preserving for pure operands)."""
    for n in ast.walk(tree):
        if isinstance(n, ast.Compare) and len(n.ops) == 1 and type(n.ops[0]) in _FLIP:
            n.left, n.comparators[0] = n.comparators[0], n.left
            n.ops[0] = _FLIP[type(n.ops[0])]()
    return tree


def _neg(test):
    if isinstance(test, ast.UnaryOp) and isinstance(test.op, ast.Not):
        return test.operand
    return ast.UnaryOp(op=ast.Not(), operand=test)


def swap_if_arms(tree):
    """`if c: A else: B` -> `if not c: B else: A` for every if statement that has an else arm."""
    for n in ast.walk(tree):
        if isinstance(n, ast.If) and n.orelse:
            n.test = _neg(n.test)
            n.body, n.orelse = n.orelse, n.body
    return tree


def swap_ifexp(tree):
    """`a if c else b` -> `b if not c else a`."""
    for n in ast.walk(tree):
        if isinstance(n, ast.IfExp):
            n.test = _neg(n.test)
            n.body, n.orelse = n.orelse, n.body
    return tree


def commute_mult(tree):
    """`a * b` -> `b * a` (commutative for every Python / torch operand type pair used with `*`)."""
    for n in ast.walk(tree):
        if isinstance(n, ast.BinOp) and isinstance(n.op, ast.Mult):
            n.left, n.right = n.right, n.left
    return tree


def reverse_keywords(tree):
    """`f(a, k1=x, k2=y)` -> `f(a, k2=y, k1=x)` (`**kw` entries keep their place relative to each other)."""
    for n in ast.walk(tree):
        if isinstance(n, ast.Call) and len(n.keywords) > 1 and all(k.arg is not None for k in n.keywords):
            n.keywords = list(reversed(n.keywords))
    return tree


def return_temporaries(tree):
    """`return <expr>` -> `_ret = <expr>; return _ret` for every non-trivial return value."""
    class T(ast.NodeTransformer):
        def visit_Return(self, n):
            if n.value is None or isinstance(n.value, (ast.Name, ast.Constant)):
                return n
            a = ast.Assign(targets=[ast.Name(id="_ret", ctx=ast.Store())], value=n.value)
            r = ast.Return(value=ast.Name(id="_ret", ctx=ast.Load()))
            return [ast.copy_location(a, n), ast.copy_location(r, n)]

        def visit_Lambda(self, n):
            return n
    tree = T().visit(tree)
    return tree


TREE_TRANSFORMS = {"flip_compares": flip_compares, "swap_if_arms": swap_if_arms, "swap_ifexp": swap_ifexp,
                   "commute_mult": commute_mult, "reverse_keywords": reverse_keywords, "return_temporaries": return_temporaries}


def rename_locals(tree, suffix):
    """Rename every purely local variable (assigned in the function, not a parameter / global / nonlocal / loop-free class
    attribute) of every function: a behaviour-preserving edit."""
    for fn in [n for n in ast.walk(tree) if isinstance(n, (ast.FunctionDef, ast.AsyncFunctionDef))]:
        a = fn.args
        params = {x.arg for x in a.posonlyargs + a.args + a.kwonlyargs} | ({a.vararg.arg} if a.vararg else set()) | ({a.kwarg.arg} if a.kwarg else set())
        declared = {nm for n in ast.walk(fn) if isinstance(n, (ast.Global, ast.Nonlocal)) for nm in n.names}
        nested_params = set()
        for n in ast.walk(fn):
            if n is not fn and isinstance(n, (ast.FunctionDef, ast.Lambda)):
                aa = n.args
                nested_params |= {x.arg for x in aa.posonlyargs + aa.args + aa.kwonlyargs} | ({aa.vararg.arg} if aa.vararg else set()) | ({aa.kwarg.arg} if aa.kwarg else set())
                if isinstance(n, ast.FunctionDef):
                    nested_params.add(n.name)
        own_nodes = []
        stack = list(ast.iter_child_nodes(fn))
        while stack:
            n = stack.pop()
            if isinstance(n, (ast.FunctionDef, ast.AsyncFunctionDef, ast.ClassDef)):
                # nested defs: rename free uses of the outer locals inside too (closures), but not their own locals
                own_nodes.append(n)
                stack.extend(ast.iter_child_nodes(n))
                continue
            own_nodes.append(n)
            stack.extend(ast.iter_child_nodes(n))
        stored = {n.id for n in own_nodes if isinstance(n, ast.Name) and isinstance(n.ctx, ast.Store)}
        # exclude names stored inside nested defs (their locals) and comprehension-free safety: keep it simple
        nested_stored = {m.id for n in ast.walk(fn) if n is not fn and isinstance(n, (ast.FunctionDef, ast.Lambda)) for m in ast.walk(n)
                         if isinstance(m, ast.Name) and isinstance(m.ctx, ast.Store)}
        locs = stored - params - declared - nested_params - nested_stored - {"_"}
        locs = {x for x in locs if not x.startswith("__")}
        for n in own_nodes:
            if isinstance(n, ast.Name) and n.id in locs:
                n.id = n.id + suffix
            elif isinstance(n, ast.MatchAs) and n.name in locs:
                n.name = n.name + suffix


def run_check(prop, root):
    r = subprocess.run([PY, "-I", os.path.join(HERE, "cli.py"), prop, "--root", root, "--no-evidence"], capture_output=True, text=True, cwd=VERIF)
    return r.returncode, r.stdout


def run_variant(args):
    v, src_root = args
    tmp = tempfile.mkdtemp(prefix="sa_selftest_")
    try:
        make_copy(src_root, tmp)
        err = apply_edit(tmp, v)
        if err:
            return v["id"], "BROKEN-VARIANT", err
        if v["expect"] == "violation":
            props = v["props"]
            outs = []
            hit = False
            for p in props:
                rc, out = run_check(p, tmp)
                outs.append((p, rc, out))
                if rc == 1 and "VIOLATION" in out:
                    hit = True
                    want = v.get("mention")
                    if want and want not in out:
                        return v["id"], "WRONG-REPORT", f"{p} fired but does not mention {want!r}: {out[:300]}"
                elif rc == 2:
                    return v["id"], "ANALYSIS-ERROR", out[:300]
            if not hit:
                return v["id"], "MISSED", "; ".join(f"{p}: rc={rc}" for p, rc, _ in outs)
            # properties the change leaves intact must stay silent (cross-property precision)
            for p in v.get("silent", []):
                rc, out = run_check(p, tmp)
                if rc != 0:
                    return v["id"], "FALSE-ALARM", f"{p}: rc={rc}: {out[:400]}"
            return v["id"], "ok", ""
        else:
            bad = []
            for p in v.get("props", PROPS):
                rc, out = run_check(p, tmp)
                if rc != 0:
                    bad.append(f"{p}: rc={rc}: {out[:400]}")
            if bad:
                if v.get("unresolved"):
                    return v["id"], "ok", "UNRESOLVED-FALSE-ALARM (recorded in DESIGN 11): " + " | ".join(b[:120] for b in bad)
                return v["id"], "FALSE-ALARM", " | ".join(bad)
            if v.get("unresolved"):
                return v["id"], "RESOLVED", "recorded as an unresolved false alarm but every check is silent now: update seeded/*/meta.json"
            return v["id"], "ok", ""
    finally:
        shutil.rmtree(tmp, ignore_errors=True)


def seeded_variants():
    """The changes written by independent sub-agents (DESIGN 12): the target property's check must fire and every check
    outside meta.json's `checks_that_fire_now` must stay silent."""
    import json
    out = []
    base = os.path.join(VERIF, "seeded")
    for d in sorted(os.listdir(base)) if os.path.isdir(base) else []:
        mp = os.path.join(base, d, "meta.json")
        if not os.path.exists(mp):
            continue
        meta = json.load(open(mp))
        if "refactoring" in meta.get("kind", ""):
            # a behaviour-preserving refactoring: every check silent; the ones recorded as unresolved (DESIGN 11) are reported apart
            out.append({"id": "refactoring-" + d, "patch": os.path.join(base, d, "patch.diff"), "expect": "silent",
                        "unresolved": meta.get("unresolved_false_alarm", False)})
            continue
        fires = meta["checks_that_fire_now"]
        out.append({"id": "seeded-" + d, "patch": os.path.join(base, d, "patch.diff"), "props": [meta["breaks_property"]],
                    "silent": [p for p in PROPS if p not in fires], "expect": "violation"})
    return out


def main():
    ap = argparse.ArgumentParser()
    ap.add_argument("-j", type=int, default=16)
    ap.add_argument("--only", default="")
    ap.add_argument("--root", default="/repo")
    a = ap.parse_args()
    variants = [dict(v, expect="violation") for v in BREAKING] + [dict(v, expect="silent") for v in BENIGN]
    variants += seeded_variants()
    if a.only:
        variants = [v for v in variants if a.only in v["id"]]
    t0 = time.time()
    res = []
    with cf.ProcessPoolExecutor(max_workers=a.j) as ex:
        for r in ex.map(run_variant, [(v, a.root) for v in variants]):
            res.append(r)
            if r[1] == "ok" and r[2].startswith("UNRESOLVED"):
                print(f"{'UNRESOLVED':15s} {r[0]}: {r[2][:300]}")
            if r[1] != "ok":
                print(f"{r[1]:15s} {r[0]}: {r[2][:700]}")
    nb = sum(1 for v in variants if v["expect"] == "violation")
    ok = sum(1 for r in res if r[1] == "ok")
    print(f"selftest: {len(variants)} variants ({nb} breaking, {len(variants) - nb} benign), {ok} as expected, "
          f"{len(variants) - ok} not; {time.time() - t0:.1f}s")
    return 0 if ok == len(variants) else 1


if __name__ == "__main__":
    sys.exit(main())
