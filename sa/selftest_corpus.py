"""Variant corpus for sa/selftest.py: one small source edit per variant.

BREAKING: the edit breaks the named property (the variant still parses); the property's check must report it.
BENIGN:   behaviour-preserving rewrites; every check must stay silent.
Edits are exact text replacements on a scratch copy (`count` occurrences expected, default 1).
"""

INFRA = "core/infrastructure.py"


def E(file, old, new, count=1):
    return {"file": file, "old": old, "new": new, "count": count}


BREAKING = [
    # ---------------- C01
    {"id": "C01-helper-sign", "props": ["C01"], "edits": [E(INFRA, "return (pointer - int(offset)) % size", "return (pointer + int(offset)) % size")]},
    {"id": "C01-incr-before-write", "props": ["C01"], "edits": [E(INFRA, "        self.write(obs, offset=0, inplace=inplace)\n        self.incr(1)", "        self.incr(1)\n        self.write(obs, offset=0, inplace=inplace)")]},
    {"id": "C01-push-offset1", "props": ["C01"], "edits": [E(INFRA, "self.write(obs, offset=0, inplace=inplace)", "self.write(obs, offset=1, inplace=inplace)")]},
    {"id": "C01-roll-no-pointer", "props": ["C01"], "edits": [E(INFRA, "            self.__data = data.roll(index - self.__pointer, 0)\n            self.__pointer = index", "            self.__data = data.roll(index - self.__pointer, 0)")]},
    {"id": "C01-roll-wrong-shift", "props": ["C01"], "edits": [E(INFRA, "data.roll(index - self.__pointer, 0)", "data.roll(self.__pointer - index, 0)")]},
    {"id": "C01-write-drop-cast", "props": ["C01"], "edits": [E(INFRA, "                    obs.to(dtype=data.dtype).unsqueeze(0),\n                    data[slice(index + 1, None), ...],", "                    obs.unsqueeze(0),\n                    data[slice(index + 1, None), ...],")]},
    {"id": "C01-write-off-by-one", "props": ["C01"], "edits": [E(INFRA, "data[slice(index + 1, None), ...],", "data[slice(index, None), ...],")]},
    {"id": "C01-readrange-guard", "props": ["C01"], "edits": [E(INFRA, "            if start >= end:", "            if start > end:")]},
    {"id": "C01-readrange-swap-pieces", "props": ["C01"], "edits": [E(INFRA, "torch.cat((data[start:, ...], data[:end, ...]), 0)", "torch.cat((data[:end, ...], data[start:, ...]), 0)")]},
    {"id": "C01-decr-sign", "props": ["C01"], "edits": [E(INFRA, "self.__pointer = _unwind_ptr(self.__pointer, pos, self.__recordsz)", "self.__pointer = _unwind_ptr(self.__pointer, -pos, self.__recordsz)")]},
    {"id": "C01-peek-offset", "props": ["C01"], "edits": [E(INFRA, "            return self.read(1)", "            return self.read(0)")]},
    {"id": "C01-push-dtype", "props": ["C01"], "edits": [E(INFRA, "                dtype=(obs.dtype if self.__data is None else None),\n", "")]},
    {"id": "C01-writerange-wrap-piece", "props": ["C01"], "edits": [E(INFRA, "data[slice(length - (recordsz - ptr), ptr), ...],", "data[slice(length - (recordsz - ptr) + 1, ptr), ...],")]},
    {"id": "C01-reset-keeps-pointer", "props": ["C01"], "edits": [E(INFRA, "            # reset pointer to start\n            self.__pointer = 0", "            # reset pointer to start")]},
    {"id": "C01-readrange-offbyone", "props": ["C01"], "edits": [E(INFRA, "            offset = offset + (length - 1)", "            offset = offset + length")]},
    {"id": "C01-writerange-offbyone", "props": ["C01"], "edits": [E(INFRA, "            offset = offset + (obs.shape[-1] - 1)", "            offset = offset + obs.shape[-1]")]},
    {"id": "C01-end-residue", "props": ["C01"], "edits": [E(INFRA, "end = _unwind_ptr(ptr, offset - length, recordsz)", "end = _unwind_ptr(ptr, offset - length + 1, recordsz)")]},
    # ---------------- C02
    {"id": "C02-ceil-floor-swapped", "props": ["C02"], "edits": [E(INFRA, "prev_idx, next_idx = offset.ceil(), offset.floor()", "prev_idx, next_idx = offset.floor(), offset.ceil()", 2)]},
    {"id": "C02-sample-at", "props": ["C02"], "edits": [E(INFRA, "                dt - dt * (shift % 1),", "                dt * (shift % 1),", 2)]},
    {"id": "C02-range-limit", "props": ["C02"], "edits": [E(INFRA, "tmax > dt * (recordsz - 1) + tolerance", "tmax > dt * recordsz + tolerance", 2)]},
    {"id": "C02-scalar-range-only-insert", "props": ["C02"], "edits": [E(INFRA, "            if time < -tolerance or time > dt * (recordsz - 1) + tolerance:", "            if time < -tolerance or time > dt * (recordsz - 1) - tolerance:", 2)]},
    {"id": "C02-bypass-dropped", "props": ["C02"], "edits": [E(INFRA, "torch.where(prev_idx == next_idx, prev_data, res)", "res")]},
    {"id": "C02-interp-args-swapped", "props": ["C02"], "edits": [E(INFRA, "            res = interp(\n                prev_data,\n                next_data,", "            res = interp(\n                next_data,\n                prev_data,")]},
    {"id": "C02-extrap-inverse", "props": ["C02", "C20"], "edits": [E("functional/extrapolation.py", "sample * torch.exp((sample_at - step_time) / time_constant)", "sample * torch.exp((step_time - sample_at) / time_constant)")]},
    # ---------------- C03
    {"id": "C03-spike-ignores-refrac", "props": ["C03"], "edits": [E("neural/functional/neuron_dynamics.py", "spikes = torch.logical_and(mask, voltages >= thresh_v)", "spikes = voltages >= thresh_v", 2)]},
    {"id": "C03-lock-inverted", "props": ["C03"], "edits": [E("neural/functional/neuron_dynamics.py", "voltages = voltages.where(~mask, dynamics(inputs * mask))", "voltages = voltages.where(mask, dynamics(inputs * mask))", 2)]},
    {"id": "C03-lif-decay-sign", "props": ["C03"], "edits": [E("neural/functional/neuron_dynamics.py", "decay = exp(-step_time / time_constant)", "decay = exp(step_time / time_constant)")]},
    {"id": "C03-refrac-no-clamp", "props": ["C03"], "edits": [E("neural/functional/neuron_dynamics.py", "refracs = (refracs - step_time).clamp(min=0)", "refracs = refracs - step_time", 2)]},
    {"id": "C03-adapt-freeze-inverted", "props": ["C03"], "edits": [E("neural/functional/neuron_adaptation.py", "adaptations = adaptations.where(refracs.unsqueeze(-1) > 0, decayed)", "adaptations = decayed.where(refracs.unsqueeze(-1) > 0, adaptations)")]},
    {"id": "C03-qif-wrong-reset-attr", "props": ["C03"], "edits": [E("neural/neurons/nonlinear.py", "            reset_v=self.reset_v,\n            thresh_v=self.thresh_v,", "            reset_v=self.rest_v,\n            thresh_v=self.thresh_v,", 4)]},
    {"id": "C03-voltage-refrac-swapped", "props": ["C03"], "edits": [E("neural/neurons/linear.py", "        self.voltage = voltages\n        self.refrac = refracs\n\n        # return spiking output\n        return spikes", "        self.voltage = refracs\n        self.refrac = voltages\n\n        # return spiking output\n        return spikes", 1)]},
    # ---------------- C04
    {"id": "C04-current-at-swap", "props": ["C04"], "edits": [E("neural/synapses/mixins.py", "            self.__tolerance,\n            self.__overbound,\n            None,\n        )\n\n\nclass SpikeMixin", "            self.__overbound,\n            self.__tolerance,\n            None,\n        )\n\n\nclass SpikeMixin")]},
    {"id": "C04-singleexp-decay", "props": ["C04"], "edits": [E("neural/synapses/expcurrent.py", "self.current * math.exp(-self.dt / self.time_constant)", "self.current * math.exp(-self.time_constant / self.dt)")]},
    {"id": "C04-doubleexp-norm", "props": ["C04"], "edits": [E("neural/synapses/expcurrent.py", "self.spike_charge / (self.tc_decay - self.tc_rise)", "self.spike_charge / (self.tc_decay + self.tc_rise)", 2)]},
    {"id": "C04-clear-forgets-record", "props": ["C04", "C17"], "edits": [E("neural/synapses/expcurrent.py", "        self.pos_current_.reset(0.0)\n        self.neg_current_.reset(0.0)", "        self.pos_current_.reset(0.0)")]},
    {"id": "C04-overbound-predicate", "props": ["C04"], "edits": [E("neural/synapses/mixins.py", "(selector - bounded_selector).abs() <= tolerance", "(selector - bounded_selector).abs() < tolerance")]},
    {"id": "C04-push-not-inplace-flag", "props": ["C04"], "edits": [E("neural/synapses/mixins.py", "self.current_.push(value, self.inplace)", "self.current_.push(value, False)")]},
    {"id": "C04-record-not-inclusive", "props": ["C04"], "edits": [E("neural/synapses/mixins.py", "            live=False,\n            inclusive=True,\n        )\n        self.add_delayed(\"spike_\")", "            live=False,\n            inclusive=False,\n        )\n        self.add_delayed(\"spike_\")")]},
    # ---------------- C05
    {"id": "C05-lateral-setter-unmasked", "props": ["C05"], "edits": [E("neural/connections/linear.py", "WeightBiasDelayMixin.weight.fset(self, value * self.mask)", "WeightBiasDelayMixin.weight.fset(self, value)")]},
    {"id": "C05-conv-outsize", "props": ["C05"], "edits": [E("neural/connections/conv.py", "- self.dilation[d] * (self.kernel[d] - 1)", "- self.dilation[d] * self.kernel[d]")]},
    {"id": "C05-unfold-stride", "props": ["C05"], "edits": [E("neural/connections/conv.py", "                stride=self.stride,\n            ).to(dtype=data.dtype)\n\n    def presyn", "                stride=self.dilation,\n            ).to(dtype=data.dtype)\n\n    def presyn")]},
    {"id": "C05-dense-einsum-axes", "props": ["C05"], "edits": [E("neural/connections/linear.py", '"b i o, o i -> b o"', '"b i o, i o -> b o"', 2)]},
    {"id": "C05-direct-write", "props": ["C05"], "edits": [E("neural/connections/linear.py", "        if weight_init:\n            self.weight = weight_init(self.weight)", "        if weight_init:\n            self.weight_.data = weight_init(self.weight)", 3)]},
    # ---------------- C06
    {"id": "C06-forward-undelayed", "props": ["C06", "C05"], "edits": [E("neural/connections/linear.py", "            res = self.syncurrent  # B I O", "            res = self.synapse.current  # B I O")]},
    {"id": "C06-synspike-current", "props": ["C06"], "edits": [E("neural/base.py", "return self.synapse.spike_at(self.selector)", "return self.synapse.spike_at(self.delay)")]},
    {"id": "C06-trainer-peek-delayed", "props": ["C06"], "edits": [E("learn/trainers/two_factor_stdp.py", "                monitors[\"trace_pre\"].view(cell.connection.selector, state.tolerance)\n                if state.delayed and cell.connection.delayedby\n                else monitors[\"trace_pre\"].peek()", "                monitors[\"trace_pre\"].peek()", 1)]},
    {"id": "C06-selector-arith", "props": ["C06"], "edits": [E("neural/connections/linear.py", 'return ein.rearrange(delays, "o i -> 1 i o").expand(self.batchsz, -1, -1)', 'return ein.rearrange(delays + self.dt, "o i -> 1 i o").expand(self.batchsz, -1, -1)')]},
    # ---------------- C07
    {"id": "C07-cumulative-sign", "props": ["C07"], "edits": [E("core/trace.py", "return (decay * trace) + (amplitude * mask.to(dtype=trace.dtype))", "return (decay * trace) - (amplitude * mask.to(dtype=trace.dtype))")]},
    {"id": "C07-initial-flag", "props": ["C07"], "edits": [E("observe/reducers/base.py", "            self.push(res)\n            self._initial = False", "            self.push(res)")]},
    {"id": "C07-dump-align1", "props": ["C07"], "edits": [E("observe/reducers/base.py", "            self.data_.align(0)", "            self.data_.align(1)")]},
    {"id": "C07-decay-not-recomputed", "props": ["C07", "C14"], "edits": [E("observe/reducers/trace.py", "        FoldReducer.dt.fset(self, value)\n        self.decay = exp(-self.dt / self.time_constant)", "        FoldReducer.dt.fset(self, value)", 6)]},
    {"id": "C07-interp-wrong-tc", "props": ["C07"], "edits": [E("observe/reducers/trace.py", "step_time, time_constant=self.time_constant\n", "step_time, time_constant=self.decay\n", 6)]},
    {"id": "C07-event-fold", "props": ["C07", "C18"], "edits": [E("observe/reducers/general.py", "return torch.where(self.criterion(obs), 0, state + self.dt)", "return torch.where(self.criterion(obs), self.dt, state + self.dt)")]},
    # ---------------- C08
    {"id": "C08-tc-swapped", "props": ["C08"], "edits": [E("learn/trainers/two_factor_stdp.py", "                    state.tc_post,\n                    amplitude=abs(state.lr_pre),", "                    state.tc_pre,\n                    amplitude=abs(state.lr_pre),")]},
    {"id": "C08-amp-wrong-lr", "props": ["C08"], "edits": [E("learn/trainers/two_factor_stdp.py", "                    state.tc_pre,\n                    amplitude=abs(state.lr_post),", "                    state.tc_pre,\n                    amplitude=abs(state.lr_pre),")]},
    {"id": "C08-pairing", "props": ["C08"], "edits": [E("learn/trainers/two_factor_stdp.py", "ein.einsum(i_post, x_pre, \"b ... r, b ... r -> b ...\")", "ein.einsum(i_post, x_post, \"b ... r, b ... r -> b ...\")", 2)]},
    {"id": "C08-triplet-present-step", "props": ["C08"], "edits": [E("learn/trainers/two_factor_stdp.py", 'y_b = monitors["trace_post_slow"].reducer.data_.read(2)', 'y_b = monitors["trace_post_slow"].reducer.data_.read(1)', 2)]},
    {"id": "C08-elig-scale", "props": ["C08"], "edits": [E("learn/trainers/three_factor_stdp.py", "self.scale = 1 / self.time_constant", "self.scale = self.time_constant")]},
    # ---------------- C09
    {"id": "C09-case-swapped", "props": ["C09"], "edits": [E("learn/trainers/two_factor_stdp.py", "                case (False, True):  # anti-hebbian\n                    cell.updater.weight = (dpre, dpost)", "                case (False, True):  # anti-hebbian\n                    cell.updater.weight = (dpost, dpre)", 4)]},
    {"id": "C09-case-missing", "props": ["C09"], "edits": [E("learn/trainers/delay_adj_two_factor_stdp.py", "                case (False, False):  # depressive\n                    cell.updater.weight = (None, dpos + dneg)\n", "")]},
    {"id": "C09-term-dropped", "props": ["C09"], "edits": [E("learn/trainers/delay_adj_two_factor_stdp.py", "cell.updater.weight = (dpos + dneg, None)", "cell.updater.weight = (dpos, None)")]},
    {"id": "C09-signal-partition", "props": ["C09"], "edits": [E("learn/trainers/three_factor_stdp.py", "                    case (True, False):  # hebbian\n                        dpos = torch.cat((dpost_reg, dpre_inv), 0)\n                        dneg = torch.cat((dpost_inv, dpre_reg), 0)", "                    case (True, False):  # hebbian\n                        dpos = torch.cat((dpost_reg, dpre_reg), 0)\n                        dneg = torch.cat((dpost_inv, dpre_inv), 0)", 2)]},
    {"id": "C09-kernel-neg-sign", "props": ["C09"], "edits": [E("learn/trainers/kernel_stdp.py", "                -(\n                    state.batchreduce(dpost.clamp_max(0.0).nansum(dim=-1), 0)", "                (\n                    state.batchreduce(dpost.clamp_max(0.0).nansum(dim=-1), 0)", 3)]},
    {"id": "C09-update-sign", "props": ["C09", "C10"], "edits": [E("neural/modeling.py", "return self.bind[0](param, pos) - self.bind[1](param, neg)", "return self.bind[0](param, pos) + self.bind[1](param, neg)")]},
    # ---------------- C10
    {"id": "C10-cache-not-cleared", "props": ["C10"], "edits": [E("neural/modeling.py", "            self._neg.append(value)\n            self._neg_cache.cache_clear()", "            self._neg.append(value)")]},
    {"id": "C10-clear-before-apply", "props": ["C10"], "edits": [E("neural/modeling.py", "            self.updater(**kwargs)\n            if clear:\n                self.updater.clear(**kwargs)", "            if clear:\n                self.updater.clear(**kwargs)\n            self.updater(**kwargs)")]},
    {"id": "C10-bound-formula", "props": ["C10"], "edits": [E("functional/bounding.py", "return (param - limit) * update", "return (limit - param) * update")]},
    {"id": "C10-clear-only-pos", "props": ["C10"], "edits": [E("neural/modeling.py", "        del self.pos\n        del self.neg", "        del self.pos")]},
    {"id": "C10-upper-slot", "props": ["C10", "C09"], "edits": [E("neural/modeling.py", "            self.bind[0] = lambda x, p, ub=max, k=kwargs: bound(x, p, ub, **k)", "            self.bind[1] = lambda x, p, ub=max, k=kwargs: bound(x, p, ub, **k)")]},
    {"id": "C10-reduction-lost", "props": ["C10"], "edits": [E("neural/modeling.py", "                acc.reduction(reduction)", "                acc.reduction()")]},
    {"id": "C10-scaled-range-denominator", "props": ["C10"], "edits": [E("functional/bounding.py", "pos = bound_upper_scaled_multiplicative(param, pos, max, max - min)", "pos = bound_upper_scaled_multiplicative(param, pos, max, max)")]},
    # ---------------- C11
    {"id": "C11-adapt-sum-batch", "props": ["C11"], "edits": [E("neural/functional/neuron_adaptation.py", "return threshold + torch.sum(adaptations, dim=-1)", "return threshold + torch.sum(adaptations, dim=0)")]},
    {"id": "C11-direct-normalise", "props": ["C11"], "edits": [E("neural/connections/linear.py", "            res = res * self.weight\n\n        return res.view(-1, *self.outshape)", "            res = res * self.weight / res.amax()\n\n        return res.view(-1, *self.outshape)")]},
    {"id": "C11-like-synaptic-merge", "props": ["C11"], "edits": [E("neural/connections/linear.py", 'return ein.rearrange(data, "b ... -> b (...)")', 'return ein.rearrange(data, "b ... -> (b ...)")', 2)]},
    # ---------------- C12
    {"id": "C12-feedback-nonpersistent", "props": ["C12"], "edits": [E("neural/network.py", 'self.register_buffer("feedback_spikes", None)', 'self.register_buffer("feedback_spikes", None, persistent=False)')]},
    {"id": "C12-initial-plain-attr", "props": ["C12"], "edits": [E("observe/reducers/base.py", 'self.register_extra("_initial", True)', "self._initial = True")]},
    {"id": "C12-pointer-not-extra", "props": ["C12"], "edits": [E(INFRA, "        if isinstance(owner, Module):\n            owner.register_extra(self.__attributes.pointer, 0)\n        else:\n            setattr(owner, self.__attributes.pointer, 0)", "        setattr(owner, self.__attributes.pointer, 0)")]},
    {"id": "C12-posthook-dropped", "props": ["C12"], "edits": [E("learn/classifiers/simple.py", "        self.register_load_state_dict_post_hook(sdhook)", "        pass")]},
    {"id": "C12-set-extra-replaces", "props": ["C12"], "edits": [E(INFRA, "        self._extras.update(state)", "        pass")]},
    # ---------------- C13
    {"id": "C13-size-floor", "props": ["C13"], "edits": [E(INFRA, "size = max(math.ceil(self.__duration / self.__dt) + self.__inclusive, 1)", "size = max(math.floor(self.__duration / self.__dt) + self.__inclusive, 1)", 2)]},
    {"id": "C13-shrink-head", "props": ["C13"], "edits": [E(INFRA, "            slices[dim] = slice(tensor.shape[dim] - size, None)\n            return tensor[*slices]", "            slices[dim] = slice(None, size)\n            return tensor[*slices]")]},
    {"id": "C13-grow-append", "props": ["C13"], "edits": [E(INFRA, "return torch.cat((zeros(tensor, shape=shape), tensor), dim)", "return torch.cat((tensor, zeros(tensor, shape=shape)), dim)")]},
    {"id": "C13-unguarded-align", "props": ["C13"], "edits": [E(INFRA, "                if not self._ignore(self.__data):\n                    self.align(0)\n", "                self.align(0)\n", 2)]},
    {"id": "C13-mutate-before-refuse", "props": ["C13"], "edits": [E(INFRA, "                    # add if compatible\n                    if _constraints_compatible(", "                    constraints[dim] = size\n                    # add if compatible\n                    if _constraints_compatible(")]},
    {"id": "C13-resize-head", "props": ["C13"], "edits": [E(INFRA, "                slices[dim] = slice(value.shape[dim] - size, None)\n            else:\n                slices[dim] = slice(None, size)", "                slices[dim] = slice(None, size)\n            else:\n                slices[dim] = slice(value.shape[dim] - size, None)")]},
    # ---------------- C14
    {"id": "C14-setter-wrong-field", "props": ["C14"], "edits": [E("neural/mixins.py", "                getattr(self, cstr).dt = value\n            self.__step_time = value", "                getattr(self, cstr).dt = value\n            self.__delay = value")]},
    {"id": "C14-delay-plus-dt", "props": ["C14"], "edits": [E("neural/mixins.py", "getattr(self, cstr).duration = value\n", "getattr(self, cstr).duration = value + self.__step_time\n")]},
    {"id": "C14-synapse-no-clear", "props": ["C14"], "edits": [E("neural/base.py", "        DelayedMixin.dt.fset(self, value)\n        self.clear()", "        DelayedMixin.dt.fset(self, value)")]},
    {"id": "C14-validator-disagrees", "props": ["C14"], "edits": [E("neural/mixins.py", 'value = argtest.gte("delay", value, 0, float)', 'value = argtest.gt("delay", value, 0, float)')]},
    # ---------------- C15
    {"id": "C15-train-no-register", "props": ["C15"], "edits": [E("learn/base.py", "            for monitor in self.monitor_pool_.monitors:\n                monitor.register()", "            pass")]},
    {"id": "C15-release-unconditional", "props": ["C15"], "edits": [E("observe/pooling.py", "                if id(monitor) not in shared:\n                    monitor.deregister()", "                monitor.deregister()")]},
    {"id": "C15-eval-update-true", "props": ["C15"], "edits": [E("learn/trainers/two_factor_stdp.py", '            "eval_update": False,', '            "eval_update": True,', 4)]},
    {"id": "C15-gating", "props": ["C15", "C16"], "edits": [E(INFRA, "        if self.evalexec and not module.training:\n            return self._posthook_call(module, *args, **kwargs)", "        if self.evalexec:\n            return self._posthook_call(module, *args, **kwargs)")]},
    {"id": "C15-tag-dropped", "props": ["C15"], "edits": [E("learn/trainers/two_factor_stdp.py", "            tc=state.tc_post,\n            trace=state.tracemode,\n        )\n\n        # postsynaptic spike monitor (triggers hebbian LTP)", "            tc=state.tc_post,\n        )\n\n        # postsynaptic spike monitor (triggers hebbian LTP)", 2)]},
    {"id": "C15-guard-dropped", "props": ["C15"], "edits": [E("learn/trainers/homeostasis.py", "            if not cell.training or not self.training or not cell.updater:\n                continue\n", "")]},
    {"id": "C15-remap-swapped", "props": ["C15"], "edits": [E("neural/network.py", '"precurrent": ["connection", "syncurrent"],', '"precurrent": ["connection", "synspike"],')]},
    {"id": "C15-realign-path", "props": ["C15"], "edits": [E("neural/network.py", 'return f"neurons_.{neuron}', 'return f"connections_.{neuron}')]},
    # ---------------- C16
    {"id": "C16-strong-capture", "props": ["C16"], "edits": [E(INFRA, "                    lambda module, *args, **kwargs: weakself().__wrapped_posthook(", "                    lambda module, *args, **kwargs: self.__wrapped_posthook(")]},
    {"id": "C16-dereg-keeps-handle", "props": ["C16"], "edits": [E(INFRA, "        self.__prehook_handle = None\n        self.__posthook_handle = None\n        if self.__finalizer:", "        self.__prehook_handle = None\n        if self.__finalizer:")]},
    {"id": "C16-clamp-swapped", "props": ["C16"], "edits": [E("neural/hooks.py", "min=self.clampmin,\n                max=self.clampmax,", "min=self.clampmax,\n                max=self.clampmin,")]},
    {"id": "C16-placement", "props": ["C16"], "edits": [E(INFRA, 'posthook="_StateHook__wrapped_hook" if not as_prehook else None,', 'posthook="_StateHook__wrapped_hook",')]},
    {"id": "C16-normalize-scale", "props": ["C16"], "edits": [E("core/math.py", "return scale * F.normalize(data, p=order, dim=dim, eps=epsilon)", "return F.normalize(data, p=order, dim=dim, eps=epsilon)")]},
    # ---------------- C17
    {"id": "C17-clear-keys", "props": ["C17"], "edits": [E("neural/network.py", "for connection in self.connections_.values():\n                connection.clear(**kwargs)", "for connection in self.connections_:\n                connection.clear(**kwargs)", 2)]},
    {"id": "C17-feedback-early", "props": ["C17"], "edits": [E("neural/network.py", "        bres = Layer.forward(", "        self.feedback_spikes = self.get_neuron(self.__feedback_neuron_name).spike\n        bres = Layer.forward(")]},
    {"id": "C17-neuron-clear-forgets-refrac", "props": ["C17"], "edits": [E("neural/neurons/nonlinear.py", "        self.voltage = torch.full_like(self.voltage, self.rest_v)\n        self.refrac = torch.zeros_like(self.refrac)\n\n    def forward(self, inputs: torch.Tensor, refrac_lock=True", "        self.voltage = torch.full_like(self.voltage, self.rest_v)\n\n    def forward(self, inputs: torch.Tensor, refrac_lock=True", 2)]},
    {"id": "C17-serial-wiring", "props": ["C17"], "edits": [E("neural/network.py", "            self.__neuron_name: self._transform(\n                inputs[self.__connection_name], **kwargs\n            )", "            self.__neuron_name: inputs[self.__connection_name]")]},
    # ---------------- C18
    {"id": "C18-tdelta-sign", "props": ["C18"], "edits": [E("learn/trainers/delay_adj_two_factor_stdp.py", "t_delta = t_pre - t_post - cell.connection.delay.unsqueeze(-1)", "t_delta = t_pre - t_post + cell.connection.delay.unsqueeze(-1)", 2)]},
    {"id": "C18-mask-overlap", "props": ["C18"], "edits": [E("learn/trainers/delay_adj_two_factor_stdp.py", "(t_delta < 0).to(dtype=t_delta_abs.dtype)", "(t_delta <= 0).to(dtype=t_delta_abs.dtype)", 2)]},
    {"id": "C18-nan-initial", "props": ["C18"], "edits": [E("learn/trainers/kernel_stdp.py", 'initial="nan",', 'initial="inf",', 6)]},
    {"id": "C18-kernel-sign", "props": ["C18"], "edits": [E("functional/stdkernels.py", "return torch.exp(diff.abs() / (-time_constant)) * (\n        learning_rate * (diff >= 0)", "return torch.exp(diff.abs() / (time_constant)) * (\n        learning_rate * (diff >= 0)")]},
    {"id": "C18-sum-not-nansum", "props": ["C18"], "edits": [E("learn/trainers/delay_adj_two_factor_stdp.py", ").nansum(-1),", ").sum(-1),", 4)]},
    # ---------------- C19
    {"id": "C19-no-bool", "props": ["C19"], "edits": [E("neural/functional/encoding.py", "            generator=generator,\n        ).bool()", "            generator=generator,\n        )", 1)]},
    {"id": "C19-slice", "props": ["C19"], "edits": [E("neural/functional/encoding.py", "        res = res[1:-1]", "        res = res[1:]")]},
    {"id": "C19-generator-dropped", "props": ["C19"], "edits": [E("neural/functional/encoding.py", "intervals = torch.poisson(inputs, generator=generator)", "intervals = torch.poisson(inputs)")]},
    {"id": "C19-refrac-dead", "props": ["C19"], "edits": [E("neural/functional/encoding.py", "refrac = step_time if refrac is None else refrac", "refrac = step_time if refrac is None else step_time", 2)]},
    {"id": "C19-mask-unindexed", "props": ["C19"], "edits": [E("neural/functional/encoding.py", "intervals[spikes] = torch.poisson(inputs[spikes], generator=generator)", "intervals[spikes] = torch.poisson(inputs, generator=generator)")]},
    {"id": "C19-encoder-wrong-attr", "props": ["C19"], "edits": [E("neural/encoders/poisson.py", "                refrac=self.refrac,", "                refrac=self.dt,", 2)]},
    {"id": "C19-compensate-sign", "props": ["C19"], "edits": [E("neural/functional/encoding.py", "            res = res - refrac", "            res = res + refrac")]},
    {"id": "C19-offset-dropped", "props": ["C19"], "edits": [E("neural/functional/encoding.py", "            * inputs[spikes]\n                + refrac\n", "            * inputs[spikes]\n")]},
    # ---------------- C20
    {"id": "C20-logcdf-recursion", "props": ["C20"], "edits": [E("stats/distributions.py", "return torch.log(cls.cdf(support, loc, scale))\n\n    @classmethod\n    def mean(\n        cls, loc", "return torch.log(cls.logcdf(support, loc, scale))\n\n    @classmethod\n    def mean(\n        cls, loc")]},
    {"id": "C20-normal-pdf", "props": ["C20"], "edits": [E("stats/distributions.py", "-0.5 * ((support - loc) / scale) ** 2", "-0.5 * ((support - loc) / scale)")]},
    {"id": "C20-linear-interp", "props": ["C20", "C02"], "edits": [E("functional/interpolation.py", "slope = (next_data - prev_data) / step_time", "slope = (prev_data - next_data) / step_time")]},
    {"id": "C20-lognormal-mean", "props": ["C20"], "edits": [E("stats/distributions.py", "return torch.exp(loc + scale**2 / 2)", "return torch.exp(loc + scale / 2)")]},
]

BREAKING += [
    {"id": "C20-vp-shift-index", "props": ["C20"], "edits": [E("core/math.py", "cost * torch.abs(t0[r - 1] - t1[c - 1])", "cost * torch.abs(t0[r - 1] - t1[c])")]},
    {"id": "C20-vp-insert-cost", "props": ["C20"], "edits": [E("core/math.py", "c_add_b = grid[:, r, c - 1] + 1", "c_add_b = grid[:, r, c - 1] + cost")]},
    {"id": "C20-isi-shift", "props": ["C20"], "edits": [E("core/math.py", "(nz - 1) * step_time", "nz * step_time")]},
    {"id": "C07-dt-setter-order", "props": ["C07", "C14"], "edits": [E("observe/reducers/trace.py", "        FoldReducer.dt.fset(self, value)\n        self.decay = exp(-self.dt / self.time_constant)", "        self.decay = exp(-self.dt / self.time_constant)\n        FoldReducer.dt.fset(self, value)", 6)]},
    {"id": "C07-clear-default-fill", "props": ["C07"], "edits": [E("observe/reducers/base.py", "self.data_.reset(self.__fill)", "self.data_.reset()")]},
    {"id": "C06-reset-falsy", "props": ["C06", "C01"], "edits": [E(INFRA, "        if fill is not None:\n            # perform fill if not ignored", "        if fill:\n            # perform fill if not ignored")]},
    {"id": "C06-conv-selector-order", "props": ["C06"], "silent": ["C05"], "edits": [E("neural/connections/conv.py", '"f c h w -> 1 (c h w) 1 f"', '"f c h w -> 1 (h w c) 1 f"')]},
    {"id": "C05-updater-bypass", "props": ["C05"], "silent": ["C10"], "edits": [E("neural/modeling.py", "                setattr(module, p, self.updates_[p](getattr(module, p), **kwargs))", "                param = getattr(module, p)\n                param.data = self.updates_[p](param, **kwargs)")]},
    {"id": "C09-guard-wrong-part", "props": ["C09"], "edits": [E("learn/trainers/three_factor_stdp.py", "state.batchreduce(dneg, 0) if dneg.numel() else None", "state.batchreduce(dneg, 0) if dpos.numel() else None", 2)]},
    {"id": "C11-trainer-default-reduction", "props": ["C11"], "silent": ["C09"], "edits": [E("learn/trainers/two_factor_stdp.py", "            dpre = state.batchreduce(\n                ein.einsum(i_pre, x_post,", "            dpre = self.batchreduce(\n                ein.einsum(i_pre, x_post,", 2)]},
    {"id": "C18-delay-cached-at-registration", "props": ["C18"], "silent": ["C06"], "edits": [
        E("learn/trainers/delay_adj_two_factor_stdp.py", "        # common and derived arguments\n        monitor_kwargs = {", "        state.delay = cell.connection.delay.unsqueeze(-1)\n\n        # common and derived arguments\n        monitor_kwargs = {", 2),
        E("learn/trainers/delay_adj_two_factor_stdp.py", "t_delta = t_pre - t_post - cell.connection.delay.unsqueeze(-1)", "t_delta = t_pre - t_post - state.delay", 2)]},
    {"id": "C01-extracted-helper-wrong-order", "props": ["C01"], "edits": [E(INFRA, "        self.write(obs, offset=0, inplace=inplace)\n        self.incr(1)", "        self._write_and_advance(obs, inplace)\n\n    def _write_and_advance(self, obs, inplace):\n        self.incr(1)\n        self.write(obs, offset=0, inplace=inplace)")]},
    {"id": "C13-extracted-size-helper-floor", "props": ["C13"], "edits": [E(INFRA, "        size = max(math.ceil(self.__duration / self.__dt) + self.__inclusive, 1)", "        size = _record_size(self.__duration, self.__dt, self.__inclusive)", 2),
                                                  E(INFRA, "def _unwind_ptr(", "def _record_size(duration, dt, inclusive):\n    return max(math.floor(duration / dt) + inclusive, 1)\n\n\ndef _unwind_ptr(")]},
    {"id": "C15-release-test-is-not", "props": ["C15"], "edits": [E("observe/pooling.py", "m is target for group in self.monitors_.values()", "m is not target for group in self.monitors_.values()")]},
    {"id": "C15-release-test-polarity", "props": ["C15"], "edits": [E("observe/pooling.py", "if id(monitor) not in shared:", "if id(monitor) in shared:")]},
    {"id": "C08-triplet-factor-constant", "props": ["C08"], "edits": [E("learn/trainers/two_factor_stdp.py", "(1.0 + x_b) * x", "(2.0 + x_b) * x")]},
    {"id": "C09-homeostasis-wrong-updater", "props": ["C09"], "edits": [E("learn/trainers/homeostasis.py", "                cell.updater.bias = (", "                cell.updater.weight = (")]},
]

BENIGN = [
    {"id": "B-unparse-roundtrip-whole-tree", "transform": "unparse_all"},
    {"id": "B-rename-all-locals", "transform": "rename_locals", "suffix": "_r"},
    {"id": "B-flip-all-comparisons", "transform": "flip_compares"},
    {"id": "B-swap-all-if-arms", "transform": "swap_if_arms"},
    {"id": "B-swap-all-conditional-expressions", "transform": "swap_ifexp"},
    {"id": "B-commute-all-products", "transform": "commute_mult"},
    {"id": "B-reverse-all-keyword-arguments", "transform": "reverse_keywords"},
    {"id": "B-return-through-temporaries", "transform": "return_temporaries"},
    {"id": "B-alif-rebinding-flag", "edits": [E("neural/neurons/linear.py", "        if adapt or (adapt is None and self.training):", "        adapt = adapt or (adapt is None and self.training)\n        if adapt:", 2)]},
    {"id": "B-repair-of-known-finding-D24", "edits": [
        E("learn/trainers/homeostasis.py", "state.batchreduce(k.clamp_max(0.0), 0),", "state.batchreduce(-k.clamp_max(0.0), 0),", 2),
        E("learn/trainers/homeostasis.py", "cell.connection.like_bias(state.batchreduce(k.clamp_max(0.0), 0)),", "cell.connection.like_bias(state.batchreduce(-k.clamp_max(0.0), 0)),", 1)]},
    {"id": "B-extract-helper-method-push", "edits": [E(INFRA, "        self.write(obs, offset=0, inplace=inplace)\n        self.incr(1)", "        self._write_and_advance(obs, inplace)\n\n    def _write_and_advance(self, obs, inplace):\n        self.write(obs, offset=0, inplace=inplace)\n        self.incr(1)")]},
    {"id": "B-extract-helper-function-size", "edits": [E(INFRA, "        size = max(math.ceil(self.__duration / self.__dt) + self.__inclusive, 1)", "        size = _record_size(self.__duration, self.__dt, self.__inclusive)", 2),
                                                  E(INFRA, "def _unwind_ptr(", "def _record_size(duration, dt, inclusive):\n    return max(math.ceil(duration / dt) + inclusive, 1)\n\n\ndef _unwind_ptr(")]},
    {"id": "B-positional-vs-keyword-arguments", "edits": [E(INFRA, "        self.write(obs, offset=0, inplace=inplace)\n        self.incr(1)", "        self.write(obs, 0, inplace)\n        self.incr()"),
                                                      E(INFRA, "            self.decr(1)\n            return self.read(0)", "            self.decr(pos=1)\n            return self.read(offset=0)")]},
    {"id": "B-helper-commuted", "edits": [E(INFRA, "return (pointer - int(offset)) % size", "return (-int(offset) + pointer) % size")]},
    {"id": "B-push-temp", "edits": [E(INFRA, "        self.write(obs, offset=0, inplace=inplace)\n        self.incr(1)", "        zero = 0\n        self.write(obs, offset=0, inplace=inplace)\n        _ = self.incr(1)")]},
    {"id": "B-lif-extract-temp", "edits": [E("neural/functional/neuron_dynamics.py", "    return rest_v + (voltages - rest_v - extvoltage) * decay + extvoltage", "    relaxed = (voltages - rest_v - extvoltage) * decay\n    return extvoltage + rest_v + relaxed")]},
    {"id": "B-thresholding-torch-where", "edits": [E("neural/functional/neuron_dynamics.py", "refracs = refracs.where(~spikes, refrac_t)", "refracs = torch.where(spikes, refrac_t, refracs)", 2)]},
    {"id": "B-trace-rename-local", "edits": [E("core/trace.py", "    # construct mask\n    mask = matchfn(observation)\n\n    # compute new state\n    if trace is None:\n        return (scale * observation + amplitude) * mask\n    else:\n        return (decay * trace) + (scale * observation + amplitude) * mask", "    # construct mask\n    hit = matchfn(observation)\n\n    # compute new state\n    if trace is None:\n        return (scale * observation + amplitude) * hit\n    else:\n        return (scale * observation + amplitude) * hit + (decay * trace)")]},
    {"id": "B-bound-commuted", "edits": [E("functional/bounding.py", "return (limit - param) * update", "return update * (limit - param)")]},
    {"id": "B-kernel-neg-moved", "edits": [E("functional/stdkernels.py", "torch.exp(diff.abs() / (-time_constant))", "torch.exp(-diff.abs() / time_constant)", 2)]},
    {"id": "B-singleexp-reordered", "edits": [E("neural/synapses/expcurrent.py", "self.current * math.exp(-self.dt / self.time_constant)\n            + (self.spike_charge / self.time_constant) * inputs[0]", "inputs[0] * (self.spike_charge / self.time_constant)\n            + math.exp(-self.dt / self.time_constant) * self.current")]},
    {"id": "B-stdp-case-order", "edits": [E("learn/trainers/delay_adj_two_factor_stdp.py", "                case (False, False):  # depressive\n                    cell.updater.weight = (None, dpos + dneg)\n                case (False, True):  # anti-hebbian\n                    cell.updater.weight = (dneg, dpos)", "                case (False, True):  # anti-hebbian\n                    cell.updater.weight = (dneg, dpos)\n                case (False, False):  # depressive\n                    cell.updater.weight = (None, dneg + dpos)")]},
    {"id": "B-accumulator-early-return", "edits": [E("neural/modeling.py", "        update = self.update(param, **kwargs)\n        if update is not None:\n            return param + update\n        else:\n            return param", "        update = self.update(param, **kwargs)\n        if update is None:\n            return param\n        return update + param")]},
    {"id": "B-size-formula-temp", "edits": [E(INFRA, "        size = max(math.ceil(self.__duration / self.__dt) + self.__inclusive, 1)", "        steps = math.ceil(self.__duration / self.__dt)\n        size = max(1, steps + self.__inclusive)", 2)]},
    {"id": "B-docstring-and-comments", "edits": [E("neural/connections/linear.py", "        # reshape inputs and perform synapse simulation", "        # reshape the inputs, then step the synapse (comment changed)", 2)]},
    {"id": "B-interp-linear-convex", "edits": [E("functional/interpolation.py", "    slope = (next_data - prev_data) / step_time\n    return prev_data + slope * sample_at", "    w = sample_at / step_time\n    return (1 - w) * prev_data + w * next_data")]},
    {"id": "B-poisson-logpmf-reordered", "edits": [E("stats/distributions.py", "return torch.special.xlogy(support, rate) - rate - torch.lgamma(support + 1)", "return -rate + torch.special.xlogy(support, rate) - torch.lgamma(1 + support)")]},
    {"id": "B-event-fold-else-dropped", "edits": [E("observe/reducers/general.py", "        else:\n            return torch.where(self.criterion(obs), 0, state + self.dt).to(\n                dtype=self.data.dtype\n            )", "        return torch.where(self.criterion(obs), 0, self.dt + state).to(\n            dtype=self.data.dtype\n        )")]},
    {"id": "B-updatable-update-nested", "edits": [E("neural/modeling.py", "            self.updater(**kwargs)\n            if clear:\n                self.updater.clear(**kwargs)", "            upd = self.updater\n            self.updater(**kwargs)\n            if clear:\n                self.updater.clear(**kwargs)")]},
    {"id": "B-readrange-guard-flipped", "edits": [E(INFRA, "            if start >= end:\n                return ein.rearrange(\n                    torch.cat((data[start:, ...], data[:end, ...]), 0), \"t ... -> ... t\"\n                )\n            else:\n                return ein.rearrange(data[start:end, ...], \"t ... -> ... t\")", "            if start < end:\n                return ein.rearrange(data[start:end, ...], \"t ... -> ... t\")\n            else:\n                return ein.rearrange(\n                    torch.cat((data[start:, ...], data[:end, ...]), 0), \"t ... -> ... t\"\n                )")]},
]
