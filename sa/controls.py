"""Positive controls: tiny known-bad sources on which zero-expected-count rules must fire."""
from __future__ import annotations

import ast

from . import einops_alg
from .grules import bind_call


def run() -> int:
    bad = 0
    # G1 control: keyword-only passed positionally
    fn = ast.parse("def f(a, b, *, power): pass").body[0]
    call = ast.parse("f(1, 2, 3)").body[0].value
    msgs, _ = bind_call(call, fn, False)
    if not msgs:
        print("CONTROL-FAIL G1 did not fire on keyword-only passed positionally")
        bad += 1
    # G11 control
    if not einops_alg.wellformed("rearrange", "b n l ... -> b (...) c l", set(), 1):
        print("CONTROL-FAIL G11 did not fire on unbalanced rearrange")
        bad += 1
    if einops_alg.wellformed("rearrange", "b (c k) l -> b c k l", {"c"}, 1):
        print("CONTROL-FAIL G11 fired on a balanced rearrange")
        bad += 1
    return bad
