"""Positive controls: tiny known-bad sources on which zero-expected-count rules must fire."""
from __future__ import annotations

import ast

from . import einops_alg
from .grules import bind_call


def run() -> int:
    bad = 0
    # G1 control: keyword-only passed positionally
    fn = ast.parse("def f(a, b, *, power): pass").body[0]
    call = ast.parse("f(1, 2, 3)").body[0].value
    msgs, _ = bind_call(call, fn, False)
    if not msgs:
        print("CONTROL-FAIL G1 did not fire on keyword-only passed positionally")
        bad += 1
    # G11 control
    if not einops_alg.wellformed("rearrange", "b n l ... -> b (...) c l", set(), 1):
        print("CONTROL-FAIL G11 did not fire on unbalanced rearrange")
        bad += 1
    if einops_alg.wellformed("rearrange", "b (c k) l -> b c k l", {"c"}, 1):
        print("CONTROL-FAIL G11 fired on a balanced rearrange")
        bad += 1
    bad += _program_controls()
    return bad


_CTL = '''
import torch


class Owner:
    def __init__(self, first, second, option=None):
        for a in first:
            self.x = a
        for b in second:
            self.y = a[1]            # G15: `a` leaked from the first loop

    @property
    def view(self):
        return self._record[0]

    def step(self, inputs):
        res = self.view
        res *= 2.0                    # G13: in-place on a property value
        return res

    def same(self):
        limit = torch.as_tensor(self.limit)
        return self.state == limit    # G14: exact comparison through a conversion

    def kernel_pre(self, x):
        return x

    def run(self, state):
        return self.kernel_pre(state.kernel_post_args)   # G2b

    def build(self, train_update, eval_update):
        return dict(train_update=train_update, eval_update=train_update)   # G17

    @property
    def mode(self):
        return self._mode

    @mode.setter
    def mode(self, value):
        if value is None:
            self._derived = True
            self._mode = 0
        else:
            self._mode = value        # G16: the flag of the other arm is not reset
'''


def _program_controls() -> int:
    """Zero-expected-count generic rules must fire on a tiny known-bad package (built under a temporary directory)."""
    import os
    import shutil
    import tempfile
    from .model import Program
    from .framework import Ctx
    from . import grules as G
    tmp = tempfile.mkdtemp(prefix="sa_ctl_")
    try:
        os.makedirs(os.path.join(tmp, "inferno"))
        open(os.path.join(tmp, "inferno", "__init__.py"), "w").write("")
        open(os.path.join(tmp, "inferno", "ctl.py"), "w").write(_CTL)
        prog = Program(tmp, min_files=1)
        ctx = Ctx(prog, "C00")
        funcs = list(prog.funcs)
        G.g2b_role_tokens(ctx, funcs)
        G.g12_dead_parameter(ctx, funcs)
        G.g13_inplace_alias(ctx, funcs)
        G.g14_exact_compare(ctx, funcs)
        G.g15_leaked_loop_variable(ctx, funcs)
        G.g16_symmetric_arms(ctx, funcs)
        G.g17_keyword_namesake(ctx, funcs)
        fired = {o.rule for o in ctx.findings()}
        bad = 0
        for r in ("G2b", "G18", "G13", "G14", "G15", "G16", "G17"):
            if r not in fired:
                print(f"CONTROL-FAIL {r} did not fire on the known-bad control package")
                bad += 1
        return bad
    finally:
        shutil.rmtree(tmp, ignore_errors=True)
