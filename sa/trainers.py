"""Shared facts about trainer classes: the add_monitor table of register_cell, and the
path-sensitive abstract walk of `forward` used by C09 (routing, sign) and C08/C18."""
from __future__ import annotations

import ast
from dataclasses import dataclass, field

from .model import Program, ClassInfo, Func, walk_own, dotted, AnalysisError, kwarg, strip_doc


def trainer_classes(prog: Program) -> list[ClassInfo]:
    out = []
    for c in prog.all_classes:
        if c.is_subclass_of("CellTrainer") and c.name not in ("CellTrainer", "IndependentCellTrainer") \
                and "forward" in c.methods and "register_cell" in c.methods:
            out.append(c)
    return sorted(out, key=lambda c: (c.module.name, c.node.lineno))


@dataclass
class MonitorSite:
    cls: ClassInfo
    call: ast.Call
    name: str
    attr: ast.AST                 # observed attribute expression (str const or IfExp)
    ctor: ast.Call | None         # X.partialconstructor(...)
    reducer: ast.Call | None      # reducer=<Call>
    unpooled: ast.AST | None
    tags: dict = field(default_factory=dict)

    @property
    def reducer_cls(self) -> str:
        return ast.unparse(self.reducer.func) if self.reducer is not None else "?"

    def reducer_arg(self, name: str, pos: int | None = None):
        return kwarg(self.reducer, name, pos) if self.reducer is not None else None

    def ctor_kw(self, name: str):
        return kwarg(self.ctor, name) if self.ctor is not None else None

    @property
    def subattrs(self) -> list[str]:
        v = self.ctor_kw("subattrs")
        if isinstance(v, (ast.Tuple, ast.List)):
            return [e.value for e in v.elts if isinstance(e, ast.Constant)]
        return []

    def attr_options(self) -> list[str]:
        a = self.attr
        if isinstance(a, ast.Constant):
            return [a.value]
        if isinstance(a, ast.IfExp):
            return [x.value for x in (a.body, a.orelse) if isinstance(x, ast.Constant)]
        return []


def monitor_sites(prog: Program, c: ClassInfo) -> dict[str, MonitorSite]:
    f = c.methods.get("register_cell")
    if f is None:
        raise AnalysisError(f"anchor vanished: {c.name}.register_cell")
    out = {}
    for call in prog.calls_in(f):
        if dotted(call.func) != "self.add_monitor":
            continue
        a = call.args
        if len(a) < 4 or not isinstance(a[1], ast.Constant):
            continue
        ctor = a[3] if isinstance(a[3], ast.Call) else None
        red = kwarg(ctor, "reducer") if ctor is not None else None
        site = MonitorSite(c, call, a[1].value, a[2], ctor, red if isinstance(red, ast.Call) else None,
                           a[4] if len(a) > 4 else kwarg(call, "unpooled"),
                           {k.arg: k.value for k in call.keywords if k.arg})
        out[site.name] = site
    return out


def state_attrs(e: ast.AST) -> set[str]:
    return {n.attr for n in ast.walk(e) if isinstance(n, ast.Attribute) and isinstance(n.value, ast.Name) and n.value.id == "state"}


def monitor_state_deps(sites: dict[str, MonitorSite]) -> dict[str, set[str]]:
    """state.<attr> names each monitor's recorded value depends on (through reducer args and sub-monitors)."""
    deps = {k: (state_attrs(s.reducer) if s.reducer is not None else set()) - {"tracecls", "inplace"} for k, s in sites.items()}
    changed = True
    while changed:
        changed = False
        for k, s in sites.items():
            for sub in s.subattrs:
                base = sub.split(".")[0]
                if base in deps and not deps[base] <= deps[k]:
                    deps[k] |= deps[base]
                    changed = True
    return deps


def forward_loop(f: Func):
    """The `for cell, state, monitors in self` loop of a trainer forward; returns (loop, names)."""
    for n in strip_doc(f.node.body):
        if isinstance(n, ast.For):
            return n
    raise AnalysisError(f"anchor vanished: main loop of {f.short}")


def monitor_keys(e: ast.AST) -> set[str]:
    out = set()
    for n in ast.walk(e):
        if isinstance(n, ast.Subscript) and isinstance(n.value, ast.Name) and n.value.id == "monitors" \
                and isinstance(n.slice, ast.Constant):
            out.add(n.slice.value)
    return out
