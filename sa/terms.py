"""Value-flow terms: rebuild, by def-use substitution, the expression a function returns
or stores (DESIGN 2.2), as normal-form terms of nf.py.  if/else become guarded ite terms.
No path is enumerated by execution and nothing is evaluated.
"""
from __future__ import annotations

import ast
from fractions import Fraction

from . import nf
from .nf import Rat, C, sym, app, mk_cmp, mk_not, mk_bool, mk_ite, mk_exp, Facts, BOTTOM
from .model import Program, Func, strip_doc, dotted

MODULE_BASES = {"torch", "math", "F", "ein", "np", "einops", "functools", "cmath", "weakref", "itertools", "operator", "warnings", "nn", "argtest"}
CASTS = {"float", "bool", "long", "int", "double", "half", "type_as"}
IDENTITY_CASTS = {"astensors", "_astensorsfloat"}   # repo helpers that only convert their arguments to tensors
DEFAULT_POSITIVE = (
    "step_time", "dt", "self.dt", "time_constant", "tc", "tc_pre", "tc_post", "size", "recordsz",
    "self.recordsz", "self.__dt", "self.time_constant", "rate_constant",
)

_CMP = {ast.Gt: "gt", ast.GtE: "ge", ast.Lt: "lt", ast.LtE: "le", ast.Eq: "eq", ast.NotEq: "ne"}


def mk_attr(base, path: str):
    """Attribute access in one canonical form: `x.a.b` is the same term whether it is written as a chain, reached through an
    alias (`y = x.a; y.b`) or through a bound name."""
    if isinstance(base, Rat):
        at = base.as_atom()
        if at is not None and at.op == "sym" and isinstance(at.args[0], str) and not at.args[0].startswith("!"):
            return sym(at.args[0] + "." + path)
        if at is not None and at.op == "attr" and isinstance(at.args[1], str):
            return app("attr", at.args[0], at.args[1] + "." + path)
    return app("attr", base, path)


def _mark_scalar(c):
    """Conditions of Python `if` / conditional expressions have a single truth value per call."""
    if isinstance(c, Rat):
        d: dict = {}
        nf._atomic_conds(c, d)
        nf.SCALAR_CONDS.update(d.keys())
        for at in d.values():       # the mirrored comparison (lt for ge ...) is the same scalar condition
            if at.op in nf._NEG:
                nf.SCALAR_CONDS.add(nf.atom(nf._NEG[at.op], at.args[0]).uid)


class Opaque(Exception):
    pass


_fresh = [0]


def fresh(tag="opaque") -> Rat:
    _fresh[0] += 1
    return app("opaque", f"{tag}#{_fresh[0]}")


# operations that exist both as torch.<op>(tensor, ...) and tensor.<op>(...), with their positional parameters after the tensor
TENSOR_OPS = {
    "roll": ["shifts", "dims"], "clamp": ["min", "max"], "clamp_min": ["min"], "clamp_max": ["max"], "sum": ["dim", "keepdim"],
    "nansum": ["dim", "keepdim"], "mean": ["dim", "keepdim"], "amax": ["dim", "keepdim"], "amin": ["dim", "keepdim"], "unsqueeze": ["dim"],
    "squeeze": ["dim"], "flip": ["dims"], "cumsum": ["dim"], "gather": ["dim", "index"], "scatter": ["dim", "index", "src"],
    "logical_and": ["other"], "logical_or": ["other"], "logical_xor": ["other"], "logical_not": [], "abs": [], "exp": [], "log": [],
    "sqrt": [], "argwhere": [], "nonzero": [], "diff": ["n", "dim"], "tensor_split": ["indices_or_sections", "dim"], "nan_to_num": ["nan", "posinf", "neginf"],
    "heaviside": ["values"], "maximum": ["other"], "minimum": ["other"], "fmod": ["other"], "remainder": ["other"], "floor": [], "ceil": [], "round": [],
    "sign": [], "permute": ["dims"], "movedim": ["source", "destination"], "flatten": ["start_dim", "end_dim"], "masked_fill": ["mask", "value"],
    "index_select": ["dim", "index"], "any": ["dim", "keepdim"], "all": ["dim", "keepdim"], "isnan": [], "isinf": [], "numel": [],
    "bincount": ["weights", "minlength"], "argmax": ["dim", "keepdim"], "argmin": ["dim", "keepdim"], "prod": ["dim", "keepdim"],
    "std": ["dim", "correction", "keepdim"], "var": ["dim", "correction", "keepdim"], "repeat_interleave": ["repeats", "dim"],
}


# torch functions without a method form: positional parameters, so that `torch.cat(xs, dim=0)` and `torch.cat(xs, 0)` are one call
FUNC_SIGS = {"cat": ["tensors", "dim"], "stack": ["tensors", "dim"], "where": ["condition", "input", "other"], "arange": ["start", "end", "step"],
             "full": ["size", "fill_value"], "linspace": ["start", "end", "steps"], "pad": ["input", "pad", "mode", "value"],
             "normalize": ["input", "p", "dim", "eps"], "linear": ["input", "weight", "bias"], "conv2d": ["input", "weight", "bias", "stride", "padding", "dilation", "groups"]}


# functions of their arguments only (no hidden state): the same call before and after an effect is the same value
PURE_FUNCS = {"isinstance", "len", "float", "int", "bool", "abs", "max", "min", "sum", "tuple", "list", "range", "repeat", "chain", "slice", "zip",
              "enumerate", "ceil", "floor", "exp", "log", "sqrt", "full", "zeros", "ones", "empty", "cat", "stack", "where", "einsum", "rearrange",
              "reduce", "arange", "tensor", "as_tensor", "prod", "partial", "str", "dict", "set", "sorted", "reversed", "map", "filter", "any", "all",
              "hasattr", "type", "id"}


VALIDATORS = {"lt", "lte", "gt", "gte", "neq", "minmax_incl", "minmax_excl", "min_excl_max_incl", "min_incl_max_excl", "integer",
              "instance", "identifier", "nestedidentifier", "index"}


class Builder:
    """Builds terms for expressions of one function."""

    def __init__(self, prog: Program | None, func: Func | None, env=None, facts=None, *,
                 positive=DEFAULT_POSITIVE, erase_casts=True, inline_depth=3, self_prefix="self",
                 inline_filter=None, erase_layout=False, erase_validation=False, keep_raises=False, track_locals=False, track_effects=False, summarise_loops=False, erase_persistence=False, inline_new=0, bind_args=False, inline_delegation=0):
        self.prog, self.func = prog, func
        self.env = dict(env or {})
        self.facts = facts or Facts()
        self.positive = tuple(positive)
        self.erase_casts = erase_casts
        self.inline_depth = inline_depth
        self.inline_filter = inline_filter
        self.erase_layout = erase_layout
        self.erase_validation = erase_validation   # argtest.<check>(name, value, ...) -> value (validators return their value)
        self.keep_raises = keep_raises     # a `raise X(...)` is the value raise(X) (a leaf of the decision tree), not bottom
        self.inline_delegation = inline_delegation   # depth to which `Base.method(self, ...)` / `super().method(...)` statement calls are executed in place
        self.bind_args = bind_args       # calls of repo callees are read with every argument bound to its parameter name (constant defaults filled in)
        self.inline_new = inline_new     # depth to which helpers that the reference tree does not have are inlined (value and effects)
        self.erase_persistence = erase_persistence  # whether a value is stored as a persisted extra / buffer or as a plain attribute is not compared
        self.summarise_loops = summarise_loops  # a loop is the term loop(iterable, what one iteration computes / stores / calls) instead of an opaque region
        self.track_effects = track_effects  # calls evaluated as statements are appended to the pseudo-store "!effects" (ordered, path-sensitive)
        self.track_locals = track_locals   # item stores / deletes on local containers are recorded as stores "<name>[]"
        self.mangle_cls = None             # set while a method of *another* class is executed in place: its `self.__x` is `self._Cls__x`
        self._epoch = 0                    # number of effectful calls executed so far on this path (see e_Attribute)
        self.stores: dict[str, object] = {}   # dotted attribute path -> term (last store on this path)
        self.effects: list = []               # (kind, detail) for calls evaluated as statements

    def child(self, env=None, facts=None):
        b = Builder(self.prog, self.func, self.env if env is None else env, facts or self.facts,
                    positive=self.positive, erase_casts=self.erase_casts, inline_depth=self.inline_depth,
                    inline_filter=self.inline_filter, erase_layout=self.erase_layout, erase_validation=self.erase_validation,
                    keep_raises=self.keep_raises, track_locals=self.track_locals, track_effects=self.track_effects,
                    summarise_loops=self.summarise_loops, erase_persistence=self.erase_persistence, inline_new=self.inline_new, bind_args=self.bind_args, inline_delegation=self.inline_delegation)
        b.module_names = getattr(self, "module_names", set())
        b.mangle_cls = self.mangle_cls
        b._epoch = self._epoch
        b.stores = dict(self.stores)
        return b

    # ------------------------------------------------------------------ expressions
    def t(self, e: ast.AST):
        m = getattr(self, "e_" + type(e).__name__, None)
        if m is None:
            return app("expr", _canon_region_text(e))
        return m(e)

    def e_Constant(self, e):
        v = e.value
        if isinstance(v, bool):
            return app("const", repr(v))
        if isinstance(v, (int, float)):
            return C(Fraction(str(v)))
        if v is None:
            return app("const", "None")
        return app("const", repr(v))

    def e_Name(self, e):
        if e.id in self.env:
            return self.env[e.id]
        return sym(e.id)

    def _dn(self, node):
        """dotted name, with the private attributes of an in-place executed foreign method mangled (`self.__x` -> `self._Cls__x`)"""
        d = dotted(node)
        if d is not None and self.mangle_cls and d.startswith("self.__") and not d.split(".")[1].endswith("__"):
            parts = d.split(".")
            parts[1] = f"_{self.mangle_cls}{parts[1]}"
            d = ".".join(parts)
        return d

    def e_Attribute(self, e):
        d = self._dn(e)
        if d is not None:
            if d in self.env:
                return self.env[d]
            if d in self.stores:
                return self.stores[d]
            if self.track_effects and d.startswith("self.") and d.count(".") == 1 and self.prog is not None and self.func is not None and self.func.cls is not None:
                # a property whose getter only returns a field (`return self.rates_`) reads that field: after `self.rates_ = v`,
                # `self.rates` is v
                g = self.func.cls.find_prop(d.split(".")[1], "get")
                if g is not None:
                    body = strip_doc(g.node.body)
                    if len(body) == 1 and isinstance(body[0], ast.Return) and body[0].value is not None:
                        fd = dotted(body[0].value)
                        if fd is not None and fd.startswith("self.") and fd != d:
                            if fd in self.env:
                                return self.env[fd]
                            if fd in self.stores:
                                return self.stores[fd]
            # module constants
            if d in ("math.pi", "torch.pi"):
                return sym("pi")
            if d in ("math.tau",):
                return sym("pi") * C(2)
            if d in ("math.e",):
                return mk_exp(C(1))
            if d in ("math.inf", "torch.inf"):
                return sym("inf")
            base = d.split(".")[0]
            if base in self.env and not isinstance(self.env[base], Rat):
                pass
            elif base in self.env:
                return mk_attr(self.env[base], ".".join(d.split(".")[1:]))
            if self.track_effects and self._epoch and "." in d and base not in MODULE_BASES and base not in getattr(self, "module_names", ()):
                # an effectful call may have changed the object's state: a read after it is not the read before it
                # (so moving a read across a call is a change, as it is for the program)
                return sym(f"{d}@{self._epoch}")
            return sym(d)
        return mk_attr(self.t(e.value), e.attr)

    def e_UnaryOp(self, e):
        x = self.t(e.operand)
        if isinstance(e.op, ast.USub):
            return -x if isinstance(x, Rat) else app("neg", x)
        if isinstance(e.op, ast.UAdd):
            return x
        if isinstance(e.op, (ast.Invert, ast.Not)):
            return mk_not(x) if isinstance(x, Rat) else app("not", x)
        return app("unary", ast.unparse(e))

    def e_BinOp(self, e):
        a, b = self.t(e.left), self.t(e.right)
        if not isinstance(a, Rat) or not isinstance(b, Rat):
            if isinstance(e.op, ast.Mult):
                # `*` commutes for every operand pair Python / torch define it for (numbers, tensors, sequence repetition)
                a, b = sorted((a, b), key=lambda x: nf.show(x) if isinstance(x, Rat) else repr(tuple(nf.show(y) if isinstance(y, Rat) else str(y) for y in x)) if isinstance(x, tuple) else str(x))
            return app("binop", type(e.op).__name__, a, b)
        op = e.op
        if isinstance(op, ast.Add):
            return a + b
        if isinstance(op, ast.Sub):
            return a - b
        if isinstance(op, ast.Mult):
            return a * b
        if isinstance(op, ast.Div):
            if b.is_zero():
                return app("div", a, b)
            return a / b
        if isinstance(op, ast.Pow):
            k = b.as_const()
            if k is not None and k.denominator == 1 and abs(k) <= 6:
                if k < 0 and a.is_zero():
                    return app("pow", a, b)
                at_ = a.as_atom()
                if k == 2 and at_ is not None and at_.op == "sqrt" and isinstance(at_.args[0], Rat):
                    return at_.args[0]
                return a.pow(int(k))
            return app("pow", a, b)
        if isinstance(op, ast.Mod):
            return nf.mk_mod(a, b)
        if isinstance(op, ast.FloorDiv):
            return app("floordiv", a, b)
        if isinstance(op, ast.BitAnd):
            return mk_bool("and", a, b)
        if isinstance(op, ast.BitOr):
            return mk_bool("or", a, b)
        if isinstance(op, ast.MatMult):
            return app("matmul", a, b)
        return app("binop", type(op).__name__, a, b)

    def e_BoolOp(self, e):
        vals = [self.t(v) for v in e.values]
        if not all(isinstance(v, Rat) for v in vals):
            return app("boolop", type(e.op).__name__, *vals)
        return mk_bool("and" if isinstance(e.op, ast.And) else "or", *vals)

    def e_Compare(self, e):
        parts = []
        left = self.t(e.left)
        for op, right in zip(e.ops, e.comparators):
            r = self.t(right)
            parts.append(self._cmp(op, left, r, e))
            left = r
        return parts[0] if len(parts) == 1 else mk_bool("and", *parts)

    def _cmp(self, op, a, b, e):
        if isinstance(op, (ast.Is, ast.IsNot)):
            bat = b.as_atom() if isinstance(b, Rat) else None
            if bat is not None and bat.op == "const" and bat.args[0] == "None":
                aat = a.as_atom() if isinstance(a, Rat) else None
                if aat is not None and aat.op == "const":
                    truth = aat.args[0] == "None"
                    c = C(1 if truth else 0)
                elif isinstance(a, Rat) and a.as_const() is not None:
                    c = C(0)
                else:
                    c = app("isnone", a)
                return mk_not(c) if isinstance(op, ast.IsNot) else c
            c = app("is", a, b)
            return mk_not(c) if isinstance(op, ast.IsNot) else c
        if isinstance(op, (ast.In, ast.NotIn)):
            c = app("in", a, b)
            return mk_not(c) if isinstance(op, ast.NotIn) else c
        if not isinstance(a, Rat) or not isinstance(b, Rat):
            return app("cmp", type(op).__name__, a, b)
        return mk_cmp(_CMP[type(op)], a, b, self.positive)

    def e_IfExp(self, e):
        c = self.t(e.test)
        _mark_scalar(c)
        return self.ite(c, lambda b: b.t(e.body), lambda b: b.t(e.orelse))

    def ite(self, c, fa, fb):
        if not isinstance(c, Rat):
            c = app("truth", c)
        known = self.facts.lookup(c)
        if known is True:
            return fa(self)
        if known is False:
            return fb(self)
        a = fa(self.child(facts=self.facts.assume(c, True)))
        b = fb(self.child(facts=self.facts.assume(c, False)))
        if a is BOTTOM:
            return b
        if b is BOTTOM:
            return a
        return mk_ite(c, a, b)

    def e_Tuple(self, e):
        return tuple(self.t(x) for x in e.elts)

    e_List = e_Tuple

    def e_Subscript(self, e):
        v = self.t(e.value)
        if isinstance(v, tuple):
            k = e.slice
            if isinstance(k, ast.Constant) and isinstance(k.value, int) and -len(v) <= k.value < len(v):
                return v[k.value]
        return app("index", v, self._slice(e.slice))

    def _slice(self, s):
        if isinstance(s, ast.Slice):
            return app("slice", *(self.t(x) if x is not None else app("const", "None") for x in (s.lower, s.upper, s.step)))
        if isinstance(s, ast.Tuple):
            return tuple(self._slice(x) for x in s.elts)
        return self.t(s)

    def e_Lambda(self, e):
        if self.track_effects:
            bound = {a_.arg for a_ in e.args.posonlyargs + e.args.args + e.args.kwonlyargs}
            names_ = sorted({n_.id for n_ in ast.walk(e.body) if isinstance(n_, ast.Name) and isinstance(n_.ctx, ast.Load)} - bound)
            free = tuple((n_, self.env[n_] if isinstance(self.env[n_], Rat) else app("const", str(self.env[n_]))) for n_ in names_ if n_ in self.env)
            if free:
                return app("lambda", _canon_region_text(e), free)      # a lambda carries the values of the locals it closes over
            return app("lambda", _canon_region_text(e))
        return app("lambda", ast.unparse(e))

    def e_JoinedStr(self, e):
        if not self.track_effects:
            return app("const", "fstring")
        # in summaries a formatted string is its literal pieces and the values formatted into it (messages of raises never get here:
        # a raise is a refusal whatever it says)
        parts = []
        for v in e.values:
            if isinstance(v, ast.Constant):
                parts.append(app("const", repr(v.value)))
            elif isinstance(v, ast.FormattedValue):
                tv = self.t(v.value)
                tv = tv if isinstance(tv, Rat) else (app("tuple", *tv) if isinstance(tv, tuple) else app("const", str(tv)))
                spec_ = ast.unparse(v.format_spec) if v.format_spec is not None else ""
                parts.append(app("fmt", tv, app("const", f"{v.conversion}:{spec_}")))
        return app("fstr", tuple(parts))

    # comprehensions: element expression over a symbolic element of each iterable, so that the names they use are the caller's
    # values (renamed or hoisted locals do not change the term)
    def _comp(self, kind, e, elts):
        sub = self.child(dict(self.env))
        heads = []
        for g in e.generators:
            it = sub.t(g.iter)
            it = it if isinstance(it, Rat) else (app("tuple", *it) if isinstance(it, tuple) else app("const", str(it)))
            sub.assign(g.target, app("element", it))
            conds = tuple(sub.t(c) for c in g.ifs)
            heads.append((it, conds))
        vals = tuple(sub.t(x) for x in elts)
        return app("comp", kind, vals, tuple(heads))

    def e_ListComp(self, e):
        return self._comp("list", e, [e.elt])

    def e_SetComp(self, e):
        return self._comp("set", e, [e.elt])

    def e_GeneratorExp(self, e):
        return self._comp("gen", e, [e.elt])

    def e_DictComp(self, e):
        return self._comp("dict", e, [e.key, e.value])

    def e_Starred(self, e):
        v = e.value
        # `*tuple(xs)` / `*list(xs)` unpack the same elements as `*xs`
        while isinstance(v, ast.Call) and isinstance(v.func, ast.Name) and v.func.id in ("tuple", "list") and len(v.args) == 1 and not v.keywords:
            v = v.args[0]
        return app("star", self.t(v))

    def e_Dict(self, e):
        return app("dict", *[(self.t(k) if k is not None else "**", self.t(v)) for k, v in zip(e.keys, e.values)])

    # ------------------------------------------------------------------ calls
    def e_Call(self, e: ast.Call):
        f = e.func
        name, recv = None, None
        if isinstance(f, ast.Name):
            name = f.id
        elif isinstance(f, ast.Attribute):
            name = f.attr
            base = dotted(f.value)
            is_module = False
            if base is not None:
                root = base.split(".")[0]
                if (root in MODULE_BASES or root in getattr(self, 'module_names', ())) and root not in self.env:
                    is_module = True
                elif self.prog is not None and self.func is not None and root not in self.env and root not in ("self", "cls"):
                    r = self.prog.resolve(self.func.module.name, root)
                    if r and r[0] in ("module", "ext"):
                        is_module = True
            if not is_module:
                recv = self.t(f.value)
        else:
            # call of a computed callable (`table[k](x, **opts)`): every argument counts, keywords and unpacked ones included
            ck = []
            for i_, k in enumerate(e.keywords):
                kv = self.t(k.value)
                kv = kv if isinstance(kv, Rat) else (app("tuple", *kv) if isinstance(kv, tuple) else app("const", str(kv)))
                ck.append((k.arg if k.arg is not None else f"**{i_}", kv))
            ck = tuple(sorted(ck, key=lambda kv_: kv_[0]))
            return app("call", self.t(f), *[self.t(a) for a in e.args], ("kw",) + ck) if ck else app("call", self.t(f), *[self.t(a) for a in e.args])

        args = [self.t(a) for a in e.args]
        kws = {k.arg: self.t(k.value) for k in e.keywords if k.arg is not None}
        if self.track_effects:
            # `f(**opts)`: what is unpacked into the call is an argument of the call
            for i_, k in enumerate([k for k in e.keywords if k.arg is None]):
                sv = self.t(k.value)
                kws[f"**{i_}"] = sv if isinstance(sv, Rat) else (app("tuple", *sv) if isinstance(sv, tuple) else app("const", str(sv)))
        if any(k.arg is None for k in e.keywords) or any(isinstance(a, ast.Starred) for a in e.args):
            star = True
        else:
            star = False
        if self.erase_validation and isinstance(f, ast.Attribute) and dotted(f.value) == "argtest" and len(args) >= 2 \
                and f.attr in VALIDATORS and isinstance(e.args[0], ast.Constant) and isinstance(e.args[0].value, str):
            return args[1]
        if self.bind_args and not star and self.prog is not None and self.func is not None:
            r_ = self.prog.resolve_call(self.func, e)
            if r_ is None and isinstance(f, ast.Attribute) and recv is not None:
                # receiver of unknown type (`self.data_.reset(...)`, `getattr(self, n).reconstrain(...)`): if every method of that name
                # in the repository has the same parameters, the call binds the same way whichever it is
                idx = getattr(self.prog, "_methods_by_name", None)
                if idx is None:
                    idx = {}
                    for fn_ in self.prog.funcs:
                        if fn_.cls is not None and fn_.kind in ("method", "class"):
                            idx.setdefault(fn_.name, []).append(fn_)
                    self.prog._methods_by_name = idx
                cands = idx.get(f.attr, [])

                def sig(fn_):
                    a_ = fn_.node.args
                    return (tuple(x.arg for x in (a_.posonlyargs + a_.args)[1:]), tuple(x.arg for x in a_.kwonlyargs), bool(a_.vararg),
                            tuple(ast.unparse(d) for d in a_.defaults), tuple(ast.unparse(d) if d is not None else "" for d in a_.kw_defaults))
                if cands and len({sig(c_) for c_ in cands}) == 1 and not cands[0].node.args.vararg:
                    r_ = (cands[0], True)
            if r_ is not None and r_[0].kind not in ("getter", "setter", "deleter"):
                cal, bnd = r_
                ca = cal.node.args
                pn = [x.arg for x in ca.posonlyargs + ca.args]
                explicit_self = False
                if cal.cls is not None and cal.kind != "static":
                    if bnd:
                        pn = pn[1:]
                    else:
                        explicit_self = True
                if not ca.vararg and len(args) <= len(pn) and not (set(pn[:len(args)]) & set(kws)):
                    keep = 1 if explicit_self and args else 0
                    for nm, v in zip(pn[keep:len(args)], args[keep:]):
                        kws[nm] = v
                    args = args[:keep]
                    dflt = dict(zip(pn[len(pn) - len(ca.defaults):], ca.defaults)) if ca.defaults else {}
                    dflt.update({x.arg: d for x, d in zip(ca.kwonlyargs, ca.kw_defaults) if d is not None})
                    for nm, d in dflt.items():
                        if nm not in kws and isinstance(d, ast.Constant):
                            kws[nm] = self.t(d)


        # call of a locally bound callable value (e.g. `transform = lambda x: x` under a guard)
        if isinstance(f, ast.Name) and f.id in self.env and isinstance(self.env[f.id], Rat):
            fv = self.env[f.id]
            return self._apply_value(fv, args, kws)

        # -- helpers introduced by a refactoring (absent from the reference tree): their body is the caller's behaviour
        if self.prog is not None and self.func is not None and self.inline_new > 0 and not star:
            r = self.prog.resolve_call(self.func, e)
            if r is not None and r[0].kind not in ("getter", "setter", "deleter") and _is_new(r[0]):
                res = self._inline_new(r[0], r[1], recv, args, kws)
                if res is not None:
                    return res
        # -- repo callee inlining -------------------------------------------------
        if self.prog is not None and self.func is not None and self.inline_depth > 0 and not star:
            r = self.prog.resolve_call(self.func, e)
            if r is not None and r[0].kind not in ("getter", "setter", "deleter") and r[0].name != "__init__":
                callee, bound = r
                if self.inline_filter is None or self.inline_filter(callee):
                    res = self._inline(callee, bound, recv, args, kws)
                    if res is not None:
                        return res

        allargs = ([recv] if recv is not None else []) + args
        return self._builtin(name, recv is not None, allargs, kws, e)

    def _apply_value(self, fv: Rat, args, kws):
        """Apply a callable *value*: identity lambdas beta-reduce, ite-valued callables distribute."""
        at = fv.as_atom()
        if at is not None and at.op == "lambda" and len(args) == 1 and not kws:
            try:
                lam = ast.parse(at.args[0], mode="eval").body
                if isinstance(lam.body, ast.Name) and len(lam.args.args) == 1 and lam.body.id == lam.args.args[0].arg:
                    return args[0]
            except SyntaxError:
                pass
        if at is not None and at.op == "ite":
            c, a, b = at.args
            return mk_ite(c, self._apply_value(a, args, kws), self._apply_value(b, args, kws))
        if at is not None and at.op == "sym":
            name = at.args[0]
            root = name.split(".")[0]
            is_mod = root in MODULE_BASES or root in getattr(self, "module_names", ())
            if not is_mod and "." in name and self.prog is not None and self.func is not None and root not in self.env:
                r0 = self.prog.resolve(self.func.module.name, root)
                is_mod = bool(r0) and r0[0] in ("module", "ext")
            if "." in name and is_mod:
                # a module function held in a variable (`fn = nf.f if c else nf.g; fn(x)`) is that function called directly
                fake = ast.Call(func=ast.parse(name, mode="eval").body, args=[], keywords=[])
                last = name.split(".")[-1]
                if self.bind_args and self.prog is not None and self.func is not None:
                    cal = None
                    try:
                        r_ = self.prog.resolve_call(self.func, fake)
                        cal = r_[0] if r_ else None
                    except Exception:
                        cal = None
                    if cal is not None and not cal.node.args.vararg:
                        pn = [x.arg for x in cal.node.args.posonlyargs + cal.node.args.args]
                        args, kws = list(args), dict(kws)
                        if len(args) <= len(pn) and not (set(pn[:len(args)]) & set(kws)):
                            for nm, v in zip(pn, args):
                                kws[nm] = v
                            args = []
                            ca = cal.node.args
                            dflt = dict(zip(pn[len(pn) - len(ca.defaults):], ca.defaults)) if ca.defaults else {}
                            dflt.update({x.arg: d for x, d in zip(ca.kwonlyargs, ca.kw_defaults) if d is not None})
                            for nm, d in dflt.items():
                                if nm not in kws and isinstance(d, ast.Constant):
                                    kws[nm] = self.t(d)
                return self._builtin(last, False, list(args), kws, fake)
            return self._builtin(at.args[0], False, list(args), kws, None)
        kwt = tuple((k, v) for k, v in sorted(kws.items()))
        return app("call", fv, *args, ("kw",) + kwt) if kwt else app("call", fv, *args)

    def _inline_new(self, callee: Func, bound: bool, recv, args, kws):
        """Run a new helper's body in place: its stores and effects become the caller's, its return value the call's value."""
        a = callee.node.args
        names = [x.arg for x in a.posonlyargs + a.args]
        env = {}
        pos = list(args)
        if callee.cls is not None and callee.kind != "static" and bound:
            rv = recv if recv is not None else sym("self")
            if not (isinstance(rv, Rat) and rv.eq(sym(names[0]))):
                env[names[0]] = rv      # (a receiver that is just `self` stays unbound: its attributes read as in the caller)
            names = names[1:]
        if len(pos) > len(names) or a.vararg:
            return None
        kws = dict(kws)
        starkw = kws.pop("__starkw__", None)
        if a.kwarg:
            env[a.kwarg.arg] = starkw if starkw is not None else app("dict")
        elif starkw is not None:
            return None
        for n, v in zip(names, pos):
            env[n] = v
        defaults = dict(zip([x.arg for x in (a.posonlyargs + a.args)][-len(a.defaults):] if a.defaults else [], a.defaults))
        kwdefaults = {x.arg: d for x, d in zip(a.kwonlyargs, a.kw_defaults)}
        for k, v in kws.items():
            if k in names or k in kwdefaults:
                env[k] = v
            else:
                return None
        sub = self.child({})
        sub.func = callee
        if callee.cls is not None and (self.func is None or self.func.cls is None or callee.cls.name != self.func.cls.name):
            sub.mangle_cls = callee.cls.name.lstrip("_")
        sub.inline_new = self.inline_new - 1
        for n in names[len(pos):]:
            if n not in env:
                if n not in defaults:
                    return None
                env[n] = sub.t(defaults[n])
        for n, d in kwdefaults.items():
            if n not in env:
                if d is None:
                    return None
                env[n] = sub.t(d)
        # the helper sees the caller's view of `self.<attr>` stores made so far
        for k, v in self.env.items():
            if "." in k and k not in env:
                env[k] = v
        sub.env = env
        try:
            r = sub.run(strip_doc(callee.node.body))
        except Opaque:
            return None
        if r is BOTTOM:
            return None
        self.stores = sub.stores
        for k, v in sub.env.items():
            if "." in k:
                self.env[k] = v
        return r if r is not None else app("const", "None")

    def _inline(self, callee: Func, bound: bool, recv, args, kws):
        if not simple_function(callee.node) or callee.node.decorator_list:
            return None
        a = callee.node.args
        names = [x.arg for x in a.posonlyargs + a.args]
        env = {}
        pos = list(args)
        if callee.cls is not None and callee.kind != "static":
            if bound:
                env[names[0]] = recv if recv is not None else sym("self")
                names = names[1:]
            # unbound: explicit receiver is first positional
        if len(pos) > len(names) and not a.vararg:
            return None
        for n, v in zip(names, pos):
            env[n] = v
        rest = names[len(pos):]
        defaults = dict(zip([x.arg for x in (a.posonlyargs + a.args)][-len(a.defaults):] if a.defaults else [], a.defaults))
        kwdefaults = {x.arg: d for x, d in zip(a.kwonlyargs, a.kw_defaults)}
        extra = {}
        for k, v in kws.items():
            if k in rest or k in kwdefaults:
                env[k] = v
            elif a.kwarg:
                extra[k] = v
            else:
                return None
        sub = Builder(self.prog, callee, {}, self.facts, positive=self.positive, erase_casts=self.erase_casts,
                      inline_depth=self.inline_depth - 1, inline_filter=self.inline_filter, erase_layout=self.erase_layout,
                      erase_validation=self.erase_validation)
        for n in rest:
            if n not in env:
                if n in defaults:
                    env[n] = sub.t(defaults[n])
                else:
                    return None
        for n, d in kwdefaults.items():
            if n not in env:
                if d is None:
                    return None
                env[n] = sub.t(d)
        sub.env = env
        try:
            r = sub.run(strip_doc(callee.node.body))
        except Opaque:
            return None
        if r is BOTTOM or r is None:
            return None
        return r

    def _builtin(self, name, is_method, args, kws, e):
        """Alias table (DESIGN 2.3): canonical forms of torch/math idioms."""
        n = name
        R = lambda x: isinstance(x, Rat)
        if n == "exp" and len(args) == 1 and R(args[0]):
            return mk_exp(args[0])
        if n in ("abs", "absolute") and len(args) == 1:
            return app("abs", args[0])
        if n == "where" and len(args) == 3 and R(args[0]) and R(args[1]):
            if is_method:   # x.where(c, other)
                c, a, b = args[1], args[0], args[2]
            else:
                c, a, b = args
            cat = c.as_atom()
            if cat is not None:
                nf.BOOLEAN_ATOMS.add(cat.uid)
            return self.ite(c, lambda _b: a, lambda _b: b)
        if n in ("logical_and",) and len(args) == 2:
            return mk_bool("and", *args)
        if n in ("logical_or",) and len(args) == 2:
            return mk_bool("or", *args)
        if n == "logical_not" and len(args) == 1:
            return mk_not(args[0])
        if n in ("neg", "negative") and len(args) == 1 and R(args[0]):
            return -args[0]
        if n in ("add",) and len(args) == 2 and not kws and all(map(R, args)):
            return args[0] + args[1]
        if n in ("sub", "subtract") and len(args) == 2 and not kws and all(map(R, args)):
            return args[0] - args[1]
        if n in ("mul", "multiply") and len(args) == 2 and all(map(R, args)):
            return args[0] * args[1]
        if n in ("div", "divide", "true_divide") and len(args) == 2 and not kws and all(map(R, args)) and not args[1].is_zero():
            return args[0] / args[1]
        if n in ("reciprocal",) and len(args) == 1 and R(args[0]) and not args[0].is_zero():
            return args[0].inv()
        if n in ("square",) and len(args) == 1 and R(args[0]):
            return args[0] * args[0]
        if n in ("sqrt",) and len(args) == 1:
            return app("sqrt", args[0])
        if n in ("pow",) and len(args) == 2 and all(map(R, args)):
            k = args[1].as_const()
            if k is not None and k.denominator == 1 and 0 <= k <= 6:
                return args[0].pow(int(k))
            return app("pow", *args)
        if n in ("clamp", "clip"):
            lo = kws.get("min", args[1] if len(args) > 1 else None)
            hi = kws.get("max", args[2] if len(args) > 2 else None)
            return app("clamp", args[0], lo if lo is not None else app("const", "None"), hi if hi is not None else app("const", "None"))
        if n == "clamp_min" and len(args) == 2:
            return app("clamp", args[0], args[1], app("const", "None"))
        if n == "clamp_max" and len(args) == 2:
            return app("clamp", args[0], app("const", "None"), args[1])
        if n in ("round", "ceil", "floor", "log", "log1p", "erf", "lgamma", "sigmoid", "tanh", "sign", "trunc") and len(args) == 1 and not kws:
            return app(n, args[0])
        if n in ("gt", "ge", "lt", "le", "eq", "ne") and len(args) == 2 and all(map(R, args)):
            return mk_cmp(n, args[0], args[1], self.positive)
        if self.erase_casts:
            if n in CASTS and is_method and len(args) == 1:
                return args[0]
            if n == "to" and is_method and (set(kws) <= {"dtype", "device", "non_blocking", "copy"}) and len(args) <= 2:
                return args[0]
            if n in ("float", "int", "bool") and not is_method and len(args) == 1:
                return args[0]
            if n in ("clone", "detach", "contiguous") and is_method and len(args) == 1:
                return args[0]
            if n in ("tensor", "as_tensor", "scalar_tensor") and not is_method and len(args) == 1:
                return args[0]
        if self.erase_layout:
            if n in ("unsqueeze", "squeeze", "contiguous", "expand") and is_method and args:
                return args[0]
            if n == "rearrange" and not is_method and args:
                return args[0]
            if n == "arange" and not is_method:
                return sym("j")
        if n in IDENTITY_CASTS and not is_method and args and self.erase_casts:
            return args[0] if len(args) == 1 else tuple(args)
        if self.track_effects and n in ("zeros", "ones", "empty", "full") and not is_method and e is not None \
                and isinstance(e.func, ast.Attribute) and dotted(e.func.value) == "torch":
            kwt_ = tuple((k, v) for k, v in sorted(kws.items()))
            return app("f." + n, *args, ("kw",) + kwt_) if kwt_ else app("f." + n, *args)     # torch.zeros(d0, d1): the extents are the point
        if n in ("zeros", "zeros_like") and len(args) >= 1:
            shp = kws.get("shape") if isinstance(kws, dict) else None
            if shp is not None and nf.show(shp) not in ("()", "(,)"):
                # an explicitly shaped block of zeros (padding): its extent matters to whoever concatenates it
                return app("zeros_shaped", shp)
            return C(0)
        if n in ("ones", "ones_like") and len(args) >= 1:
            return C(1)
        if n in ("min", "max") and not is_method and len(args) >= 2 and not kws:
            return app(n, *sorted(args, key=nf.show))
        if n in ("maximum", "minimum") and len(args) == 2:
            return app({"maximum": "max", "minimum": "min"}[n], *sorted(args, key=nf.show))
        # torch's function form and method form of one operation are one operation: `torch.roll(x, shifts=s, dims=0)` is
        # `x.roll(s, 0)`.  Keyword arguments are put in their positional slots as far as they are contiguous from the front.
        if n in TENSOR_OPS and args and (is_method or (e is not None and isinstance(e.func, ast.Attribute) and dotted(e.func.value) in ("torch", "F"))):
            sig = TENSOR_OPS[n]
            rest = list(args[1:])
            kws = dict(kws)
            for nm in sig[len(rest):]:
                if nm in kws:
                    rest.append(kws.pop(nm))
                else:
                    break
            args = [args[0]] + rest
            is_method = True
        if n in FUNC_SIGS and not is_method and e is not None and isinstance(e.func, ast.Attribute) and dotted(e.func.value) in ("torch", "F"):
            sig = FUNC_SIGS[n]
            args, kws = list(args), dict(kws)
            for nm in sig[len(args):]:
                if nm in kws:
                    args.append(kws.pop(nm))
                else:
                    break
        kwt = tuple((k, v) for k, v in sorted(kws.items()))
        op = ("m." if is_method else "f.") + n
        if self.track_effects and self._epoch and (is_method or n not in PURE_FUNCS):
            op += f"@{self._epoch}"      # a call after an effectful call may see changed state: it is not the same call as before it
        if kwt:
            return app(op, *args, ("kw",) + kwt)
        return app(op, *args)

    # ------------------------------------------------------------------ statements
    def run(self, stmts: list[ast.stmt]):
        """Evaluate a statement list; returns the returned term (or None when falling off)."""
        for i, st in enumerate(stmts):
            if isinstance(st, ast.Return):
                return self.t(st.value) if st.value is not None else app("const", "None")
            if isinstance(st, ast.Continue) and self.summarise_loops:
                return app("const", "continue")
            if isinstance(st, ast.Raise):
                if self.keep_raises:
                    return app("raise", "refusal")   # which exception type is raised is not part of any property
                return BOTTOM
            if isinstance(st, ast.Match):
                conv = _match_to_if(st)
                if conv is not None:
                    return self.run(conv + stmts[i + 1:])
            if isinstance(st, ast.With) and self.track_effects:
                # the context (torch.no_grad(), a lock ...) is part of what the block does: entered, body, left
                for it in st.items:
                    ce = self.t(it.context_expr)
                    ce = ce if isinstance(ce, Rat) else app("const", str(ce))
                    self.stores["!effects"] = app("seq", self.stores.get("!effects", sym("!effects")), app("with", ce))
                    if it.optional_vars is not None:
                        self.assign(it.optional_vars, app("entered", ce))
                leave = ast.copy_location(ast.Expr(value=ast.Call(func=ast.Name(id="__leave_context__", ctx=ast.Load()), args=[], keywords=[])), st)
                if any(isinstance(n, ast.Return) for n in ast.walk(st)):
                    return self.run(list(st.body) + stmts[i + 1:])
                return self.run(list(st.body) + [leave] + stmts[i + 1:])
            if isinstance(st, ast.With) and any(isinstance(n, ast.Return) for n in ast.walk(st)):
                # leaving the context manager is not part of the summary: a return inside the block ends the function
                return self.run(list(st.body) + stmts[i + 1:])
            if isinstance(st, ast.If):
                c = self.t(st.test)
                rest = stmts[i + 1:]
                known = self.facts.lookup(c) if isinstance(c, Rat) else None
                if known is True:
                    return self.run(st.body + rest)
                if known is False:
                    return self.run(st.orelse + rest)
                if not isinstance(c, Rat):
                    c = app("truth", c)
                _mark_scalar(c)
                ba = self.child(dict(self.env), self.facts.assume(c, True))
                bb = self.child(dict(self.env), self.facts.assume(c, False))
                ra = ba.run(st.body + rest)
                rb = bb.run(st.orelse + rest)
                # merge stores for callers interested in them
                self._merge_stores(c, ba, bb, ra, rb)
                self._epoch = max(ba._epoch, bb._epoch)
                if ra is BOTTOM:
                    self.env = bb.env
                    return rb
                if rb is BOTTOM:
                    self.env = ba.env
                    return ra
                self._merge_env(c, ba, bb)
                if ra is None and rb is None:
                    return None
                if ra is None or rb is None:
                    return mk_ite(c, ra if ra is not None else app("const", "None"), rb if rb is not None else app("const", "None"))
                return mk_ite(c, ra, rb)
            self.stmt(st)
        return None

    def _merge_env(self, c, ba, bb):
        env = {}
        for k in set(ba.env) | set(bb.env):
            va, vb = ba.env.get(k), bb.env.get(k)
            if va is None or vb is None:
                env[k] = va if va is not None else vb
            else:
                env[k] = mk_ite(c, va, vb)
        self.env = env

    def _merge_stores(self, c, ba, bb, ra, rb):
        if ra is BOTTOM:
            self.stores = bb.stores
            self.effects = bb.effects
            return
        if rb is BOTTOM:
            self.stores = ba.stores
            self.effects = ba.effects
            return
        out = {}
        for k in set(ba.stores) | set(bb.stores):
            va = ba.stores.get(k, None)
            vb = bb.stores.get(k, None)
            if va is None:
                va = sym(k) if k not in self.stores else self.stores[k]
            if vb is None:
                vb = sym(k) if k not in self.stores else self.stores[k]
            out[k] = mk_ite(c, va, vb)
        self.stores = out

    def stmt(self, st: ast.stmt):
        if isinstance(st, ast.Assign):
            if self.track_effects and isinstance(st.value, ast.Call) and len(st.targets) == 1 and isinstance(st.targets[0], ast.Name) and st.targets[0].id == "_":
                return self.stmt(ast.copy_location(ast.Expr(value=st.value), st))    # `_ = f(...)` is the call for its effect
            v = self.t(st.value)
            for tgt in st.targets:
                self.assign(tgt, v)
        elif isinstance(st, ast.AnnAssign):
            if st.value is not None:
                self.assign(st.target, self.t(st.value))
        elif isinstance(st, ast.AugAssign):
            cur = self.t(st.target)
            v = self.t(ast.BinOp(left=st.target, op=st.op, right=st.value))
            if self.track_effects:
                # `x -= y` updates the object x names (a tensor shared with the caller stays shared and changes): not `x = x - y`
                cur_ = cur if isinstance(cur, Rat) else app("const", str(cur))
                rhs_ = self.t(st.value)
                rhs_ = rhs_ if isinstance(rhs_, Rat) else app("const", str(rhs_))
                self.stores["!effects"] = app("seq", self.stores.get("!effects", sym("!effects")), app("inplace_op", type(st.op).__name__, cur_, rhs_))
            self.assign(st.target, v)
        elif isinstance(st, ast.Expr):
            if isinstance(st.value, (ast.Yield, ast.YieldFrom)) and self.track_effects:
                # what a generator function yields is its output: an ordered effect
                yv = self.t(st.value.value) if st.value.value is not None else app("const", "None")
                yv = yv if isinstance(yv, Rat) else (app("tuple", *yv) if isinstance(yv, tuple) else app("const", str(yv)))
                self.stores["!effects"] = app("seq", self.stores.get("!effects", sym("!effects")), app("yield", yv))
                self._epoch += 1
            if isinstance(st.value, ast.Call):
                c = st.value
                if self.erase_persistence and isinstance(c.func, ast.Attribute) and len(c.args) >= 2:
                    # owner.register_extra(name, v) / setattr(owner, name, v): the same store as far as everything but checkpointing goes
                    if c.func.attr == "register_extra":
                        c = ast.copy_location(ast.Call(func=ast.Name(id="setattr", ctx=ast.Load()), args=[c.func.value] + list(c.args[:2]), keywords=[]), c)
                        st = ast.copy_location(ast.Expr(value=c), st)
                        if isinstance(c.args[1], ast.Constant) and isinstance(c.args[1].value, str) and dotted(c.args[0]) is not None:
                            tgt = ast.copy_location(ast.Attribute(value=c.args[0], attr=c.args[1].value, ctx=ast.Store()), st)
                            return self.stmt(ast.copy_location(ast.Assign(targets=[tgt], value=c.args[2], lineno=st.lineno), st))
                    elif c.func.attr == "register_buffer":
                        c = ast.copy_location(ast.Call(func=c.func, args=list(c.args[:2]), keywords=[k for k in c.keywords if k.arg != "persistent"]), c)
                        st = ast.copy_location(ast.Expr(value=c), st)
                # in-place method on a local: value becomes opaque
                if isinstance(c.func, ast.Attribute) and c.func.attr.endswith("_") and not c.func.attr.endswith("__"):
                    d = dotted(c.func.value)
                    if d is not None:
                        self.env[d] = app("inplace", c.func.attr, self.t(c.func.value), *[self.t(a) for a in c.args])
                self.effects.append(("call", c))
                if self.inline_delegation > 0 and self.prog is not None and self.func is not None and isinstance(c.func, ast.Attribute) \
                        and not any(isinstance(x, ast.Starred) for x in c.args) and sum(1 for k in c.keywords if k.arg is None) <= 1:
                    # delegation to the same method of a base class: `Base.clear(self, ...)` / `super().clear(...)`
                    is_super = isinstance(c.func.value, ast.Call) and dotted(c.func.value.func) == "super"
                    is_base = isinstance(c.func.value, ast.Name) and c.func.value.id in self.prog.classes and c.args and dotted(c.args[0]) == "self"
                    r_ = self.prog.resolve_call(self.func, c) if (is_super or is_base) else None
                    if r_ is not None and r_[0].cls is not None and r_[0] is not self.func:
                        before = dict(self.stores)
                        saved = self.inline_delegation
                        try:
                            self.inline_delegation = saved - 1
                            args_ = [self.t(a) for a in (c.args[1:] if is_base else c.args)]
                            kws_ = {(k.arg if k.arg is not None else "__starkw__"): self.t(k.value) for k in c.keywords}
                            res_ = self._inline_new(r_[0], True, sym("self"), args_, kws_)
                            if res_ is not None:
                                return
                            self.stores = before
                        except Opaque:
                            self.stores = before
                        finally:
                            self.inline_delegation = saved
                if self.inline_new > 0 and self.prog is not None and self.func is not None:
                    r_ = self.prog.resolve_call(self.func, c)
                    if r_ is not None and _is_new(r_[0]) and not any(isinstance(x, ast.Starred) for x in c.args):
                        before = dict(self.stores)
                        try:
                            self.t(c)
                            return
                        except Opaque:
                            self.stores = before
                if self.track_effects:
                    save, self.inline_depth = self.inline_depth, 0     # the call itself is the effect: keep it opaque
                    try:
                        ct = self.t(c)
                    finally:
                        self.inline_depth = save
                    self.stores["!effects"] = app("seq", self.stores.get("!effects", sym("!effects")), ct if isinstance(ct, Rat) else app("tuple", *ct) if isinstance(ct, tuple) else app("const", str(ct)))
                    self._epoch += 1
        elif isinstance(st, ast.Delete) and self.track_locals:
            for tg in st.targets:
                if isinstance(tg, ast.Subscript) and dotted(tg.value) is not None:
                    d = dotted(tg.value)
                    nv = app("delitem", self.t(tg.value), self._slice(tg.slice))
                    self.env[d] = nv
                    self.stores[d + ("[]" if "." not in d else "")] = nv
                elif isinstance(tg, ast.Subscript) and self.track_effects:
                    bt = self.t(tg.value)
                    bt = bt if isinstance(bt, Rat) else app("const", str(bt))
                    self.stores["!effects"] = app("seq", self.stores.get("!effects", sym("!effects")), app("del_item", bt, self._slice(tg.slice)))
                elif isinstance(tg, ast.Attribute) and self.track_effects:
                    bt = self.t(tg.value)
                    bt = bt if isinstance(bt, Rat) else app("const", str(bt))
                    self.stores["!effects"] = app("seq", self.stores.get("!effects", sym("!effects")), app("del_attr", bt, app("const", tg.attr)))
        elif isinstance(st, (ast.Pass, ast.Import, ast.ImportFrom, ast.Global, ast.Nonlocal, ast.Assert, ast.Delete)):
            pass
        elif isinstance(st, ast.With):
            r = self.run(st.body)
            if r is not None:
                raise Opaque("return inside with")
        elif self.summarise_loops and isinstance(st, (ast.For, ast.While)) and not st.orelse \
                and not any(isinstance(n, (ast.Return, ast.Break)) for n in ast.walk(st)):
            self._loop(st)
        elif isinstance(st, (ast.For, ast.While, ast.Try, ast.Match)):
            # opaque region: every name/attribute stored inside becomes a fresh atom
            for n in ast.walk(st):
                if isinstance(n, (ast.Name, ast.Attribute)) and isinstance(getattr(n, "ctx", None), ast.Store):
                    d = dotted(n)
                    if d is not None:
                        # the region is outside the fragment: what it leaves in a name is identified by the name and the region's
                        # (normalised) text, so that two readings of the same region agree and two different regions do not
                        import hashlib
                        v = app("opaque", f"{d}#{hashlib.sha256(_canon_region_text(st).encode()).hexdigest()[:10]}")
                        self.env[d] = v
                        if "." in d:
                            self.stores[d] = v
                if isinstance(n, ast.Return):
                    raise Opaque("return inside loop/try/match")
        elif isinstance(st, (ast.FunctionDef, ast.ClassDef)):
            # a nested definition is identified by its name and its (canonical) text: closures are compared as written
            free = ()
            if self.track_effects:
                bound = {a_.arg for a_ in st.args.posonlyargs + st.args.args + st.args.kwonlyargs} if isinstance(st, ast.FunctionDef) else set()
                names_ = sorted({n_.id for n_ in ast.walk(st) if isinstance(n_, ast.Name) and isinstance(n_.ctx, ast.Load)} - bound)
                free = tuple((n_, self.env[n_] if isinstance(self.env[n_], Rat) else app("const", str(self.env[n_]))) for n_ in names_ if n_ in self.env)
            self.env[st.name] = app("localdef", st.name, _canon_region_text(st) if self.track_effects else "", free)
        else:
            raise Opaque(type(st).__name__)

    def _loop(self, st):
        """One iteration as a term: the loop variables and the loop-carried locals / stores are symbols named after
        themselves, the body is evaluated once, and everything it assigns, stores or calls becomes
        loop(<iterable or test>, <name>, <value after one iteration>)."""
        head = self.t(st.iter) if isinstance(st, ast.For) else self.t(st.test)
        head = head if isinstance(head, Rat) else app("tuple", *head) if isinstance(head, tuple) else app("const", str(head))
        assigned, stored = set(), set()
        for n in ast.walk(st):
            if isinstance(n, (ast.Name, ast.Attribute, ast.Subscript)) and isinstance(getattr(n, "ctx", None), ast.Store):
                base = n.value if isinstance(n, ast.Subscript) else n
                d = dotted(base)
                if d is not None:
                    (stored if "." in d else assigned).add(d)
        # what the loop-carried names hold when the loop is entered is part of what the loop computes
        carried = tuple((v, self.env[v] if isinstance(self.env[v], Rat) else app("tuple", *self.env[v]) if isinstance(self.env[v], tuple) else app("const", str(self.env[v])))
                        for v in sorted(assigned) if v in self.env)
        carried += tuple((k, self.stores[k]) for k in sorted(stored) if k in self.stores and isinstance(self.stores[k], Rat))
        child = self.child(dict(self.env))
        for v in assigned:
            child.env[v] = sym(v + "@iter")
        for k in list(child.stores):
            child.stores[k] = sym(k + "@iter")
        for k in stored:
            child.env[k] = sym(k + "@iter")
        child.stores.pop("!effects", None)
        if isinstance(st, ast.For):
            child.assign(st.target, app("element", head))
        r = child.run(list(st.body))
        ret = r if isinstance(r, Rat) else app("const", "None")

        def wrap(name, v):
            v = v if isinstance(v, Rat) else (app("tuple", *v) if isinstance(v, tuple) else app("const", str(v)))
            return app("loop", head, app("const", name), v, ret, carried)
        if self.track_effects and isinstance(r, Rat) and "!effects" not in child.stores:
            # nothing else records this loop, but an iteration may refuse (raise) or end early: that is what the loop does
            self.stores["!effects"] = app("seq", self.stores.get("!effects", sym("!effects")), wrap("!outcome", ret))
        for v in sorted(assigned):
            if v in child.env:
                self.env[v] = wrap(v, child.env[v])
        for k, v in sorted(child.stores.items()):
            if k == "!effects":
                if self.track_effects:
                    self.stores["!effects"] = app("seq", self.stores.get("!effects", sym("!effects")), wrap("!effects", v))
                continue
            if isinstance(v, Rat) and v.eq(sym(k + "@iter")):
                continue
            nv = wrap(k, v)
            self.stores[k] = nv
            if k in self.env or "." in k:
                self.env[k.rstrip("[]")] = nv

    def assign(self, tgt, v):
        if isinstance(tgt, ast.Name):
            self.env[tgt.id] = v
        elif isinstance(tgt, (ast.Tuple, ast.List)):
            if isinstance(v, tuple) and len(v) == len(tgt.elts):
                for t_, x in zip(tgt.elts, v):
                    self.assign(t_, x)
            else:
                for i, t_ in enumerate(tgt.elts):
                    self.assign(t_, app("index", v, C(i)))
        elif isinstance(tgt, ast.Attribute):
            d = self._dn(tgt)
            root = d.split(".")[0] if d is not None else None
            if d is not None and self.track_effects and root in self.env and isinstance(self.env[root], Rat) \
                    and self.env[root].as_atom() is not None and self.env[root].as_atom().op not in ("sym", "element"):
                d = None        # `r = getattr(self, a); r.dt = v` stores through the object r stands for, like `getattr(self, a).dt = v`
            if d is not None:
                self.stores[d] = v
                self.env[d] = v
            elif self.track_effects:
                # a store through a computed object (`getattr(self, name).duration = v`): kept as an ordered effect
                vv = v if isinstance(v, Rat) else (app("tuple", *v) if isinstance(v, tuple) else app("const", str(v)))
                self.stores["!effects"] = app("seq", self.stores.get("!effects", sym("!effects")), app("store", self.t(tgt.value), app("const", tgt.attr), vv))
        elif isinstance(tgt, ast.Subscript):
            d = dotted(tgt.value)
            if d is not None:
                old = self.t(tgt.value)
                idx_t = self.t(tgt.slice) if not isinstance(tgt.slice, (ast.Slice, ast.Tuple)) else None
                idx_at = idx_t.as_atom() if isinstance(idx_t, Rat) else None
                if idx_at is not None and (idx_at.op in nf.BOOL_OPS or idx_at.uid in nf.BOOLEAN_ATOMS) and isinstance(old, Rat) and isinstance(v, Rat):
                    # `x[mask] = v` with a boolean mask over all of x is `x = where(mask, v, x)`
                    nv = self._builtin("where", False, [idx_t, v, old], {}, None)
                else:
                    nv = app("setitem", old, self._slice(tgt.slice), v)
                self.env[d] = nv
                if "." in d:
                    self.stores[d] = nv
                elif self.track_locals:
                    self.stores[d + "[]"] = nv
            elif self.track_effects:
                # `self.cells_[a][b] = v`: a store into an object reached by indexing - kept as an ordered effect
                vv = v if isinstance(v, Rat) else (app("tuple", *v) if isinstance(v, tuple) else app("const", str(v)))
                bt = self.t(tgt.value)
                bt = bt if isinstance(bt, Rat) else app("const", str(bt))
                self.stores["!effects"] = app("seq", self.stores.get("!effects", sym("!effects")), app("store_item", bt, self._slice(tgt.slice), vv))
        elif isinstance(tgt, ast.Starred):
            self.assign(tgt.value, app("starred", v))


def _canon_region_text(st) -> str:
    """Text of a region outside the fragment with products and keyword arguments in a fixed order."""
    import copy
    t = copy.deepcopy(st)
    for n in ast.walk(t):
        if isinstance(n, ast.Call) and len(n.keywords) > 1 and all(k.arg is not None for k in n.keywords):
            n.keywords.sort(key=lambda k: k.arg)
    # innermost first, so that the sort keys of outer products are already canonical
    for n in reversed(list(ast.walk(t))):
        if isinstance(n, ast.BinOp) and isinstance(n.op, ast.Mult) and ast.unparse(n.left) > ast.unparse(n.right):
            n.left, n.right = n.right, n.left
    return ast.unparse(t)


def _is_new(callee: Func) -> bool:
    from . import alpha
    return not alpha.is_reference_function(callee.module.rel, callee.cls.name if callee.cls else None, callee.name)


def _match_to_if(st: ast.Match):
    """`match (a, b): case [True, False]: ...` over a tuple of truth values is an if / elif chain; other matches are left alone."""
    subj = st.subject
    if not isinstance(subj, (ast.Tuple, ast.List)):
        return _match_values_to_if(st)
    tests = []
    for case in st.cases:
        if case.guard is not None:
            return None
        pat = case.pattern
        if isinstance(pat, ast.MatchAs) and pat.pattern is None and pat.name is None:
            tests.append((None, case.body))
            continue
        if not isinstance(pat, ast.MatchSequence) or len(pat.patterns) != len(subj.elts):
            return None
        conj = []
        for el, sp in zip(subj.elts, pat.patterns):
            if isinstance(sp, ast.MatchSingleton) and isinstance(sp.value, bool):
                conj.append(el if sp.value else ast.UnaryOp(op=ast.Not(), operand=el))
            elif isinstance(sp, ast.MatchValue) and isinstance(sp.value, ast.Constant) and isinstance(sp.value.value, bool):
                conj.append(el if sp.value.value else ast.UnaryOp(op=ast.Not(), operand=el))
            elif isinstance(sp, ast.MatchAs) and sp.pattern is None:
                continue
            else:
                return None
        tests.append((ast.BoolOp(op=ast.And(), values=conj) if len(conj) > 1 else (conj[0] if conj else None), case.body))
    # exhaustive over the truth values (every assignment matches some case): the last case is the else arm
    import itertools
    pats = []
    for case in st.cases:
        pat = case.pattern
        if isinstance(pat, ast.MatchAs):
            pats.append((None,) * len(subj.elts))
        else:
            pats.append(tuple((sp.value if isinstance(sp, ast.MatchSingleton) else sp.value.value) if not isinstance(sp, ast.MatchAs) else None for sp in pat.patterns))
    if len(subj.elts) <= 6 and all(any(all(pv is None or pv == v for pv, v in zip(pt, asg)) for pt in pats) for asg in itertools.product((True, False), repeat=len(subj.elts))):
        tests[-1] = (None, tests[-1][1])
    chain = None
    for test, body in reversed(tests):
        if test is None:
            chain = list(body)
        else:
            node = ast.If(test=test, body=list(body), orelse=chain if chain is not None else [])
            ast.copy_location(node, st)
            ast.fix_missing_locations(node)
            chain = [node]
    return chain


def _match_values_to_if(st: ast.Match):
    """`match x: case "a": ... case 1 | 2: ... case _: ...` over literal values is an if / elif chain on equality."""
    subj = st.subject
    tests = []
    for case in st.cases:
        if case.guard is not None:
            return None
        pat = case.pattern

        def lit(p):
            if isinstance(p, ast.MatchValue) and isinstance(p.value, ast.Constant):
                return ast.Compare(left=subj, ops=[ast.Eq()], comparators=[p.value])
            if isinstance(p, ast.MatchSingleton):
                return ast.Compare(left=subj, ops=[ast.Is()], comparators=[ast.Constant(value=p.value)])
            return None
        if isinstance(pat, ast.MatchAs) and pat.pattern is None and pat.name is None:
            tests.append((None, case.body))
        elif isinstance(pat, ast.MatchOr):
            parts = [lit(p) for p in pat.patterns]
            if any(x is None for x in parts):
                return None
            tests.append((ast.BoolOp(op=ast.Or(), values=parts), case.body))
        else:
            t = lit(pat)
            if t is None:
                return None
            tests.append((t, case.body))
    chain = None
    for test, body in reversed(tests):
        if test is None:
            chain = list(body)
        else:
            node = ast.If(test=test, body=list(body), orelse=chain if chain is not None else [])
            ast.copy_location(node, st)
            ast.fix_missing_locations(node)
            chain = [node]
    return chain


def prime(b: "Builder", fnode: ast.AST, upto: ast.AST, skip=(), take_if=None):
    """Execute the simple local assignments that *dominate* `upto` (statements of the enclosing blocks that precede the
    statement chain leading to `upto`), so an expression at `upto` can be evaluated with extracted temporaries expanded.
    Assignments inside sibling compound statements are not executed, except the bodies of sibling `if`s whose test text
    satisfies `take_if` (e.g. the `if not forward:` adjustment when reasoning about the backward case)."""
    def contains(node, target):
        return any(x is target for x in ast.walk(node))

    def do_assign(st):
        tg = st.targets[0] if isinstance(st, ast.Assign) else st.target
        names = [tg] if isinstance(tg, ast.Name) else ([e for e in tg.elts if isinstance(e, ast.Name)] if isinstance(tg, (ast.Tuple, ast.List)) else [])
        if not names or any(n.id in skip for n in names) or getattr(st, "value", None) is None:
            return
        try:
            b.stmt(st)
        except Opaque:
            pass

    def walk_block(stmts):
        for st in stmts:
            if st is upto or contains(st, upto):
                if st is upto:
                    return True
                for blk in _blocks(st):
                    if any(contains(x, upto) or x is upto for x in blk):
                        return walk_block(blk)
                return True
            if isinstance(st, (ast.Assign, ast.AnnAssign)):
                do_assign(st)
            elif isinstance(st, ast.With):
                walk_block_noreturn(st.body)
            elif isinstance(st, ast.If) and take_if is not None and take_if(ast.unparse(st.test)):
                walk_block_noreturn(st.body)
        return False

    def walk_block_noreturn(stmts):
        for st in stmts:
            if isinstance(st, (ast.Assign, ast.AnnAssign)):
                do_assign(st)
            elif isinstance(st, ast.With):
                walk_block_noreturn(st.body)

    walk_block(strip_doc(fnode.body) if isinstance(fnode, (ast.FunctionDef, ast.AsyncFunctionDef)) else fnode)
    return b


def _blocks(st):
    out = []
    for fld in ("body", "orelse", "finalbody"):
        v = getattr(st, fld, None)
        if isinstance(v, list) and v and isinstance(v[0], ast.stmt):
            out.append(v)
    for h in getattr(st, "handlers", []) or []:
        out.append(h.body)
    for c in getattr(st, "cases", []) or []:
        out.append(c.body)
    return out


def simple_function(node: ast.FunctionDef) -> bool:
    """Straight-line / if-else code without loops, try, yield (candidate for inlining)."""
    for n in ast.walk(node):
        if isinstance(n, (ast.For, ast.While, ast.Try, ast.Yield, ast.YieldFrom, ast.Match, ast.AsyncFor, ast.Await)):
            return False
        if n is not node and isinstance(n, (ast.FunctionDef, ast.ClassDef)):
            return False
    return True


def signature_term(b: "Builder", node) -> Rat:
    """Defaults of the parameters (and which parameters there are): part of what a function does for its callers."""
    a = node.args
    pos = a.posonlyargs + a.args
    items = []
    for x, d in zip(pos[len(pos) - len(a.defaults):], a.defaults):
        items.append((x.arg, b.t(d)))
    for x, d in zip(a.kwonlyargs, a.kw_defaults):
        if d is not None:
            items.append((x.arg, b.t(d)))
    names = tuple(x.arg for x in pos + a.kwonlyargs) + (("*" + a.vararg.arg,) if a.vararg else ()) + (("**" + a.kwarg.arg,) if a.kwarg else ())
    return app("signature", names, tuple(sorted(items, key=lambda kv: kv[0])))


def decorators_term(node) -> Rat:
    """How the function is wrapped (property / setter / classmethod / a cache ...): a cached property is not a property."""
    return app("decorators", tuple(sorted(ast.unparse(d) for d in node.decorator_list)))


def function_term(prog: Program, func: Func, env=None, **opts):
    """Term returned by `func` with parameters as symbols (or bound through env)."""
    b = Builder(prog, func, env or {}, **opts)
    r = b.run(strip_doc(func.node.body))
    if b.track_effects:
        b.stores["!signature"] = signature_term(Builder(prog, func, {}, inline_depth=0), func.node)
        b.stores["!decorators"] = decorators_term(func.node)
    return r, b


def expr_term(src: str, env=None, prog=None, func=None, **opts):
    """Term of a Python expression given as text (spec tables)."""
    e = ast.parse(src.strip(), mode="eval").body
    b = Builder(prog, func, env or {}, **opts)
    return b.t(e)
