"""Setup / self-check: normaliser unit corpus and positive controls (builds nothing)."""
from __future__ import annotations

import ast
import sys

from . import nf, terms
from .specs import spec_term

EQUAL = [
    ("a*(b+c)", "a*b + c*a"),
    ("(a-b)/(a-b)", "1"),
    ("torch.exp(a)*torch.exp(b)", "torch.exp(a+b)"),
    ("1/torch.exp(a)", "torch.exp(-a)"),
    ("x.where(c > 0, y)", "torch.where(c > 0, x, y)"),
    ("torch.where(c > 0, x, y) + z", "torch.where(c > 0, x + z, y + z)"),
    ("torch.where(~(c > 0), y, x)", "torch.where(c > 0, x, y)"),
    ("t/dt > 0.5", "t > dt/2"),
    ("a - b", "a + (-b)"),
    ("x.clamp(min=0)", "torch.clamp(x, min=0)"),
    ("x.clamp_min(0)", "torch.clamp(x, min=0)"),
    ("torch.abs(x)", "x.abs()"),
    ("(a if p is None else b) - (c if q is None else d)", "(a - c if q is None else a - d) if p is None else (b - c if q is None else b - d)"),
    ("torch.logical_and(m, v >= th)", "(v >= th) & m"),
    ("x ** 2", "x * x"),
    ("q / (td - tr) * s", "s * q / (td - tr)"),
    ("torch.where(obs == tgt, amp, 0)", "amp * (obs == tgt)"),
    ("(a if flag else b).view(-1, 3)", "a.view(-1, 3) if flag else b.view(-1, 3)"),
    ("torch.where(m(obs), a, d * 0)", "a * m(obs)"),
]
UNEQUAL = [
    ("(f if not t else t)(x)", "x"),
    ("torch.where(m > 0, a, b).sum()", "torch.where(m > 0, a.sum(), b.sum())"),
    ("a - b", "a + b"),
    ("torch.exp(-a/tc)", "torch.exp(a/tc)"),
    ("torch.where(c > 0, x, y)", "torch.where(c > 0, y, x)"),
    ("math.ceil(x)", "math.floor(x)"),
    ("t > dt/2", "t >= dt/2"),
    ("x.clamp(min=0)", "x.clamp(max=0)"),
    ("(a - b) % n", "(a + b) % n"),
    ("a / b", "b / a"),
]


def main() -> int:
    bad = 0
    for a, b in EQUAL:
        if not nf.equal(spec_term(a), spec_term(b)):
            print(f"SELFCHECK-FAIL should be equal: {a}  vs  {b}: {nf.show(spec_term(a))} / {nf.show(spec_term(b))}")
            bad += 1
    for a, b in UNEQUAL:
        if nf.equal(spec_term(a), spec_term(b)):
            print(f"SELFCHECK-FAIL should differ: {a}  vs  {b}")
            bad += 1
    from . import controls
    bad += controls.run()
    print(f"selfcheck: {len(EQUAL)} equal pairs, {len(UNEQUAL)} unequal pairs, controls run; failures={bad}")
    return 0 if bad == 0 else 2
