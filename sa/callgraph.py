"""Call-graph closure over resolved callees, property accesses on self and typed record attributes (DESIGN 2.1)."""
from __future__ import annotations

import ast

from .model import Program, Func, ClassInfo, walk_own, dotted, is_self_attr

CREATORS = {"RecordTensor.create": "RecordTensor", "ShapedTensor.create": "ShapedTensor", "VirtualTensor.create": "VirtualTensor"}


def created_attrs(prog: Program, c: ClassInfo) -> dict:
    """attr -> class name for `X.create(self, 'attr', ...)` in constructors of the MRO."""
    out = {}
    for k in c.mro:
        for m in k.methods.values():
            if m.name != "__init__":
                continue
            for call in prog.calls_in(m):
                d = dotted(call.func)
                if d in CREATORS and len(call.args) >= 2 and isinstance(call.args[1], ast.Constant):
                    out[call.args[1].value] = CREATORS[d]
    return out


def successors(prog: Program, f: Func, concrete: ClassInfo | None = None):
    """Functions `f` may transfer control to (resolved facts only)."""
    out = set()
    cls = concrete or f.cls
    created = created_attrs(prog, cls) if cls is not None else {}
    for n in walk_own(f.node):
        if isinstance(n, ast.Call):
            r = prog.resolve_call(f, n)
            if r is not None:
                out.add(r[0])
            fn = n.func
            # self.method resolved on the concrete class (mixins call methods defined by siblings)
            if isinstance(fn, ast.Attribute) and isinstance(fn.value, ast.Name) and fn.value.id == "self" and cls is not None:
                m = cls.find_method(fn.attr)
                if m is not None:
                    out.add(m)
            # self.<record>.<method>(...)
            if isinstance(fn, ast.Attribute) and is_self_attr(fn.value) and fn.value.attr in created:
                k = prog.classes.get(created[fn.value.attr])
                if k is not None:
                    m = k.find_method(fn.attr)
                    if m is not None:
                        out.add(m)
            # Base.prop.fget(self) / fset(self, v)
            if isinstance(fn, ast.Attribute) and fn.attr in ("fget", "fset", "fdel"):
                e = prog.resolve_expr(f.module.name, fn.value)
                if e and e[0] == "prop":
                    g = e[1][0].find_prop(e[1][1], {"fget": "get", "fset": "set", "fdel": "del"}[fn.attr])
                    if g is not None:
                        out.add(g)
        elif isinstance(n, ast.Attribute) and is_self_attr(n) and cls is not None:
            which = "set" if isinstance(n.ctx, ast.Store) else ("del" if isinstance(n.ctx, ast.Del) else "get")
            g = cls.find_prop(n.attr, which)
            if g is not None:
                out.add(g)
        elif isinstance(n, ast.Attribute) and is_self_attr(n.value) and n.value.attr in created:
            # self.<record>.<prop>
            k = prog.classes.get(created[n.value.attr])
            if k is not None:
                which = "set" if isinstance(n.ctx, ast.Store) else "get"
                g = k.find_prop(n.attr, which)
                if g is not None:
                    out.add(g)
    return out


def closure(prog: Program, entries, limit=4000):
    """entries: iterable of (Func, concrete ClassInfo | None). Returns {Func: concrete class it was reached with}."""
    seen = {}
    stack = list(entries)
    while stack and len(seen) < limit:
        f, cls = stack.pop()
        if f in seen:
            continue
        seen[f] = cls
        for g in successors(prog, f, cls if (cls is not None and f.cls is not None and f.cls in cls.mro) else None):
            if g not in seen:
                nxt = cls if (cls is not None and g.cls is not None and g.cls in cls.mro) else g.cls
                stack.append((g, nxt))
    return seen
