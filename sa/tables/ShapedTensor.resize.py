@staticmethod
def spec(value, dim, size, preserve_tail=True, fill=0):
    dim = int(dim)
    size = argtest.gte('size', size, 0, int)
    if value.shape[dim] > size:
        slices = list(repeat(slice(None), times=value.ndim))
        if preserve_tail:
            slices[dim] = slice(value.shape[dim] - size, None)
        else:
            slices[dim] = slice(None, size)
        data = value[*slices,]
    elif value.shape[dim] < size:
        shape = list(value.shape)
        shape[dim] = size - value.shape[dim]
        if preserve_tail:
            data = torch.cat((full(value, fill, shape=shape), value), dim)
        else:
            data = torch.cat((value, full(value, fill, shape=shape)), dim)
    else:
        return value
    if isinstance(value, nn.Parameter):
        value.data = data
        return value
    else:
        return data
