@property
def spec(self):
    return self.connection_.synapse
