def spec(observation, trace, *, decay, amplitude, scale, matchfn):
    mask = matchfn(observation)
    if trace is None:
        return (scale * observation + amplitude) * mask
    return torch.where(mask, scale * observation + amplitude, decay * trace)
