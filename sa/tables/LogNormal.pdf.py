@classmethod
def spec(cls, support, loc, scale):
    return torch.exp(cls.logpdf(support, loc, scale))
