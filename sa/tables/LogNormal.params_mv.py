@classmethod
def spec(cls, mean, variance):
    mean, variance = _astensorsfloat(mean, variance)
    meansq = mean ** 2
    loc = torch.log(meansq / torch.sqrt(meansq + variance))
    scale = torch.sqrt(torch.log(1 + variance / meansq))
    return (loc, scale)
