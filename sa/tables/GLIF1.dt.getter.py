@property
def spec(self):
    return LIF.dt.fget(self)
