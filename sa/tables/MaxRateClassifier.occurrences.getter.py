@property
def spec(self):
    return self.occurrences_
