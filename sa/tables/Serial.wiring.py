def spec(self, inputs, **kwargs):
    return {self.__neuron_name: self._transform(inputs[self.__connection_name], **kwargs)}
