def spec(data, dim=None, keepdim=False, **kwargs):
    logdata = data.log()
    counts = torch.sum(data != 0, dim, keepdim=keepdim)
    return torch.where(counts.bool(), torch.exp(torch.sum(torch.where(logdata != float('-inf'), logdata, 0), dim, keepdim=keepdim) / counts), 0)
