def spec(self, owner, name, step_time, duration, value, constraints=None, persist_data=True, persist_constraints=False, persist_temporal=False, strict=True, live=False, inclusive=False):
    step_time = argtest.gt('step_time', step_time, 0, float)
    duration = argtest.gte('duration', duration, 0, float)
    size = max(math.ceil(duration / step_time) + bool(inclusive), 1)
    constraints = {d + 1 if d >= 0 else d: s for d, s in (constraints if constraints else {}).items()} | {0: size}
    if not self._ignore(value):
        assert value is not None
        if isinstance(value, nn.Parameter):
            value.data = value.data.unsqueeze(0).repeat(*chain((size,), repeat(1, times=value.ndim)))
        else:
            value = value.unsqueeze(0).repeat(*chain((size,), repeat(1, times=value.ndim)))
    ShapedTensor.__init__(self, owner, name, value, constraints, persist_data=persist_data, persist_constraints=persist_constraints, strict=strict, live=live)
    self.__owner = weakref.ref(owner)
    self.__finalizer = weakref.finalize(self, _recordtensor_finalization, self.__owner, self.name)
    self.__attributes: RecordTensor.LinkedAttributes = RecordTensor.LinkedAttributes(ShapedTensor.attributes.fget(self).data, ShapedTensor.attributes.fget(self).constraints, f'_{self.name}_dt', f'_{self.name}_duration', f'_{self.name}_inclusive', f'_{self.name}_pointer')
    if isinstance(owner, Module) and persist_temporal:
        owner.register_extra(self.__attributes.dt, step_time)
        owner.register_extra(self.__attributes.duration, duration)
        owner.register_extra(self.__attributes.inclusive, inclusive)
    else:
        setattr(owner, self.__attributes.dt, step_time)
        setattr(owner, self.__attributes.duration, duration)
        setattr(owner, self.__attributes.inclusive, inclusive)
    if isinstance(owner, Module):
        owner.register_extra(self.__attributes.pointer, 0)
    else:
        setattr(owner, self.__attributes.pointer, 0)
