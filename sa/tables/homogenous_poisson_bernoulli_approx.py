def spec(inputs, steps, step_time, *, generator=None):
    with torch.no_grad():
        res = inputs / 1000.0 * step_time
        return torch.bernoulli(ein.repeat(res.clamp_max_(1.0), '... -> t ...', t=int(steps)), generator=generator).bool()
