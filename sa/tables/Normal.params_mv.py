@classmethod
def spec(cls, mean, variance):
    mean, variance = _astensorsfloat(mean, variance)
    return (mean, torch.sqrt(variance))
