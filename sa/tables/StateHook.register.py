def spec(self):
    if not self.registered:
        Hook.register(self, self.module)
