@batchsz.setter
def spec(self, value):
    BatchShapeMixin.batchsz.fset(self, value)
    self.clear()
