def spec(self, prev_data, next_data, sample_at, step_time):
    return prev_data + sample_at
