def spec(self, prehook=None, posthook=None, *, prehook_kwargs=None, posthook_kwargs=None, train_update=True, eval_update=True):
    _ = argtest.onedefined(('prehook', prehook), ('posthook', posthook))
    weakself_bfc = weakref.ref(self)

    def context_prehook(*args, **kwargs):
        getattr(weakself_bfc(), prehook)(*args, **kwargs)
    weakself_afc = weakref.ref(self)

    def context_posthook(*args, **kwargs):
        getattr(weakself_afc(), posthook)(*args, **kwargs)
    Hook.__init__(self, prehook=context_prehook if prehook else None, posthook=context_posthook if posthook else None, prehook_kwargs=prehook_kwargs if prehook else None, posthook_kwargs=posthook_kwargs if posthook else None, train_update=train_update, eval_update=eval_update)
