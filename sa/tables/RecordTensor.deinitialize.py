def spec(self, use_uninitialized=False):
    data = self.__data
    if isinstance(data, nn.Parameter):
        if use_uninitialized:
            self.__data = nn.UninitializedParameter(requires_grad=data.requires_grad, device=data.device, dtype=data.dtype)
        elif isinstance(data, nn.UninitializedParameter):
            self.__data = nn.Parameter(torch.empty(0, dtype=data.dtype, device=data.device), data.requires_grad)
        else:
            data.data = empty(data, shape=(0,))
    elif isinstance(data, torch.Tensor):
        if use_uninitialized:
            self.__data = nn.UninitializedBuffer(requires_grad=data.requires_grad, device=data.device, dtype=data.dtype)
        elif isinstance(data, nn.UninitializedBuffer):
            self.__data = torch.empty(0, dtype=data.dtype, device=data.device, requires_grad=data.requires_grad)
        else:
            self.__data = empty(data, shape=(0,))
    elif use_uninitialized:
        self.__data = nn.UninitializedBuffer()
    else:
        self.__data = torch.empty(0)
    self.__pointer = 0
    return self.__data
