def spec(spikes, step_time, time_first=True):
    if time_first:
        spikes = ein.rearrange(spikes, 't ... -> ... t')
    step_time = float(step_time)
    padded = F.pad(spikes, (1, 0), mode='constant', value=True)
    nz = torch.nonzero(padded)[..., -1]
    splits = torch.nonzero(torch.logical_not(nz)).view(-1).tolist()[1:]
    intervals = torch.tensor_split((nz - 1) * step_time, splits, dim=-1)
    intervals = nn.utils.rnn.pad_sequence(intervals, batch_first=True, padding_value=float('nan'))[:, 1:]
    intervals = torch.diff(intervals, dim=-1)
    if time_first:
        return ein.rearrange(intervals.view(*spikes.shape[:-1], -1), '... t -> t ...')
    else:
        return intervals.view(*spikes.shape[:-1], -1)
