def spec(self, shape, step_time, *, spike_charge, delay=0.0, interp_mode='previous', interp_tol=0.0, current_overbound=0.0, spike_overbound=False, batch_size=1, inplace=False):
    InfernoSynapse.__init__(self, shape, step_time, delay, batch_size, inplace)
    self.spike_charge = argtest.neq('spike_charge', spike_charge, 0, float)
    match interp_mode.lower():
        case 'nearest':
            interp = interp_nearest
        case 'previous':
            interp = interp_previous
        case _:
            raise RuntimeError(f"invalid interp_mode '{interp_mode}' received, must be one of 'nearest' or 'previous'.")
    SpikeCurrentMixin.__init__(self, torch.zeros(*self.batchedshape), torch.zeros(*self.batchedshape, dtype=torch.bool), current_interp=interp, current_interp_kwargs={}, spike_interp=interp, spike_interp_kwargs={}, current_overbound=current_overbound, spike_overbound=spike_overbound, tolerance=interp_tol)
