@classmethod
def spec(cls, reducer, as_prehook=False, train_update=True, eval_update=True, prepend=False, filter_=None, map_=None):

    def constructor(attr: str, module: Module):
        return cls(reducer=reducer, attr=attr, module=module, as_prehook=as_prehook, train_update=train_update, eval_update=eval_update, prepend=prepend, filter_=filter_, map_=map_)
    return constructor
