def spec(self, step_time, duration, inclusive=False, inplace=False):
    Reducer.__init__(self)
    self.__step_time = argtest.gt('step_time', step_time, 0, float)
    self.__duration = argtest.gte('duration', duration, 0, float)
    self.__inclusive = bool(inclusive)
    self.__inplace = bool(inplace)
    self.__records = set()
