def spec(self, module, args, *_):
    res = rgetattr(module, self.__observed_attr)
    if self.filter_(res, self.__data):
        self.reducer_(*self.map_(res, self.__data))
