def spec(self):
    return self._extras
