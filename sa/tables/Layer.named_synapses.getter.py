@property
def spec(self):
    return ((k, v.synapse) for k, v in self.connections_.items())
