def spec(self, *inputs, connection_kwargs=None, neuron_kwargs=None, capture_intermediate=False, **kwargs):
    ckw = {self.__connection_name: connection_kwargs} if connection_kwargs else None
    nkw = {self.__neuron_name: neuron_kwargs} if neuron_kwargs else None
    res = Layer.forward(self, {self.__connection_name: inputs}, connection_kwargs=ckw, neuron_kwargs=nkw, capture_intermediate=capture_intermediate, **kwargs)
    if capture_intermediate:
        return (res[0][self.__neuron_name], res[1][self.__connection_name])
    else:
        return res[self.__neuron_name]
