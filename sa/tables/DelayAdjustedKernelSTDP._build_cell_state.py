def spec(self, **kwargs):
    state = Module()
    kernel_post = kwargs.get('kernel_post', self.kernel_post)
    kernel_pre = kwargs.get('kernel_pre', self.kernel_pre)
    kernel_post_kwargs = kwargs.get('kernel_post_kwargs', {k: v.clone().detach() if isinstance(v, torch.Tensor) else v for k, v in self.kernel_post_kwargs.items()})
    kernel_pre_kwargs = kwargs.get('kernel_pre_kwargs', {k: v.clone().detach() if isinstance(v, torch.Tensor) else v for k, v in self.kernel_pre_kwargs.items()})
    batch_reduction = kwargs.get('batch_reduction', self.batchreduce)
    inplace = kwargs.get('inplace', self.inplace)
    state.kernel_post = kernel_post
    state.kernel_pre = kernel_pre
    state.kernel_post_kwargs = {}
    state.kernel_post_tensor_kwargs = Module()
    for k, v in kernel_post_kwargs.items():
        if isinstance(v, torch.Tensor):
            state.kernel_post_tensor_kwargs.register_buffer(k, v)
        else:
            state.kernel_post_kwargs[k] = v
    state.kernel_pre_kwargs = {}
    state.kernel_pre_tensor_kwargs = Module()
    for k, v in kernel_pre_kwargs.items():
        if isinstance(v, torch.Tensor):
            state.kernel_pre_tensor_kwargs.register_buffer(k, v)
        else:
            state.kernel_pre_kwargs[k] = v
    state.batchreduce = batch_reduction if batch_reduction is not None else torch.mean
    state.inplace = bool(inplace)
    return state
