def spec(data, dim=None, keepdim=False, **kwargs):
    return torch.amin(data, dim, keepdim=keepdim)
