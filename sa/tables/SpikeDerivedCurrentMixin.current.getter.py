@property
def spec(self):
    return self.current_.value
