@property
def spec(self):
    return self.data_.value
