def spec(pointer, offset, size):
    return (pointer - int(offset)) % size
