def spec(data, dim=None, keepdim=False, **kwargs):
    return torch.nansum(data, dim, keepdim=keepdim)
