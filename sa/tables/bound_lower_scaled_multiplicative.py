def spec(param, update, limit, range, **kwargs):
    return (param - limit) / range * update
