@property
def spec(self):
    return self.neuron.spike
