@property
def spec(self):
    return self.get_neuron(self.__neuron_name)
