def spec(self, selector):
    return _synparam_at(self.spike_, selector, self.__interp, self.__interp_kwargs, self.__tolerance, self.__overbound, None).to(dtype=self.spike_.value.dtype, device=self.spike_.value.device)
