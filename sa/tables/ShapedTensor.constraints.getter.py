@property
def spec(self):
    return dict(self.__constraints)
