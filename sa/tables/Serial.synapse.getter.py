@property
def spec(self):
    return self.get_connection(self.__connection_name).synapse
