def spec(self, observed, monitor):
    return rgetitem(self.monitors_, (observed, monitor), None)
