@data.setter
def spec(self, value):
    if value.shape != self.data_.value.shape:
        raise RuntimeError(f'shape of data cannot be changed, received value of shape {tuple(value.shape)}, required value of shape {tuple(self.data_.value.shape)}')
    self.data_.value = value
