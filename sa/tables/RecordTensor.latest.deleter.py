@latest.deleter
def spec(self):
    self.decr(1)
