def spec(inputs, steps, step_time, *, refrac=None, compensate=True, generator=None):
    with torch.no_grad():
        refrac = step_time if refrac is None else refrac
        steps, refrac = (int(steps), refrac / step_time)
        res = 1 / inputs * (1000.0 / step_time)
        if compensate:
            res = res - refrac
        nbins = int(steps // max(refrac, 1))
        res = res.new_empty(nbins, *inputs.shape).exponential_(1.0, generator=generator) * res + refrac
        res = res.cumsum(dim=0)
        res = res.clamp_max_(steps).long()
        res = res.new_zeros(steps + 1, *inputs.shape, dtype=torch.bool).scatter_(0, res, 1)
        res = res[:-1]
    return res
