def spec(self, shape, step_time, *, rest_v, reset_v, thresh_v, refrac_t, time_constant, resistance=1.0, batch_size=1):
    LIF.__init__(self, shape=shape, step_time=step_time, rest_v=rest_v, reset_v=reset_v, thresh_v=thresh_v, refrac_t=refrac_t, time_constant=time_constant, resistance=resistance, batch_size=batch_size)
