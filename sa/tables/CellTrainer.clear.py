def spec(self, **kwargs):
    for monitor in self.monitor_pool_.monitors:
        monitor.clear(**kwargs)
