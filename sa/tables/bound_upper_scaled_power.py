def spec(param, update, limit, *, power, range, **kwargs):
    return ((limit - param) / range) ** power * update
