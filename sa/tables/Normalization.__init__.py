def spec(self, module, attr, order, scale, dim, epsilon=1e-12, *, train_update=True, eval_update=True, as_prehook=False, prepend=False, always_call=False):
    self.attribute = argtest.nestedidentifier('attr', attr)
    self.order = argtest.neq('order', order, 0, None)
    self.scale = argtest.neq('scale', scale, 0, None)
    self.dim = argtest.dimensions('dim', dim, None, None, permit_none=True)
    self.eps = float(epsilon)
    StateHook.__init__(self, module, train_update=train_update, eval_update=eval_update, as_prehook=as_prehook, prepend=prepend, always_call=always_call)
