@classmethod
def spec(cls, spike_charge, tc_decay, tc_rise, spike_interp_mode='previous', interp_tol=0.0, current_overbound=0.0, spike_overbound=False, inplace=False):

    def constructor(shape: tuple[int, ...] | int, step_time: float, delay: float, batch_size: int):
        return cls(shape=shape, step_time=step_time, spike_charge=spike_charge, tc_decay=tc_decay, tc_rise=tc_rise, delay=delay, spike_interp_mode=spike_interp_mode, interp_tol=interp_tol, current_overbound=current_overbound, spike_overbound=spike_overbound, batch_size=batch_size, inplace=inplace)
    return constructor
