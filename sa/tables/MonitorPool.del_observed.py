def spec(self, name):
    if name in self.monitors_:
        shared = {id(m) for o, group in self.monitors_.items() if o != name for m in group.values()}
        for monitor in self.monitors_[name].values():
            if id(monitor) not in shared:
                monitor.deregister()
        del self.monitors_[name]
    if name in self.observed_:
        del self.observed_[name]
