def spec(self, module, *params, reduction=None, **kwargs):
    self.__class__ = type(f'{type(module).__name__}{type(self).__name__}', (type(self),), {p: property(partial(self._getacc_, attr=p), partial(self._setacc_, attr=p), partial(self._delacc_, attr=p)) for p in params})
    Module.__init__(self, **kwargs)
    _ = argtest.members('module', module, *params)
    self._parent_module = weakref.ref(module)
    self.updates_ = nn.ModuleDict({p: Accumulator() for p in params})
    if reduction:
        for acc in self.updates_.values():
            acc.reduction(reduction)
