@property
def spec(self):
    return self.get_cell(self.__feedfwd_connection_name, self.__feedfwd_neuron_name)
