@classmethod
def spec(cls, support, rate):
    support, rate = _astensorsfloat(support, rate)
    return torch.special.xlogy(support, rate) - rate - torch.lgamma(support + 1)
