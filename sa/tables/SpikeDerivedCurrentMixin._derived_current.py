def spec(self, dtype, device):
    return self.__to_current(self, dtype, device, self.spike)
