@property
def spec(self):
    return self.__call_train
