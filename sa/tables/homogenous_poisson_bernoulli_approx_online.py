def spec(inputs, steps, step_time, *, generator=None):
    with torch.no_grad():
        res = (inputs / 1000.0 * step_time).clamp_max_(1.0)
        for _ in range(steps):
            yield torch.bernoulli(res, generator=generator).bool()
