@property
def spec(self):
    return MapAccessor(self.__monitors)
