def spec(param, pos, neg, max, min, *, upper_power, lower_power, **kwargs):
    if max is not None:
        pos = bound_upper_power(param, pos, max, power=upper_power)
    if min is not None:
        neg = bound_lower_power(param, neg, min, power=lower_power)
    return pos - neg
