def spec(sample, sample_at, prev_data, next_data, step_time, *, adjust=None, **kwargs):
    next_data = adjust(next_data) if adjust else next_data
    slope = (next_data - sample) / (step_time - sample_at)
    return (next_data - slope * step_time, next_data)
