def spec(self, inputs, online=False):
    if online:
        return nf.homogeneous_poisson_exp_interval_online(self.frequency * inputs, steps=self.steps, step_time=self.dt, refrac=self.refrac, compensate=self.compensated, generator=self.generator)
    else:
        return nf.homogeneous_poisson_exp_interval(self.frequency * inputs, steps=self.steps, step_time=self.dt, refrac=self.refrac, compensate=self.compensated, generator=self.generator)
