def spec(self):
    _detach_handles(self.__prehook_handle, self.__posthook_handle)
    self.__prehook_handle = None
    self.__posthook_handle = None
    if self.__finalizer:
        self.__finalizer.detach()
    self.__finalizer = None
