@property
def spec(self):
    return WeightBiasDelayMixin.delay.fget(self)
