def spec(prev_data, next_data, sample_at, step_time, **kwargs):
    return prev_data
