def spec(self, step_time):
    self.__step_time = argtest.gt('step_time', step_time, 0, float)
