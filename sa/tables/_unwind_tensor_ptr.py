def spec(pointer, offset, size):
    return (pointer - offset.long()) % size
