@property
def spec(self):
    return RefractoryStepMixin.refrac.fget(self)
