def spec(self, reducer, attr, module=None, train_update=True, eval_update=True, prepend=False, filter_=None, map_=None, op_=None):

    def _default_filter(final, initial):
        return not (final is None and initial is None)

    def _default_map(final, initial, op=op_ if op_ else lambda f, i: f - i):
        return tuple((op(fv, iv) for fv, iv in zip(final if isinstance(final, tuple) else (final,), initial if isinstance(initial, tuple) else (initial,))))
    self.filter_ = filter_ if filter_ else _default_filter
    self.map_ = map_ if map_ else _default_map
    self.__observed_attr = attr
    self.__data = None
    Monitor.__init__(self, reducer=reducer, module=module, prehook='_monitor_pre_call', posthook='_monitor_post_call', prehook_kwargs={'prepend': prepend}, posthook_kwargs={'prepend': prepend}, train_update=train_update, eval_update=eval_update)
