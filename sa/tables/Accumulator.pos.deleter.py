@pos.deleter
def spec(self):
    self._pos = nn.ParameterList()
    self._pos_cache.cache_clear()
