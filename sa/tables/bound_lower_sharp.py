def spec(param, update, limit, **kwargs):
    diff = param - limit
    return torch.heaviside(diff, zeros(diff, shape=())) * update
