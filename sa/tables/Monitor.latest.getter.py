@property
def spec(self):
    return self.reducer_.latest
