def spec(self, **kwargs):
    return self.reducer_.clear(**kwargs)
