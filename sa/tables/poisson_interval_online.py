def spec(inputs, steps, step_time, *, generator=None):
    with torch.no_grad():
        steps = int(steps)
        mask = inputs > 0
        inputs = 1 / inputs * (1000.0 / step_time)
        inputs[~mask] = 0
        intervals = torch.poisson(inputs, generator=generator)
        for _ in range(steps):
            intervals -= 1
            spikes = torch.logical_and(intervals < 1, mask)
            intervals[spikes] = torch.poisson(inputs[spikes], generator=generator)
            yield spikes
