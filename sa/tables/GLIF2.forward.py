def spec(self, inputs, adapt=None, refrac_lock=True, **kwargs):
    spikes, voltages, refracs = nf.voltage_thresholding_linear(inputs=inputs, refracs=self.refrac, dynamics=self._integrate_v, voltages=self.voltage if refrac_lock else None, step_time=self.step_time, rest_v=self.rest_v, v_slope=self.reset_v_mul, v_intercept=self.reset_v_add, thresh_v=nf.apply_adaptive_thresholds(self.thresh_eq_v, self.threshold_adaptation), refrac_t=self.refrac_t)
    self.voltage = voltages
    self.refrac = refracs
    if adapt or (adapt is None and self.training):
        adaptations = nf.adaptive_thresholds_linear_spike(adaptations=self.threshold_adaptation, spikes=spikes, step_time=self.step_time, time_constant=1 / self.rc_adaptation, spike_increment=self.adapt_increment, refracs=self.refrac if refrac_lock else None)
        self.threshold_adaptation = adaptations
    return spikes
