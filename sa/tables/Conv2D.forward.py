def spec(self, *inputs, **kwargs):
    res = self.synapse(*(self.like_synaptic(inp) for inp in inputs), **kwargs)
    kernel = ein.rearrange(self.weight, 'f c h w -> f (c h w)')
    if self.delayedby:
        res = ein.rearrange(self.syncurrent, 'b n l f -> b f n l')
        res = ein.rearrange(ein.einsum(kernel, res, 'f n, b f n l -> b f l'), 'b f (oh ow) -> b f oh ow', oh=self.outheight, ow=self.outwidth)
    else:
        res = ein.rearrange(torch.matmul(kernel, res), 'b f (oh ow) -> b f oh ow', oh=self.outheight, ow=self.outwidth)
    if self.biased:
        return res + ein.rearrange(self.bias, 'f -> 1 f 1 1')
    else:
        return res
