@property
def spec(self):
    return {d - 1 if d >= 0 else d: s for d, s in self.__constraints.items() if d != 0}
