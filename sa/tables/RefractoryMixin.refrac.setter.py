@refrac.setter
def spec(self, value):
    self.refrac_.value = value
