def spec(self, dtype, device):
    return self.__to_spike(self, dtype, device, self.current)
