def spec(self, steps, step_time, frequency, *, refrac=None, compensate=True, generator=None):
    Module.__init__(self)
    self.__frequency_scale = argtest.gte('frequency', frequency, 0, float)
    self.__compensate_freq = bool(compensate)
    RefractoryStepMixin.__init__(self, steps=steps, step_time=step_time, refrac=refrac)
    GeneratorMixin.__init__(self, generator=generator)
