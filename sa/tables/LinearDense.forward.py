def spec(self, *inputs, **kwargs):
    res = self.synapse(*(self.like_synaptic(inp) for inp in inputs), **kwargs)
    if self.delayedby:
        res = self.syncurrent
        if self.biased:
            res = ein.einsum(res, self.weight, 'b i o, o i -> b o') + self.bias
        else:
            res = ein.einsum(res, self.weight, 'b i o, o i -> b o')
    else:
        res = F.linear(res, self.weight, self.bias)
    return res.view(-1, *self.outshape)
