def spec(self, length, offset=1, forward=False):
    data, ptr, recordsz = (self.__data, self.__pointer, self.__recordsz)
    if not forward:
        offset = offset + (length - 1)
    if self._ignore(data):
        raise RuntimeError('cannot read from uninitialized storage')
    elif not isinstance(offset, torch.Tensor):
        start = _unwind_ptr(ptr, offset, recordsz)
        end = _unwind_ptr(ptr, offset - length, recordsz)
        if start >= end:
            return ein.rearrange(torch.cat((data[start:, ...], data[:end, ...]), 0), 't ... -> ... t')
        else:
            return ein.rearrange(data[start:end, ...], 't ... -> ... t')
    elif (*offset.shape,) != (*data.shape[1:],):
        raise ValueError(f"shape of 'offset' {(*offset.shape,)} must have the shape {(*data.shape[1:],)}, like a stored observation")
    else:
        offset = ein.rearrange(offset.unsqueeze(-1) - torch.arange(0, length, dtype=torch.int64, device=offset.device), '... t -> t ...')
        return ein.rearrange(torch.gather(data, 0, _unwind_tensor_ptr(ptr, offset, recordsz)), 't ... -> ... t')
