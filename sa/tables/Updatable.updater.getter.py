@property
def spec(self):
    return self.updater_
