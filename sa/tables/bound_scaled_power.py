def spec(param, pos, neg, max, min, *, upper_power, lower_power, **kwargs):
    if max is not None:
        pos = bound_upper_scaled_power(param, pos, max, power=upper_power, range=max - min)
    if min is not None:
        neg = bound_lower_scaled_power(param, neg, min, power=lower_power, range=max - min)
    return pos - neg
