@property
def spec(self):
    return self.get_connection(self.__feedback_connection_name).updater
