def spec(self, shape, step_time, *, spike_charge, time_constant, delay=0.0, spike_interp_mode='previous', interp_tol=0.0, current_overbound=0.0, spike_overbound=False, batch_size=1, inplace=False):
    InfernoSynapse.__init__(self, shape, step_time, delay, batch_size, inplace)
    self.spike_charge = argtest.neq('spike_charge', spike_charge, 0, float)
    self.time_constant = argtest.gt('time_constant', time_constant, 0, float)
    match spike_interp_mode.lower():
        case 'nearest':
            spike_interp_mode = interp_nearest
        case 'previous':
            spike_interp_mode = interp_previous
        case _:
            raise RuntimeError(f"invalid ispike_interp_modenterp_mode '{spike_interp_mode}' received, must be one of 'nearest' or 'previous'.")
    SpikeCurrentMixin.__init__(self, torch.zeros(*self.batchedshape), torch.zeros(*self.batchedshape, dtype=torch.bool), current_interp=interp_expdecay, current_interp_kwargs={'time_constant': self.time_constant}, spike_interp=spike_interp_mode, spike_interp_kwargs={}, current_overbound=current_overbound, spike_overbound=spike_overbound, tolerance=interp_tol)
