@classmethod
def spec(cls, support, loc, scale):
    support, loc, scale = _astensorsfloat(support, loc, scale)
    return Normal.cdf(torch.log(support), loc, scale)
