def spec(prev_data, next_data, sample_at, step_time, **kwargs):
    slope = (next_data - prev_data) / step_time
    return prev_data + slope * sample_at
