def spec(self, param, **kwargs):
    pos, neg = (self.pos, self.neg)
    if pos is not None and neg is not None:
        if isinstance(self.bind, list):
            return self.bind[0](param, pos) - self.bind[1](param, neg)
        else:
            return self.bind(param, pos, neg)
    elif pos is not None:
        if isinstance(self.bind, list):
            return self.bind[0](param, pos)
        else:
            return self.bind(param, pos, torch.zeros_like(pos))
    elif neg is not None:
        if isinstance(self.bind, list):
            return -self.bind[1](param, neg)
        else:
            return self.bind(param, torch.zeros_like(neg), neg)
    else:
        return None
