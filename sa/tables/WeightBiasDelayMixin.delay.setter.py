@delay.setter
def spec(self, value):
    if hasattr(self, 'delay_'):
        self.delay_.data = value
