@voltage.setter
def spec(self, value):
    self.voltage_.value = value
