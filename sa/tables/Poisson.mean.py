@classmethod
def spec(cls, rate):
    rate = _astensorsfloat(rate)
    return rate
