def spec(self, **kwargs):
    self.spike_.reset(False)
