@dt.setter
def spec(self, value):
    self.step_time = argtest.gt('dt', value, 0, float)
