def spec(self, data):
    return ein.rearrange(data, 'b ... -> b (...)')
