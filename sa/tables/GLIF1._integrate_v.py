def spec(self, masked_inputs):
    return LIF._integrate_v(self, masked_inputs)
