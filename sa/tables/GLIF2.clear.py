def spec(self, keep_adaptations=True, **kwargs):
    self.voltage = torch.full_like(self.voltage, self.rest_v)
    self.refrac = torch.zeros_like(self.refrac)
    if not keep_adaptations:
        self.threshold_adaptation = torch.zeros_like(self.threshold_adaptation)
