def spec(adaptations, voltages, *, step_time, rest_v, adapt_rate, rebound_rate, adapt_reset_min=None, spikes=None, refracs=None):
    euler_step = step_time * (adapt_rate * (voltages - rest_v).unsqueeze(-1) - rebound_rate * adaptations)
    if refracs is None:
        adaptations = adaptations + euler_step
    else:
        adaptations = adaptations.where(refracs.unsqueeze(-1) > 0, adaptations + euler_step)
    if adapt_reset_min is not None and spikes is not None:
        adaptations = adaptations.where(spikes.unsqueeze(-1) == 0, adaptations.clamp_min(adapt_reset_min))
    return adaptations
