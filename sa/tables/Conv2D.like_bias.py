def spec(self, data):
    return ein.rearrange(data, 'f 1 1 1 -> f')
