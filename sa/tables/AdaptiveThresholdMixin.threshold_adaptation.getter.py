@property
def spec(self):
    return self.threshold_adaptation_
