def spec(value, tensor, *, dtype=None, layout=None, device=None, requires_grad=None):
    return full(tensor, value, shape=(), dtype=dtype, layout=layout, device=device, requires_grad=requires_grad)
