@property
def spec(self):
    return bool(self.__owner()) and self._ignore_or_compatible(self.__data, self.__constraints, self.__strict)
