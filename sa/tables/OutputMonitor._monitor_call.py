def spec(self, module, args, output, *_):
    if self.filter_(output):
        self.reducer(*self.map_(output))
