def spec(self):
    for cell, state, monitors in self:
        if not cell.training or not self.training or (not cell.updater):
            continue
        t_post = cell.connection.postsyn_receptive(monitors['spike_post'].peek())
        t_pre = cell.connection.presyn_receptive(monitors['spike_pre'].peek())
        t_delta = t_pre - t_post - cell.connection.delay.unsqueeze(-1)
        t_delta_abs = t_delta.abs()
        dneg = state.batchreduce((torch.exp(t_delta_abs / -state.tc_neg) * (abs(state.lr_neg) * (t_delta >= 0).to(dtype=t_delta_abs.dtype))).nansum(-1), 0)
        dpos = state.batchreduce((torch.exp(t_delta_abs / -state.tc_pos) * (abs(state.lr_pos) * (t_delta < 0).to(dtype=t_delta_abs.dtype))).nansum(-1), 0)
        match (state.lr_neg < 0, state.lr_pos < 0):
            case [True, True]:
                cell.updater.delay = (None, dpos + dneg)
            case [True, False]:
                cell.updater.delay = (dpos, dneg)
            case [False, True]:
                cell.updater.delay = (dneg, dpos)
            case [False, False]:
                cell.updater.delay = (dpos + dneg, None)
