def spec(self, currents, interpolation, interp_kwargs, overbound, tolerance):
    _ = argtest.instance('self', self, InfernoSynapse)
    RecordTensor.create(self, 'current_', self.dt, self.delay, currents, persist_data=True, persist_constraints=False, persist_temporal=False, strict=True, live=False, inclusive=True)
    self.add_delayed('current_')
    self.add_batched('current_')
    self.__interp = interpolation
    self.__interp_kwargs = interp_kwargs
    self.__overbound = overbound if overbound is None else float(overbound)
    self.__tolerance = float(tolerance)
