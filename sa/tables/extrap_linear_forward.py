def spec(sample, sample_at, prev_data, next_data, step_time, *, adjust=None, **kwargs):
    prev_data = adjust(prev_data) if adjust else prev_data
    slope = (sample - prev_data) / sample_at
    return (prev_data, prev_data + slope * step_time)
