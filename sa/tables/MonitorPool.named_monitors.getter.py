@property
def spec(self):
    return chain.from_iterable(((((o, n), m) for n, m in md.items()) for o, md in self.monitors_.items()))
