@torch.no_grad()
def spec(t0, t1, cost):
    if not isinstance(cost, torch.Tensor):
        if cost == 0.0:
            return torch.tensor([float(abs(t0.numel() - t1.numel()))], device=t0.device)
        elif cost == float('inf'):
            return torch.tensor([float(t0.numel() + t1.numel())], device=t0.device)
        else:
            cost = torch.tensor([float(cost)], device=t0.device)
    tckwargs = {'dtype': cost.dtype, 'device': cost.device}
    grid = torch.zeros(t0.numel() + 1, t1.numel() + 1, **tckwargs)
    grid[:, 0] = torch.arange(0, t0.numel() + 1, **tckwargs).t()
    grid[0, :] = torch.arange(0, t1.numel() + 1, **tckwargs).t()
    grid = grid.unsqueeze(0).repeat(cost.numel(), 1, 1)
    for r in range(1, t0.numel() + 1):
        for c in range(1, t1.numel() + 1):
            c_add_a = grid[:, r - 1, c] + 1
            c_add_b = grid[:, r, c - 1] + 1
            c_shift = grid[:, r - 1, c - 1] + cost * torch.abs(t0[r - 1] - t1[c - 1])
            grid[:, r, c] = torch.stack((c_add_a, c_add_b, c_shift), 0).nan_to_num(nan=float('inf')).amin(0)
    return grid[:, -1, -1]
