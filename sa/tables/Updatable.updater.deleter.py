@updater.deleter
def spec(self):
    self.updater_ = None
