def spec(self, reducer, module=None, prehook=None, posthook=None, prehook_kwargs=None, posthook_kwargs=None, train_update=True, eval_update=True):
    Module.__init__(self)
    ContextualHook.__init__(self, prehook=prehook, posthook=posthook, prehook_kwargs=prehook_kwargs, posthook_kwargs=posthook_kwargs, train_update=train_update, eval_update=eval_update)
    self._observed = None
    if module is not None:
        self.register(module)
    self.reducer_ = reducer
