@dt.setter
def spec(self, value):
    self.synapse.dt = value
