@property
def spec(self):
    if self.delayedby is not None:
        delays = self.delay
    else:
        delays = torch.zeros_like(self.weight)
    return ein.rearrange(delays, 'n -> 1 n 1').expand(self.batchsz, -1, -1)
