@property
def spec(self):
    if hasattr(self, 'bias_'):
        return self.bias_
