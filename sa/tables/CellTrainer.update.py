def spec(self, **kwargs):
    for updater in unique(filter(lambda c: c is not None, map(lambda c: c.updater, self.cells))):
        updater(**kwargs)
