@classmethod
def spec(cls, owner, name, value, constraints=None, persist_data=True, persist_constraints=False, strict=True, live=False):
    constrained = cls(owner, name, value, constraints, persist_data=persist_data, persist_constraints=persist_constraints, strict=strict, live=live)
    setattr(constrained.owner, constrained.name, constrained)
