@property
def spec(self):
    if hasattr(self, 'delay_'):
        return self.delay_
