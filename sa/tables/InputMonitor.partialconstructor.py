@classmethod
def spec(cls, reducer, train_update=True, eval_update=True, prepend=False, filter_=None, map_=None):

    def constructor(attr: str, module: Module):
        return cls(reducer=reducer, module=rgetattr(module, attr), train_update=train_update, eval_update=eval_update, prepend=prepend, filter_=filter_, map_=map_)
    return constructor
