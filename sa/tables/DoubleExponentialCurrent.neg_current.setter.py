@neg_current.setter
def spec(self, value):
    self.neg_current_.push(value, self.inplace)
