@property
def spec(self):
    return self.neg_current_.peek()
