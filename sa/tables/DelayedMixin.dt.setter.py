@dt.setter
def spec(self, value):
    value = argtest.gt('dt', value, 0, float)
    if value != self.__step_time:
        for cstr in self.__constrained:
            getattr(self, cstr).dt = value
        self.__step_time = value
