@property
def spec(self):
    return self.synapse.batchsz
