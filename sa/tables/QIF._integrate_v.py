def spec(self, masked_inputs):
    return nf.voltage_integration_quadratic(masked_inputs, self.voltage, step_time=self.step_time, rest_v=self.rest_v, crit_v=self.crit_v, affinity=self.affinity, time_constant=self.time_constant, resistance=self.resistance)
