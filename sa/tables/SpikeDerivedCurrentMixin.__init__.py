def spec(self, spikes, to_currents, interp, interp_kwargs, current_overbound, spike_overbound, tolerance):
    SpikeMixin.__init__(self, spikes, interp, interp_kwargs, spike_overbound, tolerance)
    self.__to_current = to_currents
    self.__interp = interp
    self.__interp_kwargs = interp_kwargs
    self.__current_overbound = None if current_overbound is None else float(current_overbound)
    self.__tolerance = argtest.gte('tolerance', tolerance, 0, float)
    VirtualTensor.create(self, 'current_', '_derived_current', persist=False)
