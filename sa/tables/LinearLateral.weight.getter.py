@property
def spec(self):
    return WeightBiasDelayMixin.weight.fget(self)
