def spec(self, *attr):
    for a in attr:
        if not hasattr(self, a):
            raise RuntimeError(f"no attribute '{a}' exists")
        elif not isinstance(getattr(self, a), RecordTensor):
            raise TypeError(f"attribute '{a}' specifies a {type(getattr(self, a).__name__)}, not a RecordTensor")
        else:
            getattr(self, a).dt = self.__step_time
            getattr(self, a).duration = self.__duration
            getattr(self, a).inclusive = self.__inclusive
            self.__records.add(a)
