def spec(self, **kwargs):
    Updatable.clear(self, **kwargs)
    self.synapse.clear(**kwargs)
