def spec(self, basis, realign, realign_args, realign_kwargs):
    self.__monitors = weakref.WeakValueDictionary()
    self.__basis = weakref.ref(basis)
    self.__basis_realign = weakref.WeakMethod(getattr(basis, realign))
    self.__realign_args = realign_args if realign_args else ()
    self.__realign_kwargs = realign_kwargs if realign_kwargs else {}
