def spec(self, **kwargs):
    if self.updatable:
        self.updater.clear(**kwargs)
