def spec(self, inputs, refrac_lock=True, **kwargs):
    return LIF.forward(self, inputs, refrac_lock=refrac_lock)
