@property
def spec(self):
    return Proxy(self.connections_, '')
