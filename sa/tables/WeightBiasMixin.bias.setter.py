@bias.setter
def spec(self, value):
    if hasattr(self, 'bias_'):
        self.bias_.data = value
