def spec(self, inputs, **kwargs):
    self.data_.push(inputs, inplace=self.inplace)
