def spec(self):
    Module.__init__(self)
    self.monitors_ = nn.ModuleDict()
    self.observed_ = weakref.WeakValueDictionary()
