@property
def spec(self):
    return self.pos_current_.peek()
