@property
def spec(self):
    return self.reducer_
