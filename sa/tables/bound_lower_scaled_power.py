def spec(param, update, limit, *, power, range, **kwargs):
    return ((param - limit) / range) ** power * update
