@dt.setter
def spec(self, value):
    DelayedMixin.dt.fset(self, value)
    self.clear()
