@rates.setter
def spec(self, value):
    self.rates_.data = value
    self.proportions_ = F.normalize(self.rates, p=1, dim=-1)
    self.assignments_ = torch.argmax(self.proportions, dim=-1)
    self.occurrences_ = torch.bincount(self.assignments.view(-1), None, self.nclass)
