def spec(self, *inputs, **kwargs):
    self.spike = inputs[0].bool()
    self.pos_current = self.pos_current * math.exp(-self.dt / self.tc_decay) + self.spike_charge / (self.tc_decay - self.tc_rise) * inputs[0]
    self.neg_current = self.neg_current * math.exp(-self.dt / self.tc_rise) + self.spike_charge / (self.tc_decay - self.tc_rise) * inputs[0]
    return self.current
