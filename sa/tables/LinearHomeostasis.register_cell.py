def spec(self, name, cell, /, **kwargs):
    state = self._build_cell_state(**kwargs)
    cell, state = self.add_cell(name, cell, state, [state.param])
    if isinstance(state.target, torch.Tensor):
        state.target = state.target.to(device=getattr(cell.connection, state.param).device, dtype=getattr(cell.connection, state.param).dtype)
    self.add_monitor(name, 'spike_rate', 'neuron.spike', StateMonitor.partialconstructor(reducer=CAReducer(cell.connection.dt, duration=0.0, inclusive=True), as_prehook=False, train_update=True, eval_update=False, prepend=True), False, dt=cell.connection.dt)
    return self.get_unit(name)
