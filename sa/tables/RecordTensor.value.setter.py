@value.setter
def spec(self, value):
    _ = ShapedTensor.value.fset(self, value)
    if self._ignore(self.__data):
        setattr(self.__owner(), self.__attributes.pointer, 0)
