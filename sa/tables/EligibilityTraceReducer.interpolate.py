def spec(self, prev_data, next_data, sample_at, step_time):
    return interp_expdecay(prev_data, next_data, sample_at, step_time, time_constant=self.time_constant)
