def spec(self, index=0):
    index = argtest.index('index', index, self.__recordsz, 'recordsz')
    data = self.__data
    if not self._ignore(data):
        assert data is not None
        self.__data = data.roll(index - self.__pointer, 0)
        self.__pointer = index
    else:
        raise RuntimeError('cannot align uninitialized storage')
