@current_adaptation.setter
def spec(self, value):
    if value.shape[1:] == self.current_adaptation_.shape:
        self.current_adaptation_ = self.__batchreduce(value, 0)
    else:
        self.current_adaptation_ = value
