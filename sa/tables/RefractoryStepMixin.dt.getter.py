@property
def spec(self):
    return StepMixin.dt.fget(self)
