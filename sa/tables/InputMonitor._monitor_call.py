def spec(self, module, args, *_):
    if self.filter_(args):
        self.reducer_(*self.map_(args))
