@property
def spec(self):
    return self.monitor_pool_.monitors
