@property
def spec(self):
    return self.assignments.ndim
