def spec(self, *args, **kwargs):
    return self.reducer_.view(*args, **kwargs)
