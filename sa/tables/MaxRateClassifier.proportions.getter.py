@property
def spec(self):
    return self.proportions_
