@delay.setter
def spec(self, value):
    value = argtest.gte('delay', value, 0, float)
    if value != self.__delay:
        for cstr in self.__constrained:
            getattr(self, cstr).duration = value
        self.__delay = value
