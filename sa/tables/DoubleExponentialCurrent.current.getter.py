@property
def spec(self):
    return self.pos_current_.peek() - self.neg_current_.peek()
