def spec(sample, sample_at, prev_data, next_data, step_time, *, rate_constant, **kwargs):
    return (sample * torch.exp(sample_at * rate_constant), sample * torch.exp((sample_at - step_time) * rate_constant))
