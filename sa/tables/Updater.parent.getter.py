@property
def spec(self):
    return self._parent_module()
