@property
def spec(self):
    return self.__owner()
