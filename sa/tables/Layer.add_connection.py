def spec(self, name, connection):
    if name in self.connections_:
        raise RuntimeError(f"'name' ('{name}') is already a registered connection")
    else:
        _ = argtest.identifier('name', name)
        self.connections_[name] = connection
        return self.connections_[name]
