def spec(self, bound, max=None, /, **kwargs):
    if not isinstance(self.bind, list):
        self.bind = [lambda x, p: p, lambda x, n: n]
    if bound:
        self.bind[0] = lambda x, p, ub=max, k=kwargs: bound(x, p, ub, **k)
    else:
        self.bind[0] = lambda x, p: p
