@classmethod
def spec(cls, owner, name, step_time, duration, value, constraints=None, persist_data=True, persist_constraints=False, persist_temporal=False, strict=True, live=False, inclusive=False):
    constrained = cls(owner, name, step_time, duration, value, constraints, persist_data=persist_data, persist_constraints=persist_constraints, persist_temporal=persist_temporal, strict=strict, live=live, inclusive=inclusive)
    setattr(constrained.owner, constrained.name, constrained)
