def spec(self, prehook=None, posthook=None, *, prehook_kwargs=None, posthook_kwargs=None, train_update=True, eval_update=True):
    _ = argtest.onedefined(('prehook', prehook), ('posthook', posthook))
    if isinstance(prehook, Callable):
        self._prehook_call = prehook
    else:
        self._prehook_call = None
    if isinstance(posthook, Callable):
        self._posthook_call = posthook
    else:
        self._posthook_call = None
    self.__prehook_handle = None
    self.__posthook_handle = None
    self.__prehook_kwargs = prehook_kwargs if prehook_kwargs else {}
    self.__posthook_kwargs = posthook_kwargs if posthook_kwargs else {}
    self.__call_train = train_update
    self.__call_eval = eval_update
    self.__finalizer = None
