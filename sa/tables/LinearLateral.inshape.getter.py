@property
def spec(self):
    return self.shape
