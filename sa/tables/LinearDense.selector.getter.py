@property
def spec(self):
    if self.delayedby is not None:
        delays = self.delay
    else:
        delays = torch.zeros_like(self.weight)
    return ein.rearrange(delays, 'o i -> 1 i o').expand(self.batchsz, -1, -1)
