def spec(self, spikes):
    return spikes * (self.spike_charge / self.dt)
