@property
def spec(self):
    return chain.from_iterable(((((n0, n1), c) for n1, c in g.items()) for n0, g in self.cells_.items()))
