def spec(self):
    return self.shape
