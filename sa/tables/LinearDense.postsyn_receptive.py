def spec(self, data):
    return ein.rearrange(data, 'b ... -> b (...) 1 1')
