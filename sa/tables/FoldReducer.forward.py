def spec(self, *inputs, **kwargs):
    if not self._initial:
        self.push(self.fold(*inputs, self.peek()))
    else:
        res = self.fold(*inputs, None)
        if self.data_.ignored:
            self.data_.initialize(res.shape, fill=self.__fill)
        self.push(res)
        self._initial = False
