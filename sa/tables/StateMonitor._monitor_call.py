def spec(self, module, args, *_):
    res = rgetattr(module, self.__observed_attr)
    if self.filter_(res):
        self.reducer_(*self.map_(res))
