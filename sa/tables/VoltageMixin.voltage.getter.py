@property
def spec(self):
    return self.voltage_.value
