def spec(self, obs, offset=0, inplace=False):
    data, ptr, recordsz = (self.__data, self.__pointer, self.__recordsz)
    if self._ignore(data):
        raise RuntimeError('cannot write to uninitialized storage')
    elif (*obs.shape,) != (*data.shape[1:],):
        raise ValueError(f"shape of 'obs' {(*obs.shape,)} must have the shape {(*data.shape[1:],)}, like a stored observation")
    elif inplace:
        with torch.no_grad():
            index = _unwind_ptr(ptr, offset, recordsz)
            data[index, ...] = obs.to(dtype=data.dtype)
    else:
        index = _unwind_ptr(ptr, offset, recordsz)
        self.__data = torch.cat((data[slice(None, index), ...], obs.to(dtype=data.dtype).unsqueeze(0), data[slice(index + 1, None), ...]), 0)
