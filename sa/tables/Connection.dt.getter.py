@property
def spec(self):
    return self.synapse.dt
