def spec(param, update, limit, *, power, **kwargs):
    return (param - limit) ** power * update
