@inplace.setter
def spec(self, value):
    self.__inplace = bool(value)
