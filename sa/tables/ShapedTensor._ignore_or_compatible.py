@staticmethod
def spec(tensor, constraints, strict):
    return tensor is None or isinstance(tensor, nn.UninitializedBuffer | nn.UninitializedParameter) or (not (tensor.numel() or tensor.ndim > 1)) or _constraints_compatible(tensor, constraints, strict)
