def spec(self, data):
    return ein.rearrange(data, 'b i ... -> b (...) i 1')
