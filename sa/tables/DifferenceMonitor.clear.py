def spec(self, **kwargs):
    self.__data = None
    return self.reducer_.clear(**kwargs)
