def spec(self, obs, time, extrap=None, *, tolerance=1e-06, offset=0, inplace=False, extrap_kwargs=None):
    if not extrap:
        extrap = extrap_nearest
    data = self.__data
    ptr, recordsz, dt = (self.__pointer, self.__recordsz, self.__dt)
    if self._ignore(data):
        raise RuntimeError('cannot insert into uninitialized storage')
    elif (*obs.shape,) != (*data.shape[1:],):
        raise ValueError(f"shape of 'obs' {(*obs.shape,)} must have the shape {(*data.shape[1:],)}, like a stored observation")
    elif isinstance(time, torch.Tensor):
        if (*time.shape,) != (*data.shape[1:],):
            raise ValueError(f"shape of 'time' {(*time.shape,)} must have the shape {(*data.shape[1:],)}, like a stored observation")
        tmin, tmax = (time.amin(), time.amax())
        if tmin < -tolerance or tmax > dt * (recordsz - 1) + tolerance:
            raise ValueError(f"all elements of 'time' (min={tmin}, max={tmax}) must be within the valid range of observations including tolerance, the interval [{-tolerance}, {dt * (recordsz - 1) + tolerance}]")
        shift = time / dt
        shiftr = shift.round()
        shift = torch.where(torch.abs(dt * shiftr - time) <= tolerance, shiftr, shift)
        obs = obs.unsqueeze(0)
        shift = shift.unsqueeze(0)
        offset = offset + shift
        prev_idx, next_idx = (offset.ceil(), offset.floor())
        stacked_idx = _unwind_tensor_ptr(ptr, torch.cat((prev_idx, next_idx), 0), recordsz)
        prev_data, next_data = torch.tensor_split(torch.gather(data, 0, stacked_idx), 2, 0)
        prev_exobs, next_exobs = extrap(obs, dt - dt * (shift % 1), prev_data, next_data, dt, **extrap_kwargs if extrap_kwargs else {})
        bypass = prev_idx == next_idx
        prev_exobs = torch.where(bypass, obs, prev_exobs)
        next_exobs = torch.where(bypass, obs, next_exobs)
        if inplace:
            with torch.no_grad():
                data.scatter_(0, stacked_idx, torch.cat((prev_exobs, next_exobs), 0).to(dtype=data.dtype))
        else:
            self.__data = torch.scatter(data, 0, stacked_idx, torch.cat((prev_exobs, next_exobs), 0).to(dtype=data.dtype))
    else:
        disptime, time = (time, float(time))
        if time < -tolerance or time > dt * (recordsz - 1) + tolerance:
            raise ValueError(f"'time' ({disptime}) must be within the valid range of observations, including tolerance, the interval [{-tolerance}, {dt * (recordsz - 1) + tolerance}]")
        shift = time / dt
        if abs(dt * round(shift) - time) <= tolerance:
            self.write(obs, offset + round(shift), inplace=inplace)
        else:
            offset = offset + shift
            prev_idx = _unwind_ptr(ptr, math.ceil(offset), recordsz)
            next_idx = _unwind_ptr(ptr, math.floor(offset), recordsz)
            prev_exobs, next_exobs = extrap(obs, fullc(data, dt - dt * (shift % 1), shape=data.shape[1:]), data[prev_idx, ...], data[next_idx, ...], dt, **extrap_kwargs if extrap_kwargs else {})
            if inplace:
                with torch.no_grad():
                    data[prev_idx, ...] = prev_exobs
                    data[next_idx, ...] = next_exobs
            else:
                self.writerange(torch.stack((prev_exobs, next_exobs), -1).to(dtype=data.dtype), math.ceil(offset), forward=True, inplace=False)
