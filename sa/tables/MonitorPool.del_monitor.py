def spec(self, observed, monitor):
    if observed not in self.monitors_ or observed not in self.observed_:
        raise AttributeError(f"'observed' ('{observed}') is either not the name of an added observable or is an observable with no added monitors")
    if monitor not in self.monitors_[observed]:
        raise AttributeError(f"'monitor' ('{monitor}') is not the name of a monitor added on observable with name '{observed}'")
    target = self.monitors_[observed][monitor]
    del self.monitors_[observed][monitor]
    if not any((m is target for group in self.monitors_.values() for m in group.values())):
        target.deregister()
    if not len(self.monitors_[observed]):
        del self.monitors_[observed]
