def spec(self, kernel_post, kernel_pre, kernel_post_kwargs, kernel_pre_kwargs, batch_reduction=None, inplace=False, **kwargs):
    IndependentCellTrainer.__init__(self, **kwargs)
    self.kernel_post = kernel_post
    self.kernel_pre = kernel_pre
    self.kernel_post_kwargs = kernel_post_kwargs
    self.kernel_pre_kwargs = kernel_pre_kwargs
    self.batchreduce = batch_reduction if batch_reduction else torch.mean
    self.inplace = bool(inplace)
