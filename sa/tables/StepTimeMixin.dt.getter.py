@property
def spec(self):
    return self.__step_time
