def spec(self, data):
    _ = argtest.instance('self', self, InfernoNeuron)
    ShapedTensor.create(self, 'refrac_', data, persist_data=True, persist_constraints=False, strict=True, live=False)
    self.add_batched('refrac_')
