@property
def spec(self):
    return self.out_shape
