def spec(self, shape, step_time, *, synapse, bias=False, delay=None, batch_size=1, weight_init=None, bias_init=None, delay_init=None):
    try:
        self.shape = argtest.ofsequence('shape', shape, argtest.gt, 0, int)
    except TypeError:
        self.shape = (argtest.gt('shape', shape, 0, int),)
    size = math.prod(self.shape)
    Connection.__init__(self, synapse=synapse(size, step_time, 0.0 if delay is None else delay, batch_size))
    WeightBiasDelayMixin.__init__(self, weight=torch.rand(size), bias=None if not bias else torch.rand(size), delay=None if delay is None else torch.zeros(size), requires_grad=False)
    if weight_init:
        self.weight = weight_init(self.weight)
    if bias_init and self.biased:
        self.bias = bias_init(self.bias)
    if delay_init and self.delayedby is not None:
        self.delay = delay_init(self.delay)
