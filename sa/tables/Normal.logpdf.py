@classmethod
def spec(cls, support, loc, scale):
    return torch.log(cls.pdf(support, loc, scale))
