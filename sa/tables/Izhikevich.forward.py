def spec(self, inputs, adapt=None, refrac_lock=True, **kwargs):
    spikes, voltages, refracs = nf.voltage_thresholding_constant(inputs=nf.apply_adaptive_currents(inputs, self.current_adaptation), refracs=self.refrac, dynamics=self._integrate_v, voltages=self.voltage if refrac_lock else None, step_time=self.step_time, reset_v=self.reset_v, thresh_v=self.thresh_v, refrac_t=self.refrac_t)
    self.voltage = voltages
    self.refrac = refracs
    if adapt or (adapt is None and self.training):
        adaptations = nf.adaptive_currents_linear(adaptations=self.current_adaptation, voltages=voltages, spikes=spikes, step_time=self.step_time, rest_v=self.rest_v, time_constant=self.tc_adaptation, voltage_coupling=self.adapt_vc_coupling, spike_increment=self.adapt_increment, refracs=self.refrac if refrac_lock else None)
        self.current_adaptation = adaptations
    return spikes
