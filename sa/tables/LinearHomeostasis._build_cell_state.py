def spec(self, **kwargs):
    state = Module()
    plasticity = kwargs.get('plasticity', self.plasticity)
    target = kwargs.get('target', self.target)
    param = kwargs.get('param', self.param)
    batch_reduction = kwargs.get('batch_reduction', self.batchreduce)
    state.plasticity = float(plasticity)
    if target is None:
        state.target = None
    elif isinstance(target, torch.Tensor):
        _ = argtest.gte('target', target.amin().item(), 0, float, prefix='minimum element in ')
        state.register_buffer('target', target, persistent=False)
    else:
        state.target = argtest.gte('target', target, 0, float)
    state.param = argtest.oneof('param', param, 'weight', 'bias', 'delay', op=lambda x: x.lower())
    state.batchreduce = batch_reduction if batch_reduction is not None else torch.mean
    return state
