def spec(self, name):
    if '_extras' in self.__dict__:
        _extras = self.__dict__['_extras']
        if name in _extras:
            return _extras[name]
    return super().__getattr__(name)
