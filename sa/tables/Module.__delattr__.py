def spec(self, name):
    if name in self._extras:
        del self._extras[name]
    else:
        super().__delattr__(name)
