def spec(inputs, steps, step_time, *, generator=None):
    with torch.no_grad():
        steps = int(steps)
        mask = inputs > 0
        inputs = 1 / inputs * (1000.0 / step_time)
        inputs[~mask] = 0
        res = torch.poisson(inputs.expand(steps + 2, *inputs.shape), generator=generator)
        res[:, mask] += res[:, mask] == 0
        res = res.cumsum(dim=0)
        res = res.clamp_max_(steps).long()
        res = torch.zeros_like(res, dtype=torch.bool).scatter_(0, res, 1)
        res = res[1:-1]
    return res
