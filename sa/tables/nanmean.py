def spec(data, dim=None, keepdim=False, **kwargs):
    return torch.nanmean(data, dim, keepdim=keepdim)
