def spec(self, *includes, exclude_weight=False, exclude_bias=False, exclude_delay=False):
    params = []
    if not exclude_weight:
        params.append('weight')
    if self.biased and (not exclude_bias):
        params.append('bias')
    if self.delayedby is not None and (not exclude_delay):
        params.append('delay')
    return Updater(self, *(*params, *includes))
