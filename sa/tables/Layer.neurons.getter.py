@property
def spec(self):
    return Proxy(self.neurons_, '')
