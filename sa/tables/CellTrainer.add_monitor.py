def spec(self, cell, name, attr, monitor, unique=False, /, **tags):
    if cell not in self.cells_:
        raise AttributeError(f"'cell' ('{cell}') is not the name of an added cell")
    return self.monitor_pool_.add_monitor(cell, name, attr, monitor, unique, **tags)
