def spec(self, obs, offset=0, forward=False, inplace=False):
    data, ptr, recordsz = (self.__data, self.__pointer, self.__recordsz)
    length = obs.shape[-1]
    if not forward:
        offset = offset + (obs.shape[-1] - 1)
    if self._ignore(data):
        raise RuntimeError('cannot write to an uninitialized storage')
    if obs.shape[:-1] != data.shape[1:]:
        raise ValueError(f"'obs' has shape {(*obs.shape,)} but must have the same shape as multiple observations {(*data.shape[1:],)} stacked along the final dimension")
    if obs.shape[-1] > data.shape[0]:
        raise ValueError(f"cannot write the ({obs.shape[-1]}) observations from 'obs' when storage only holds ({data.shape[0]}) observations")
    elif not isinstance(offset, torch.Tensor):
        ptr = _unwind_ptr(ptr, offset, recordsz)
        obs = ein.rearrange(obs, '... t -> t ...')
        if inplace:
            with torch.no_grad():
                offset = -torch.arange(0, length, dtype=torch.int64, device=data.device)
                indices = _unwind_tensor_ptr(ptr, offset, recordsz)
                data[indices, ...] = obs.to(dtype=data.dtype)
        elif ptr + length > recordsz:
            self.__data = torch.cat((obs[slice(recordsz - ptr, None), ...].to(dtype=data.dtype), data[slice(length - (recordsz - ptr), ptr), ...], obs[slice(None, recordsz - ptr), ...].to(dtype=data.dtype)), 0)
        else:
            self.__data = torch.cat((data[slice(0, ptr), ...], obs.to(dtype=data.dtype), data[slice(ptr + length, None), ...]), 0)
    elif (*offset.shape,) != (*data.shape[1:],):
        raise ValueError(f"shape of 'offset' {(*offset.shape,)} must have the shape {(*data.shape[1:],)}, like a stored observation")
    else:
        offset = ein.rearrange(offset.unsqueeze(-1) - torch.arange(0, length, dtype=torch.int64, device=offset.device), '... t -> t ...')
        indices = _unwind_tensor_ptr(ptr, offset, recordsz)
        obs = ein.rearrange(obs, '... t -> t ...')
        if inplace:
            with torch.no_grad():
                data.scatter_(0, indices, obs.to(dtype=data.dtype))
        else:
            self.__data = torch.scatter(data, 0, indices, obs.to(dtype=data.dtype))
