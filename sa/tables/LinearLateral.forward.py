def spec(self, *inputs, **kwargs):
    return LinearDense.forward(self, *inputs, **kwargs)
