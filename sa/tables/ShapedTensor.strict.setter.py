@strict.setter
def spec(self, value):
    self.__strict = bool(value)
