@property
def spec(self):
    return LinearDense.selector.fget(self)
