def spec(threshold, adaptations):
    return threshold + torch.sum(adaptations, dim=-1)
