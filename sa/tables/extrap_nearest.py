def spec(sample, sample_at, prev_data, next_data, step_time, **kwargs):
    cond = sample_at > step_time / 2
    return (torch.where(cond, prev_data, sample), torch.where(cond, sample, next_data))
