def spec(data, dim=None, keepdim=False, q=0.5, interpolation='linear', **kwargs):
    return torch.nanquantile(data, q, dim, keepdim=keepdim, interpolation=interpolation)
