def spec(self, selector):
    return _synparam_at(self.current_, selector, self.__interp, self.__interp_kwargs, self.__tolerance, self.__spike_overbound, lambda d, m=self: m.__to_spike(m, m.spike_.dtype, m.spike_.device, d)).to(dtype=self.spike_.dtype, device=self.spike_.device)
