def spec(self, obs, state):
    self._count += 1
    if state is None:
        return obs.to(dtype=self.data.dtype)
    else:
        return state + (obs.to(dtype=state.dtype) - state) / self._count
