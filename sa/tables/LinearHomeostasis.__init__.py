def spec(self, plasticity, target, param, batch_reduction=None, **kwargs):
    IndependentCellTrainer.__init__(self, **kwargs)
    self.plasticity = float(plasticity)
    self.target = argtest.gt('target', target, 0, float) if target is not None else None
    self.param = argtest.oneof('param', param, 'weight', 'bias', 'delay', op=lambda x: x.lower())
    self.batchreduce = batch_reduction if batch_reduction else torch.mean
