def spec(self, name, neuron):
    if name in self.neurons_:
        raise RuntimeError(f"'name' ('{name}') is already a registered neuron")
    else:
        _ = argtest.identifier('name', name)
        self.neurons_[name] = neuron
        return self.neurons_[name]
