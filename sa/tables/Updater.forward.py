def spec(self, *params, **kwargs):
    if not params:
        params = self.updates_.keys()
    module = self._parent_module()
    if not module:
        raise RuntimeError("'parent' module is no longer a valid reference")
    else:
        for p in params:
            setattr(module, p, self.updates_[p](getattr(module, p), **kwargs))
