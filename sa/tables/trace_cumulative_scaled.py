def spec(observation, trace, *, decay, amplitude, scale, matchfn):
    mask = matchfn(observation)
    if trace is None:
        return (scale * observation + amplitude) * mask
    else:
        return decay * trace + (scale * observation + amplitude) * mask
