def spec(observation, trace, *, decay, amplitude, target, tolerance=None):
    if tolerance is None:
        mask = observation == target
    else:
        mask = torch.abs(observation - target) <= tolerance
    if trace is None:
        return amplitude * mask.to(dtype=observation.dtype)
    else:
        return decay * trace + amplitude * mask.to(dtype=trace.dtype)
