def spec(self, param, **kwargs):
    update = self.update(param, **kwargs)
    if update is not None:
        return param + update
    else:
        return param
