@classmethod
def spec(cls, loc, scale, generator=None):
    return torch.exp(Normal.sample(loc, scale, generator=generator))
