def spec(self):
    return self.refrac == getattr(self, self.__absrefrac_attr)
