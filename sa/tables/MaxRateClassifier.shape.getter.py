@property
def spec(self):
    return tuple(self.assignments.shape)
