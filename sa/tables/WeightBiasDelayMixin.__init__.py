def spec(self, weight, bias, delay, requires_grad=False):
    WeightBiasMixin.__init__(self, weight, bias, requires_grad)
    if delay is not None:
        self.register_parameter('delay_', nn.Parameter(delay, requires_grad))
