def spec(self, shape, batch_size):
    ShapeMixin.__init__(self, shape)
    BatchMixin.__init__(self, batch_size)
