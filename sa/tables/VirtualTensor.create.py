@classmethod
def spec(cls, owner, name, materializer, dtype=None, device=None, persist=False):
    virtual = cls(owner, name, materializer, dtype=dtype, device=device, persist=persist)
    setattr(virtual.owner, virtual.name, virtual)
