def spec(self, weight, requires_grad=False):
    _ = argtest.instance('self', self, nn.Module)
    self.register_parameter('weight_', nn.Parameter(weight, requires_grad))
