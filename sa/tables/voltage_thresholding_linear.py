def spec(inputs, refracs, dynamics, voltages=None, *, step_time, rest_v, v_slope, v_intercept, thresh_v, refrac_t):
    refracs = (refracs - step_time).clamp(min=0)
    mask = refracs == 0
    if voltages is None:
        voltages = dynamics(inputs * mask)
    else:
        voltages = voltages.where(~mask, dynamics(inputs * mask))
    spikes = torch.logical_and(mask, voltages >= thresh_v)
    refracs = refracs.where(~spikes, refrac_t)
    voltages = voltages.where(~spikes, rest_v + v_slope * (voltages - rest_v) - v_intercept)
    return (spikes, voltages, refracs)
