def spec(current, adaptations):
    return current - torch.sum(adaptations, dim=-1)
