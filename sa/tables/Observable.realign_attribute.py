def spec(self, attr):
    args, kwargs = self.local_remap(attr)
    if not self.__basis_realign():
        raise RuntimeError("observable's basis is no longer in memory")
    else:
        return self.__basis_realign()(*self.__realign_args, *args, **self.__realign_kwargs, **kwargs)
