def spec(self, data):
    return ein.rearrange(data, 'b f oh ow -> b f 1 1 1 (oh ow)')
