def spec(self, lr_neg, lr_pos, tc_neg, tc_pos, interp_tolerance=0.0, batch_reduction=None, inplace=False, **kwargs):
    IndependentCellTrainer.__init__(self, **kwargs)
    self.lr_neg = float(lr_neg)
    self.lr_pos = float(lr_pos)
    self.tc_neg = argtest.gt('tc_neg', tc_neg, 0, float)
    self.tc_pos = argtest.gt('tc_pos', tc_pos, 0, float)
    self.tolerance = argtest.gte('interp_tolerance', interp_tolerance, 0, float)
    self.batchreduce = batch_reduction if batch_reduction else torch.mean
    self.inplace = bool(inplace)
