@property
def spec(self):
    return self._ignore(self.__data)
