@frequency.setter
def spec(self, value):
    if self.__compensate_freq:
        _ = argtest.lt('frequency * refrac', value * self.refrac, 1000, float)
    self.__frequency_scale = argtest.gte('frequency', value, 0, float)
