def spec(self, name, cell, /, **kwargs):
    cell, state = self.add_cell(name, cell, self._build_cell_state(**kwargs), ['weight'])
    delayed = state.delayed and cell.connection.delayedby is not None
    monitor_kwargs = {'as_prehook': False, 'train_update': True, 'eval_update': False, 'prepend': True}
    self.add_monitor(name, 'trace_post', 'neuron.spike', StateMonitor.partialconstructor(reducer=state.tracecls(cell.connection.dt, state.tc_post, amplitude=abs(state.lr_pre), target=True, duration=0.0, inclusive=True), **monitor_kwargs), False, dt=cell.connection.dt, amp=abs(state.lr_pre), tc=state.tc_post, trace=state.tracemode)
    self.add_monitor(name, 'spike_post', 'neuron.spike', StateMonitor.partialconstructor(reducer=PassthroughReducer(cell.connection.dt, duration=0.0, inclusive=True), **monitor_kwargs), False, dt=cell.connection.dt)
    self.add_monitor(name, 'trace_pre', 'synapse.spike' if delayed else 'connection.synspike', StateMonitor.partialconstructor(reducer=state.tracecls(cell.connection.dt, state.tc_pre, amplitude=abs(state.lr_post), target=True, duration=cell.connection.delayedby if delayed else 0.0, inclusive=True), **monitor_kwargs), False, dt=cell.connection.dt, amp=abs(state.lr_post), tc=state.tc_pre, trace=state.tracemode, delayed=delayed)
    self.add_monitor(name, 'spike_pre', 'synapse.spike' if delayed else 'connection.synspike', StateMonitor.partialconstructor(reducer=PassthroughReducer(cell.connection.dt, duration=cell.connection.delayedby if delayed else 0.0, inclusive=True), **monitor_kwargs), False, dt=cell.connection.dt, delayed=delayed)
    return self.get_unit(name)
