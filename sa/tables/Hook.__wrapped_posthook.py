def spec(self, module, *args, **kwargs):
    if self.trainexec and module.training:
        return self._posthook_call(module, *args, **kwargs)
    if self.evalexec and (not module.training):
        return self._posthook_call(module, *args, **kwargs)
