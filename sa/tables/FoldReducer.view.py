def spec(self, time, tolerance=1e-07):
    if not self._initial:
        return self.data_.select(time, self.interpolate, tolerance=tolerance)
