def spec(self, name):
    return self.Unit(getitem(self.cells_, name), getitem(self.aux_states_, name, None), dict(self.monitor_pool_.named_monitors_of(name)))
