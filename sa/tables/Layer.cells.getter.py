@property
def spec(self):
    return Proxy(self.cells_, '', '')
