def spec(self, step_time, duration=0.0, inclusive=False, inplace=False):
    FoldReducer.__init__(self, step_time, duration, inclusive, inplace, 0)
