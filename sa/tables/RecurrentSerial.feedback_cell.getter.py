@property
def spec(self):
    if self.__feedback_connection_name in self.cells_:
        return self.get_cell(self.__feedback_connection_name, self.__feedfwd_neuron_name)
    else:
        return None
