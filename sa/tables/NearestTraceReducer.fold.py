def spec(self, obs, state):
    return trace_nearest(obs.to(dtype=self.data.dtype), state, decay=self.decay, amplitude=self.amplitude, target=self.target, tolerance=self.tolerance)
