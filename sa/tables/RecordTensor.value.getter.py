@property
def spec(self):
    return ShapedTensor.value.fget(self)
