@property
def spec(self):
    return self.connection_
