def spec(self, feedfwd_connection, lateral_connection, feedback_connection, feedfwd_neuron, feedback_neuron, *, feedfwd_out_transform=None, lateral_out_transform=None, feedback_out_transform=None, lateral_in_transform=None, feedback_in_transform=None, feedfwd_connection_name='feedfwd', lateral_connection_name='lateral', feedback_connection_name='feedback', feedfwd_neuron_name='feedfwd', feedback_neuron_name='feedback', trainable_feedback=False):
    Layer.__init__(self)
    self.register_buffer('feedback_spikes', None)
    self.__feedfwd_connection_name = feedfwd_connection_name
    self.__lateral_connection_name = lateral_connection_name
    self.__feedback_connection_name = feedback_connection_name
    self.__feedfwd_neuron_name = feedfwd_neuron_name
    self.__feedback_neuron_name = feedback_neuron_name
    Layer.add_connection(self, self.__feedfwd_connection_name, feedfwd_connection)
    Layer.add_connection(self, self.__lateral_connection_name, lateral_connection)
    Layer.add_connection(self, self.__feedback_connection_name, feedback_connection)
    Layer.add_neuron(self, self.__feedfwd_neuron_name, feedfwd_neuron)
    Layer.add_neuron(self, self.__feedback_neuron_name, feedback_neuron)
    _ = Layer.add_cell(self, self.__feedfwd_connection_name, self.__feedfwd_neuron_name)
    if trainable_feedback:
        _ = Layer.add_cell(self, self.__lateral_connection_name, self.__feedback_neuron_name)
        _ = Layer.add_cell(self, self.__feedback_connection_name, self.__feedfwd_neuron_name)
    self._feedfwd_out_transform = feedfwd_out_transform if feedfwd_out_transform else identity
    self._lateral_out_transform = lateral_out_transform if lateral_out_transform else identity
    self._feedback_out_transform = feedback_out_transform if feedback_out_transform else identity
    self._lateral_in_transform = lateral_in_transform if lateral_in_transform else tuplewrap
    self._feedback_in_transform = feedback_in_transform if feedback_in_transform else tuplewrap
