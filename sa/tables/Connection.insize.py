def spec(self):
    return math.prod(self.inshape)
