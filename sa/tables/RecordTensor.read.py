def spec(self, offset=1):
    data, ptr, recordsz = (self.__data, self.__pointer, self.__recordsz)
    if self._ignore(data):
        raise RuntimeError('cannot read from uninitialized storage')
    else:
        return data[_unwind_ptr(ptr, offset, recordsz), ...]
