def spec(observation, trace, *, step_time, rate_constant, amplitude, target, tolerance=None):
    return trace_nearest(observation, trace, decay=math.exp(-rate_constant * step_time), amplitude=amplitude, target=target, tolerance=tolerance)
