def spec(self, selector):
    return _synparam_at(self.pos_current_, selector, interp_expdecay, {'time_constant': self.tc_decay}, self.__tolerance, self.__current_overbound, None)
