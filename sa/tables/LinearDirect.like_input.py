def spec(self, data):
    return data.view(-1, *self.inshape)
