def spec(self, obs, state):
    return obs
