def spec(adaptations, spikes, *, step_time, time_constant, spike_increment, refracs=None):
    decayed = adaptations * exp(-step_time / time_constant)
    if refracs is None:
        adaptations = decayed
    else:
        adaptations = adaptations.where(refracs.unsqueeze(-1) > 0, decayed)
    adaptations = adaptations + spike_increment * spikes.unsqueeze(-1)
    return adaptations
