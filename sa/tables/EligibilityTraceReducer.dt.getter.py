@property
def spec(self):
    return FoldReducer.dt.fget(self)
