def spec(self, step_time, alpha, duration=0.0, inclusive=False, inplace=False):
    FoldReducer.__init__(self, step_time, duration, inclusive, inplace, 0)
    self.alpha = argtest.minmax_incl('alpha', alpha, 0, 1, float)
