@property
def spec(self):
    if self.delayedby:
        return self.synapse.spike_at(self.selector)
    else:
        return self.synapse.spike
