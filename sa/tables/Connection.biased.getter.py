@property
def spec(self):
    return self.bias is not None
