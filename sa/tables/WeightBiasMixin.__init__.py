def spec(self, weight, bias, requires_grad=False):
    WeightMixin.__init__(self, weight, requires_grad)
    if bias is not None:
        self.register_parameter('bias_', nn.Parameter(bias, requires_grad))
