@classmethod
def spec(cls, loc, scale, generator=None):
    loc, scale = _astensorsfloat(loc, scale)
    return torch.normal(loc, scale, generator=generator)
