def spec(self, module, *args, **kwargs):
    self.hook(module)
