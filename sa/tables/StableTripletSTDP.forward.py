def spec(self):
    for cell, state, monitors in self:
        if not cell.training or not self.training or (not cell.updater):
            continue
        y_a = cell.connection.postsyn_receptive(monitors['trace_post_fast'].peek())
        x_a = cell.connection.presyn_receptive(monitors['trace_pre_fast'].view(cell.connection.selector, state.tolerance) if state.delayed and cell.connection.delayedby else monitors['trace_pre_fast'].peek())
        y_b = monitors['trace_post_slow'].reducer.data_.read(2)
        x_b = monitors['trace_pre_slow'].reducer.data_.select(cell.connection.selector, monitors['trace_pre_slow'].reducer.interpolate, tolerance=state.tolerance, offset=2) if state.delayed and cell.connection.delayedby else monitors['trace_pre_slow'].reducer.data_.read(2)
        y = monitors['spike_post'].peek()
        x = monitors['spike_pre'].view(cell.connection.selector, state.tolerance) if state.delayed and cell.connection.delayedby else monitors['spike_pre'].peek()
        y = cell.connection.postsyn_receptive((abs(state.lr_post_pair) + state.lr_post_triplet * y_b) * y)
        x = cell.connection.presyn_receptive((abs(state.lr_pre_pair) + state.lr_pre_triplet * x_b) * x)
        dpost = state.batchreduce(ein.einsum(y, x_a, 'b ... r, b ... r -> b ...'), 0)
        dpre = state.batchreduce(ein.einsum(x, y_a, 'b ... r, b ... r -> b ...'), 0)
        match (state.lr_post_pair >= 0, state.lr_pre_pair >= 0):
            case [False, False]:
                cell.updater.weight = (None, dpost + dpre)
            case [False, True]:
                cell.updater.weight = (dpre, dpost)
            case [True, False]:
                cell.updater.weight = (dpost, dpre)
            case [True, True]:
                cell.updater.weight = (dpost + dpre, None)
