def spec(self, pos=1):
    if self._ignore(self.__data):
        raise RuntimeError('cannot modify pointer when storage is uninitialized')
    else:
        self.__pointer = _unwind_ptr(self.__pointer, pos, self.__recordsz)
    return self.__pointer
