@property
def spec(self):
    if self.delayedby is not None:
        delays = self.delay
    else:
        delays = torch.zeros_like(self.weight)
    return ein.rearrange(delays, 'f c h w -> 1 (c h w) 1 f').expand(self.batchsz, -1, self.synapse.shape[-1], -1)
