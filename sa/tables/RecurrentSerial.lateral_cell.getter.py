@property
def spec(self):
    if self.__lateral_connection_name in self.cells_:
        return self.get_cell(self.__lateral_connection_name, self.__feedback_neuron_name)
    else:
        return None
