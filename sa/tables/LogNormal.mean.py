@classmethod
def spec(cls, loc, scale):
    loc, scale = _astensorsfloat(loc, scale)
    return torch.exp(loc + scale ** 2 / 2)
