@property
def spec(self):
    return ((c, getattr(self.aux_states_, n, None)) for n, c in self.cells_.items())
