def spec(self, *inputs, **kwargs):
    self.spike = inputs[0].bool()
    return self.current
