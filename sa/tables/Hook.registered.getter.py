@property
def spec(self):
    return self.__prehook_handle is not None or self.__posthook_handle is not None
