def spec(self, *args, **kwargs):
    self.__ref = self.__ref.to(*args, **kwargs)
