@classmethod
def spec(cls, support, rate):
    return torch.exp(Poisson.logpmf(support, rate))
