def spec(self, data):
    return ein.rearrange(data, 'b (c kh kw) l ... -> b (...) c kh kw l', c=self.channels, kh=self.kernel[0], kw=self.kernel[1])
