def spec(self, currents, spikes, current_interp, current_interp_kwargs, spike_interp, spike_interp_kwargs, current_overbound, spike_overbound, tolerance):
    CurrentMixin.__init__(self, currents, current_interp, current_interp_kwargs, current_overbound, tolerance)
    SpikeMixin.__init__(self, spikes, spike_interp, spike_interp_kwargs, spike_overbound, tolerance)
