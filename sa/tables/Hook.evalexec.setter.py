@evalexec.setter
def spec(self, value):
    self.__call_eval = value
