def spec(self, steps, step_time, frequency, *, generator=None):
    Module.__init__(self)
    self.__frequency_scale = argtest.gte('frequency', frequency, 0, float)
    StepMixin.__init__(self, steps=steps, step_time=step_time)
    GeneratorMixin.__init__(self, generator=generator)
