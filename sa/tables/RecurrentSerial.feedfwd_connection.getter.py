@property
def spec(self):
    return self.get_connection(self.__feedfwd_connection_name)
