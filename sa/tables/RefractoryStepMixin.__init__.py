def spec(self, steps, step_time, refrac):
    StepMixin.__init__(self, steps, step_time)
    if refrac is None:
        self.__derive_refrac = True
        self.__refrac_time = self.dt
    else:
        self.__derive_refrac = False
        self.__refrac_time = argtest.gte('refrac', refrac, 0, float)
