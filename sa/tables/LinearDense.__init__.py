def spec(self, in_shape, out_shape, step_time, *, synapse, bias=False, delay=None, batch_size=1, weight_init=None, bias_init=None, delay_init=None):
    try:
        self.in_shape = argtest.ofsequence('in_shape', in_shape, argtest.gt, 0, int)
    except TypeError:
        self.in_shape = (argtest.gt('in_shape', in_shape, 0, int),)
    try:
        self.out_shape = argtest.ofsequence('out_shape', out_shape, argtest.gt, 0, int)
    except TypeError:
        self.out_shape = (argtest.gt('out_shape', out_shape, 0, int),)
    in_size, out_size = (math.prod(self.in_shape), math.prod(self.out_shape))
    Connection.__init__(self, synapse=synapse(in_size, step_time, 0.0 if delay is None else delay, batch_size))
    WeightBiasDelayMixin.__init__(self, weight=torch.rand(out_size, in_size), bias=None if not bias else torch.rand(out_size), delay=None if delay is None else torch.zeros(out_size, in_size), requires_grad=False)
    if weight_init:
        self.weight = weight_init(self.weight)
    if bias_init and self.biased:
        self.bias = bias_init(self.bias)
    if delay_init and self.delayedby is not None:
        self.delay = delay_init(self.delay)
