def spec(param, update, limit, **kwargs):
    diff = limit - param
    return torch.heaviside(diff, zeros(diff, shape=())) * update
