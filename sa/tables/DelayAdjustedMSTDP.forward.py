def spec(self, signal, scale=1.0, cells=None):
    for name, (cell, state, monitors) in zip(self.cells_, self):
        if cells is not None and name not in cells:
            continue
        if not cell.training or not self.training or (not cell.updater):
            continue
        t_post = cell.connection.postsyn_receptive(monitors['spike_post'].peek())
        t_pre = cell.connection.presyn_receptive(monitors['spike_pre'].peek())
        t_delta = t_pre - t_post - cell.connection.delay.unsqueeze(-1)
        t_delta_abs = t_delta.abs()
        dpost = torch.nansum(torch.exp(t_delta_abs / -state.tc_pos) * (abs(state.lr_pos) * (t_delta >= 0).to(dtype=t_delta_abs.dtype)), -1)
        dpre = torch.nansum(torch.exp(t_delta_abs / -state.tc_neg) * (abs(state.lr_neg) * (t_delta < 0).to(dtype=t_delta_abs.dtype)), -1)
        if isinstance(signal, torch.Tensor):
            scaledsignal = (signal * scale).abs().view(-1, *repeat(1, dpost.ndim - 1))
            signal_pos = torch.argwhere(signal >= 0).view(-1)
            signal_neg = torch.argwhere(signal < 0).view(-1)
            dpost = dpost * scaledsignal
            dpre = dpre * scaledsignal
            dpost_reg, dpost_inv = (dpost[signal_pos], dpost[signal_neg])
            dpre_reg, dpre_inv = (dpre[signal_pos], dpre[signal_neg])
            match (state.lr_pos >= 0, state.lr_neg >= 0):
                case [False, False]:
                    dpos = torch.cat((dpost_inv, dpre_inv), 0)
                    dneg = torch.cat((dpost_reg, dpre_reg), 0)
                case [False, True]:
                    dpos = torch.cat((dpost_inv, dpre_reg), 0)
                    dneg = torch.cat((dpost_reg, dpre_inv), 0)
                case [True, False]:
                    dpos = torch.cat((dpost_reg, dpre_inv), 0)
                    dneg = torch.cat((dpost_inv, dpre_reg), 0)
                case [True, True]:
                    dpos = torch.cat((dpost_reg, dpre_reg), 0)
                    dneg = torch.cat((dpost_inv, dpre_inv), 0)
            cell.updater.weight = (state.batchreduce(dpos, 0) if dpos.numel() else None, state.batchreduce(dneg, 0) if dneg.numel() else None)
        else:
            dpost = state.batchreduce(dpost, 0) * abs(signal * scale)
            dpre = state.batchreduce(dpre, 0) * abs(signal * scale)
            match (state.lr_pos * signal >= 0, state.lr_neg * signal >= 0):
                case [False, False]:
                    cell.updater.weight = (None, dpost + dpre)
                case [False, True]:
                    cell.updater.weight = (dpre, dpost)
                case [True, False]:
                    cell.updater.weight = (dpost, dpre)
                case [True, True]:
                    cell.updater.weight = (dpost + dpre, None)
