@dt.setter
def spec(self, value):
    StepMixin.dt.fset(self, value)
    if self.__derive_refrac:
        self.__refrac_time = StepMixin.dt.fget(self)
