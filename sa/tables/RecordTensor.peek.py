def spec(self):
    if self._ignore(self.__data):
        return None
    else:
        return self.read(1)
