def spec(self, **kwargs):
    del self.pos
    del self.neg
