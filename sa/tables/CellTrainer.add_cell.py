def spec(self, name, cell, state=None, params=None):
    if name in self.cells_:
        raise ValueError(f"'name' ('{name}') is already the name of an added cell")
    if not cell.updater:
        raise RuntimeError("'cell' is not updatable, add an updater to 'cell.connection'")
    if params:
        for p in params:
            if not hasattr(cell.updater, p):
                raise RuntimeError(f"'cell' does not contain required parameter '{p}'")
    self.monitor_pool_.del_observed(name)
    if name in self.aux_states_:
        del self.aux_states_[name]
    self.cells_[name] = cell
    self.monitor_pool_.add_observed(name, cell)
    if state is not None:
        self.aux_states_[name] = state
    return (getitem(self.cells_, name), getitem(self.aux_states_, name, None))
