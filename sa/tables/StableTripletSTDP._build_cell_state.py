def spec(self, **kwargs):
    state = Module()
    lr_post_pair = kwargs.get('lr_post_pair', self.lr_post_pair)
    lr_post_triplet = kwargs.get('lr_post_triplet', self.lr_post_triplet)
    lr_pre_pair = kwargs.get('lr_pre_pair', self.lr_pre_pair)
    lr_pre_triplet = kwargs.get('lr_pre_triplet', self.lr_pre_triplet)
    tc_post_fast = kwargs.get('tc_post_fast', self.tc_post_fast)
    tc_post_slow = kwargs.get('tc_post_slow', self.tc_post_slow)
    tc_pre_fast = kwargs.get('tc_pre_fast', self.tc_pre_fast)
    tc_pre_slow = kwargs.get('tc_pre_slow', self.tc_pre_slow)
    delayed = kwargs.get('delayed', self.delayed)
    interp_tolerance = kwargs.get('interp_tolerance', self.tolerance)
    trace_mode = kwargs.get('trace_mode', self.trace)
    batch_reduction = kwargs.get('batch_reduction', self.batchreduce)
    inplace = kwargs.get('inplace', self.inplace)
    state.lr_post_pair = argtest.neq('lr_post_pair', lr_post_pair, 0, float)
    state.lr_post_triplet = abs(float(lr_post_triplet))
    state.lr_pre_pair = argtest.neq('lr_pre_pair', lr_pre_pair, 0, float)
    state.lr_pre_triplet = abs(float(lr_pre_triplet))
    state.tc_post_fast = argtest.gt('tc_post_fast', tc_post_fast, 0, float)
    state.tc_post_slow = argtest.gt('tc_post_slow', tc_post_slow, tc_post_fast, float, 'tc_post_fast')
    state.tc_pre_fast = argtest.gt('tc_pre_fast', tc_pre_fast, 0, float)
    state.tc_pre_slow = argtest.gt('tc_pre_slow', tc_pre_slow, tc_pre_fast, float, 'tc_pre_fast')
    state.delayed = bool(delayed)
    state.tolerance = argtest.gte('interp_tolerance', interp_tolerance, 0, float)
    state.tracemode = argtest.oneof('trace_mode', trace_mode, 'cumulative', 'nearest', op=lambda x: x.lower())
    match state.tracemode:
        case 'cumulative':
            state.tracecls = CumulativeTraceReducer
        case 'nearest':
            state.tracecls = NearestTraceReducer
        case '_':
            raise RuntimeError(f"an invalid trace mode of '{state.tracemode}' has been set, expected one of: 'cumulative', 'nearest'")
    state.batchreduce = batch_reduction if batch_reduction is not None else torch.mean
    state.inplace = bool(inplace)
    return state
