@property
def spec(self):
    return self.__refrac_time
