@weight.setter
def spec(self, value):
    self.weight_.data = value
