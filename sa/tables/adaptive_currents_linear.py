def spec(adaptations, voltages, spikes, *, step_time, rest_v, time_constant, voltage_coupling, spike_increment, refracs=None):
    euler_step = step_time / time_constant * (voltage_coupling * (voltages - rest_v).unsqueeze(-1) - adaptations)
    if refracs is None:
        adaptations = adaptations + euler_step
    else:
        adaptations = adaptations.where(refracs.unsqueeze(-1) > 0, adaptations + euler_step)
    adaptations = adaptations + spike_increment * spikes.unsqueeze(-1)
    return adaptations
