def spec(self):
    for name in self.cells_:
        yield (getitem(self.cells_, name), getitem(self.aux_states_, name, None), dict(self.monitor_pool_.named_monitors_of(name)))
