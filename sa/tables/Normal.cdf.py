@classmethod
def spec(cls, support, loc, scale):
    support, loc, scale = _astensorsfloat(support, loc, scale)
    return 0.5 * (1 + torch.special.erf((support - loc) / (scale * math.sqrt(2))))
