@classmethod
def spec(cls, scale):
    scale = _astensorsfloat(scale)
    return scale ** 2
