def spec(self, *inputs, **kwargs):
    self.spike = inputs[0].bool()
    self.current = self.current * math.exp(-self.dt / self.time_constant) + self.spike_charge / self.time_constant * inputs[0]
    return self.current
