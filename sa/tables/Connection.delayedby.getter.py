@property
def spec(self):
    if self.delay is not None:
        return self.synapse.delay
