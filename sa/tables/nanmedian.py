def spec(data, dim=None, keepdim=False, **kwargs):
    return torch.nanquantile(data, 0.5, dim, keepdim=keepdim, interpolation='midpoint')
