@property
def spec(self):
    data = self.__data
    if self._ignore(data):
        return None
    else:
        assert data is not None
        return (*data.shape[1:],)
