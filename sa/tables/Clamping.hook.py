def spec(self, module):
    rsetattr(module, self.attribute, torch.clamp(rgetattr(self.module, self.attribute), min=self.clampmin, max=self.clampmax))
