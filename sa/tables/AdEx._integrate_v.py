def spec(self, masked_inputs):
    return nf.voltage_integration_exponential(masked_inputs, self.voltage, step_time=self.step_time, rest_v=self.rest_v, rheobase_v=self.rheobase_v, sharpness=self.sharpness, time_constant=self.tc_membrane, resistance=self.resistance)
