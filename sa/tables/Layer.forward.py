def spec(self, inputs, connection_kwargs=None, neuron_kwargs=None, capture_intermediate=False, **kwargs):
    ckw = connection_kwargs if connection_kwargs else {}
    nkw = neuron_kwargs if neuron_kwargs else {}
    res = {k: self.connections_[k](*v, **ckw.get(k, {})) for k, v in inputs.items()}
    if capture_intermediate:
        outputs = self.wiring(res, **kwargs)
        outputs = {k: self.neurons_[k](v, **nkw.get(k, {})) for k, v in outputs.items()}
        return (outputs, res)
    else:
        res = self.wiring(res, **kwargs)
        res = {k: self.neurons_[k](v, **nkw.get(k, {})) for k, v in res.items()}
        return res
