def spec(self, layer, connection, neuron, names):
    Module.__init__(self)
    Observable.__init__(self, layer, '_realign_attribute', names, None)
    if connection.outshape != neuron.shape:
        raise RuntimeError(f'connection output shape {connection.outshape} is incompatible with neuron shape {neuron.shape}')
    self.connection_ = connection
    self.neuron_ = neuron
