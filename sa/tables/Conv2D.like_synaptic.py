def spec(self, data):
    if torch.is_floating_point(data):
        return F.unfold(data, self.kernel, dilation=self.dilation, padding=self.padding, stride=self.stride)
    else:
        return F.unfold(data.to(dtype=self.weight.dtype), self.kernel, dilation=self.dilation, padding=self.padding, stride=self.stride).to(dtype=data.dtype)
