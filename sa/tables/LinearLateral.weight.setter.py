@weight.setter
def spec(self, value):
    WeightBiasDelayMixin.weight.fset(self, value * self.mask)
