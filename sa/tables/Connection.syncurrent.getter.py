@property
def spec(self):
    if self.delayedby:
        return self.synapse.current_at(self.selector)
    else:
        return self.synapse.current
