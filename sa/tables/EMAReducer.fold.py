def spec(self, obs, state):
    return exponential_smoothing(obs, state, alpha=self.alpha)
