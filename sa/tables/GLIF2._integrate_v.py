def spec(self, masked_inputs):
    return nf.voltage_integration_linear(masked_inputs, self.voltage, step_time=self.step_time, time_constant=self.tc_membrane, rest_v=self.rest_v, resistance=self.resistance)
