def spec(self, name):
    if name in self.observed_:
        return self.observed_[name]
    else:
        raise KeyError(f"'name' ('{name}') is not a registered observable")
