def spec(self, connection, neuron):
    if connection not in self.connections_:
        raise AttributeError(f"'connection' ('{connection}') is not a registered connection")
    if neuron not in self.neurons_:
        raise AttributeError(f"'neuron' ('{neuron}') is not a registered neuron")
    if connection in self.cells_:
        if neuron in self.cells_[connection]:
            del self.cells_[connection][neuron]
        if not len(self.cells_[connection]):
            del self.cells_[connection]
