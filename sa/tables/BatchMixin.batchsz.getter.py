@property
def spec(self):
    return self.__batch_size
