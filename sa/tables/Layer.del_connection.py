def spec(self, name):
    if name not in self.connections_:
        raise AttributeError(f"'name' ('{name}') is not a registered connection")
    else:
        del self.connections_[name]
        if name in self.cells_:
            del self.cells_[name]
