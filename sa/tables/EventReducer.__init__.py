def spec(self, step_time, criterion, initial='inf', duration=0.0, inclusive=False, inplace=False):
    initial = argtest.oneof('initial', initial, 'inf', 'zero', 'nan', op=lambda x: x.lower())
    if initial == 'zero':
        initial = 0.0
    else:
        initial = float(initial)
    FoldReducer.__init__(self, step_time, duration, inclusive, inplace, initial)
    self.__initial_value = initial
    self.criterion = criterion
