def spec(masked_inputs, voltages, *, step_time, rest_v, crit_v, affinity, time_constant, resistance):
    dyn_v = affinity * (voltages - rest_v) * (voltages - crit_v)
    decay = step_time / time_constant
    return voltages + decay * (dyn_v + resistance * masked_inputs)
