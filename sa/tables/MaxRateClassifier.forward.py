def spec(self, inputs, labels, logits=False, proportional=True):
    if inputs.ndim == self.ndim + 2:
        inputs = inputs.to(dtype=self.rates.dtype).mean(dim=0, keepdim=False)
    if logits is None:
        res = None
    elif not logits:
        res = self.classify(inputs, proportional)
    else:
        res = self.regress(inputs, proportional)
        res = (torch.argmax(res, dim=1), res)
    if labels is not None:
        self.update(inputs, labels)
    return res
