def spec(self, *args, **kwargs):
    return self.reducer_.dump(*args, **kwargs)
