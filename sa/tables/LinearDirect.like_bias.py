def spec(self, data):
    return ein.rearrange(data, 'n -> n')
