def spec(self, observed):
    return ((n, m) for n, m in getitem(self.monitors_, observed, {}).items())
