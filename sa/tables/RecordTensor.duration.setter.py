@duration.setter
def spec(self, value):
    value = argtest.gte('duration', value, 0, float)
    setattr(self.__owner(), self.__attributes.duration, value)
    size = max(math.ceil(self.__duration / self.__dt) + self.__inclusive, 1)
    if size != self.__recordsz:
        with torch.no_grad():
            if not self._ignore(self.__data):
                self.align(0)
            _ = ShapedTensor.reconstrain(self, 0, size)
