def spec(self, attr):
    if attr:
        _ = argtest.nestedidentifier('attr', attr)
    attrchain = attr.split('.')
    if attr and (not hasattr(self, attrchain[0])):
        raise RuntimeError(f"cell does not have an attribute '{attrchain[0]}'")
    attrchain[0] = {'connection_': 'connection', 'neuron_': 'neuron'}.get(attrchain[0], attrchain[0])
    attrsub = {'updater': ['connection', 'updater'], 'synapse': ['connection', 'synapse'], 'precurrent': ['connection', 'syncurrent'], 'prespike': ['connection', 'synspike'], 'postvoltage': ['neuron', 'voltage'], 'postspike': ['neuron', 'spike']}.get(attrchain[0], [attrchain[0]])
    attrchain = attrsub + attrchain[1:]
    match attrchain[0]:
        case 'connection':
            return (('connection', '.'.join(attrchain[1:])), {})
        case 'neuron':
            return (('neuron', '.'.join(attrchain[1:])), {})
        case _:
            return (('cell', '.'.join(attrchain)), {})
