def spec(self, shape, step_time, *, rest_v, reset_v_add, reset_v_mul, thresh_eq_v, refrac_t, tc_membrane, rc_adaptation, spike_increment, resistance=1.0, batch_size=1, batch_reduction=None):
    InfernoNeuron.__init__(self, shape, batch_size)
    if not hasattr(rc_adaptation, '__iter__'):
        rc_adaptation = (rc_adaptation,)
    if not hasattr(spike_increment, '__iter__'):
        spike_increment = (spike_increment,)
    rc_list, si_list = ([], [])
    for idx, (rc, si) in enumerate(zip_longest(rc_adaptation, spike_increment)):
        if rc is None:
            rc_list.append(rc_list[-1])
        else:
            rc_list.append(argtest.gt(f'rc_adaptation[{idx}]', rc, 0, float))
        if si_list is None:
            si_list.append(si_list[-1])
        else:
            si_list.append(float(si))
    self.register_buffer('rc_adaptation', torch.tensor(rc_list), persistent=False)
    self.register_buffer('adapt_increment', torch.tensor(si_list), persistent=False)
    self.step_time = argtest.gt('step_time', step_time, 0, float)
    self.rest_v = argtest.lt('rest_v', rest_v, thresh_eq_v, float, 'thresh_eq_v')
    self.reset_v_add = float(reset_v_add)
    self.reset_v_mul = float(reset_v_mul)
    self.thresh_eq_v = float(thresh_eq_v)
    self.refrac_t = argtest.gte('refrac_t', refrac_t, 0, float)
    self.tc_membrane = argtest.gt('tc_membrane', tc_membrane, 0, float)
    self.resistance = argtest.neq('resistance', resistance, 0, float)
    VoltageMixin.__init__(self, torch.full(self.batchedshape, self.rest_v))
    SpikeRefractoryMixin.__init__(self, torch.zeros(self.batchedshape), 'refrac_t')
    AdaptiveThresholdMixin.__init__(self, torch.zeros(*self.shape, self.rc_adaptation.numel()), batch_reduction)
