@neg.setter
def spec(self, value):
    if value is not None:
        self._neg.append(value)
        self._neg_cache.cache_clear()
