def spec(observation, trace, *, step_time, time_constant, amplitude, target, tolerance=None):
    return trace_nearest(observation, trace, decay=math.exp(-step_time / time_constant), amplitude=amplitude, target=target, tolerance=tolerance)
