@dt.setter
def spec(self, value):
    FoldReducer.dt.fset(self, value)
    self.decay = exp(-self.dt / self.time_constant)
