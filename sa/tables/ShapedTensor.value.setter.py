@value.setter
def spec(self, value):
    if isinstance(self.__data, nn.Parameter) and value is None:
        raise RuntimeError('cannot assign None to a constrained parameter')
    if self.__live:
        if self._ignore_or_compatible(value, self.__constraints, self.__strict):
            self.__data = value
        else:
            assert value is not None
            raise ValueError(f'cannot set a tensor with shape {tuple(value.shape)} with constraints: {tuple(self.__constraints.items())}')
    else:
        self.__data = value
