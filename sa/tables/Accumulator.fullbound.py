def spec(self, bound, max=None, min=None, /, **kwargs):
    if bound:
        self.bind = lambda x, p, n, ub=max, lb=min, k=kwargs: bound(x, p, n, ub, lb, **k)
    else:
        self.bind = lambda x, p, n: p - n
