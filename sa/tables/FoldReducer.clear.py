def spec(self, keepshape=False, **kwargs):
    if keepshape:
        self.data_.reset(self.__fill)
    else:
        self.data_.deinitialize(False)
    self._initial = True
