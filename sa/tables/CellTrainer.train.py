def spec(self, mode=True):
    Module.train(self, mode)
    if mode:
        for monitor in self.monitor_pool_.monitors:
            monitor.register()
    else:
        for monitor in self.monitor_pool_.monitors:
            monitor.deregister()
    return self
