@delay.setter
def spec(self, value):
    WeightBiasDelayMixin.delay.fset(self, value * self.mask)
