@compensated.setter
def spec(self, value):
    if value:
        _ = argtest.lt('frequency * refrac', self.__frequency_scale * self.refrac, 1000, float)
    self.__compensate_freq = bool(value)
