@classmethod
def spec(cls, support, rate):
    return torch.log(cls.cdf(support, rate))
