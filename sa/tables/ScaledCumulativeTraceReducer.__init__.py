def spec(self, step_time, time_constant, amplitude, scale, criterion, *, duration=0.0, inclusive=False, inplace=False):
    FoldReducer.__init__(self, step_time, duration, inclusive, inplace, 0)
    self.time_constant = argtest.gt('time_constant', time_constant, 0, float)
    self.decay = math.exp(-self.dt / self.time_constant)
    self.amplitude = float(amplitude)
    self.scale = scale
    self.criterion = criterion
