@classmethod
def spec(cls, loc):
    loc = _astensorsfloat(loc)
    return loc
