def spec(masked_inputs, voltages, *, step_time, rest_v, rheobase_v, sharpness, time_constant, resistance):
    expdyn_v = sharpness * torch.exp((voltages - rheobase_v) / sharpness)
    decay = step_time / time_constant
    return voltages + decay * (-(voltages - rest_v) + expdyn_v + resistance * masked_inputs)
