@property
def spec(self):
    ref = self.__ref
    if isinstance(self.__materializer, weakref.WeakMethod):
        return self.__materializer()(ref.dtype, ref.device).to(dtype=ref.dtype, device=ref.device)
    else:
        return self.__materializer(self.__owner(), ref.dtype, ref.device).to(dtype=ref.dtype, device=ref.device)
