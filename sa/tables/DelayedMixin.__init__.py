def spec(self, step_time, delay):
    self.__step_time = argtest.gt('step_time', step_time, 0, float)
    self.__delay = argtest.gte('delay', delay, 0, float)
    self.__constrained = set()
