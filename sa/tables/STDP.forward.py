def spec(self):
    for cell, state, monitors in self:
        if not cell.training or not self.training or (not cell.updater):
            continue
        x_post = cell.connection.postsyn_receptive(monitors['trace_post'].peek())
        x_pre = cell.connection.presyn_receptive(monitors['trace_pre'].view(cell.connection.selector, state.tolerance) if state.delayed and cell.connection.delayedby else monitors['trace_pre'].peek())
        i_post = cell.connection.postsyn_receptive(monitors['spike_post'].peek())
        i_pre = cell.connection.presyn_receptive(monitors['spike_pre'].view(cell.connection.selector, state.tolerance) if state.delayed and cell.connection.delayedby else monitors['spike_pre'].peek())
        dpost = state.batchreduce(ein.einsum(i_post, x_pre, 'b ... r, b ... r -> b ...'), 0)
        dpre = state.batchreduce(ein.einsum(i_pre, x_post, 'b ... r, b ... r -> b ...'), 0)
        match (state.lr_post >= 0, state.lr_pre >= 0):
            case [False, False]:
                cell.updater.weight = (None, dpost + dpre)
            case [False, True]:
                cell.updater.weight = (dpre, dpost)
            case [True, False]:
                cell.updater.weight = (dpost, dpre)
            case [True, True]:
                cell.updater.weight = (dpost + dpre, None)
