def spec(data, dim=None, keepdim=False, **kwargs):
    return torch.amax(data, dim, keepdim=keepdim)
