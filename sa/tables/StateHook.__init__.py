def spec(self, module, train_update=True, eval_update=True, *, as_prehook=False, prepend=False, always_call=False):
    Module.__init__(self)
    self._hooked_module = argtest.instance('module', module, nn.Module)
    ContextualHook.__init__(self, prehook='_StateHook__wrapped_hook' if as_prehook else None, posthook='_StateHook__wrapped_hook' if not as_prehook else None, prehook_kwargs={'prepend': prepend}, posthook_kwargs={'prepend': prepend, 'always_call': always_call}, train_update=train_update, eval_update=eval_update)
