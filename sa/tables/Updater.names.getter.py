@property
def spec(self):
    return tuple((v for v in self.updates_.keys()))
