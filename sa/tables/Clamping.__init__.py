def spec(self, module, attr, min=None, max=None, *, train_update=True, eval_update=True, as_prehook=False, prepend=False, always_call=False):
    self.attribute = argtest.nestedidentifier('attr', attr)
    self.clampmin, self.clampmax = argtest.onedefined(('min', min), ('max', max))
    if min is not None and max is not None:
        _ = argtest.gt('max', max, min, None, limit_name='min')
    StateHook.__init__(self, module, train_update=train_update, eval_update=eval_update, as_prehook=as_prehook, prepend=prepend, always_call=always_call)
