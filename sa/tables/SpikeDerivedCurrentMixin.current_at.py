def spec(self, selector):
    return _synparam_at(self.spike_, selector, self.__interp, self.__interp_kwargs, self.__tolerance, self.__current_overbound, lambda d, m=self: m.__to_current(m, m.current_.dtype, m.current_.device, d)).to(dtype=self.current_.dtype, device=self.current_.device)
