def spec(self, steps, step_time):
    StepTimeMixin.__init__(self, step_time)
    self.__num_steps = argtest.gt('steps', steps, 0, int)
