def spec(data, dim=None, keepdim=False, **kwargs):
    return torch.copysign(torch.amin(data.abs(), dim, keepdim=keepdim), torch.amin(data, dim, keepdim=keepdim))
