def spec(prev_data, next_data, sample_at, step_time, *, time_constant, **kwargs):
    return prev_data * torch.exp(-sample_at / time_constant)
