def spec(self, *attr):
    for a in attr:
        if not hasattr(self, a):
            raise RuntimeError(f"no attribute '{a}' exists")
        elif not isinstance(getattr(self, a), ShapedTensor):
            raise TypeError(f"attribute '{a}' specifies a {type(getattr(self, a).__name__)}, not a ShapedTensor")
        else:
            getattr(self, a).reconstrain(0, self.__batch_size)
            self.__constrained.add(a)
