def spec(self, shape, step_time, *, rest_v, rheobase_v, sharpness, reset_v, thresh_v, refrac_t, tc_membrane, tc_adaptation, voltage_coupling, spike_increment, resistance=1.0, batch_size=1, batch_reduction=None):
    InfernoNeuron.__init__(self, shape, batch_size)
    if not hasattr(tc_adaptation, '__iter__'):
        tc_adaptation = (tc_adaptation,)
    if not hasattr(voltage_coupling, '__iter__'):
        voltage_coupling = (voltage_coupling,)
    if not hasattr(spike_increment, '__iter__'):
        spike_increment = (spike_increment,)
    tc_list, vc_list, si_list = ([], [], [])
    for idx, (tc, vc, si) in enumerate(zip_longest(tc_adaptation, voltage_coupling, spike_increment)):
        if tc is None:
            tc_list.append(tc_list[-1])
        else:
            tc_list.append(argtest.gt(f'tc_adaptation[{idx}]', tc, 0, float))
        if vc_list is None:
            vc_list.append(vc_list[-1])
        else:
            vc_list.append(float(vc))
        if si_list is None:
            si_list.append(si_list[-1])
        else:
            si_list.append(float(si))
    self.register_buffer('tc_adaptation', torch.tensor(tc_list), persistent=False)
    self.register_buffer('adapt_vc_coupling', torch.tensor(vc_list), persistent=False)
    self.register_buffer('adapt_increment', torch.tensor(si_list), persistent=False)
    self.step_time = argtest.gt('step_time', step_time, 0, float)
    self.rest_v = argtest.lt('rest_v', rest_v, rheobase_v, float, 'rheobase_v')
    self.rheobase_v = argtest.lte('rheobase_v', rheobase_v, thresh_v, float, 'thresh_v')
    self.sharpness = argtest.gt('sharpness', sharpness, 0, float)
    self.reset_v = argtest.lt('reset_v', reset_v, thresh_v, float, 'thresh_v')
    self.thresh_v = float(thresh_v)
    self.refrac_t = argtest.gte('refrac_t', refrac_t, 0, float)
    self.tc_membrane = argtest.gt('tc_membrane', tc_membrane, 0, float)
    self.resistance = argtest.neq('resistance', resistance, 0, float)
    VoltageMixin.__init__(self, torch.full(self.batchedshape, self.rest_v))
    SpikeRefractoryMixin.__init__(self, torch.zeros(self.batchedshape), 'refrac_t')
    AdaptiveCurrentMixin.__init__(self, torch.zeros(*self.shape, self.tc_adaptation.numel()), batch_reduction)
