def spec(param, pos, neg, max, min, **kwargs):
    if max is not None:
        pos = bound_upper_scaled_multiplicative(param, pos, max, max - min)
    if min is not None:
        neg = bound_lower_scaled_multiplicative(param, neg, min, max - min)
    return pos - neg
