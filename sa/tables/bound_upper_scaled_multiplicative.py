def spec(param, update, limit, range, **kwargs):
    return (limit - param) / range * update
