def spec(data, order, scale=1.0, dim=None, epsilon=1e-12):
    return scale * F.normalize(data, p=order, dim=dim, eps=epsilon)
