def spec(inputs, steps, step_time, *, refrac=None, compensate=True, generator=None):
    with torch.no_grad():
        refrac = step_time if refrac is None else refrac
        steps, refrac = (int(steps), refrac / step_time)
        inputs = 1 / inputs * (1000.0 / step_time)
        if compensate:
            inputs = inputs - refrac
        intervals = torch.empty_like(inputs).exponential_(1.0, generator=generator) * inputs + refrac
        for _ in range(steps):
            intervals -= 1
            spikes = intervals < 1
            intervals[spikes] = torch.empty_like(intervals[spikes]).exponential_(1.0, generator=generator) * inputs[spikes] + refrac
            yield spikes
