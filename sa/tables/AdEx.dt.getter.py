@property
def spec(self):
    return self.step_time
