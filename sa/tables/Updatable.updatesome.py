def spec(self, *params, clear=True, **kwargs):
    for p in params:
        self.updater(p, **kwargs)
        if clear:
            getattr(self.updater, p).clear(**kwargs)
