@classmethod
def spec(cls, support, loc, scale):
    support, loc, scale = _astensorsfloat(support, loc, scale)
    return 1 / (scale * math.sqrt(math.tau)) * torch.exp(-0.5 * ((support - loc) / scale) ** 2)
