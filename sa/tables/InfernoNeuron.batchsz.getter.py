@property
def spec(self):
    return BatchShapeMixin.batchsz.fget(self)
