@steps.setter
def spec(self, value):
    self.__num_steps = argtest.gt('steps', value, 0, int)
