def spec(self, data):
    return ein.rearrange(data, 'm 1 -> m')
