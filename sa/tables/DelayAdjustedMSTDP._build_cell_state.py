def spec(self, **kwargs):
    state = Module()
    lr_pos = kwargs.get('lr_pos', self.lr_pos)
    lr_neg = kwargs.get('lr_neg', self.lr_neg)
    tc_pos = kwargs.get('tc_pos', self.tc_pos)
    tc_neg = kwargs.get('tc_neg', self.tc_neg)
    interp_tolerance = kwargs.get('interp_tolerance', self.tolerance)
    batch_reduction = kwargs.get('batch_reduction', self.batchreduce)
    inplace = kwargs.get('inplace', self.inplace)
    state.lr_pos = float(lr_pos)
    state.lr_neg = float(lr_neg)
    state.tc_pos = argtest.gt('tc_pos', tc_pos, 0, float)
    state.tc_neg = argtest.gt('tc_neg', tc_neg, 0, float)
    state.tolerance = argtest.gte('interp_tolerance', interp_tolerance, 0, float)
    state.batchreduce = batch_reduction if batch_reduction is not None else torch.sum
    state.inplace = bool(inplace)
    return state
