def spec(self, prev_data, next_data, sample_at, step_time):
    return interp_previous(prev_data, next_data, sample_at, step_time)
