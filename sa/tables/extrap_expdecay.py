def spec(sample, sample_at, prev_data, next_data, step_time, *, time_constant, **kwargs):
    return (sample * torch.exp(sample_at / time_constant), sample * torch.exp((sample_at - step_time) / time_constant))
