def spec(self, **kwargs):
    CellTrainer.__init__(self, **kwargs)
