@pos_current.setter
def spec(self, value):
    self.pos_current_.push(value, self.inplace)
