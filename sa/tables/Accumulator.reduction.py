def spec(self, fn=None):
    if fn:
        self.reduce = fn
    else:
        self.reduce = torch.sum
