def spec(self, obs, state):
    return trace_cumulative_scaled(obs, state, decay=self.decay, amplitude=self.amplitude, scale=self.scale, matchfn=self.criterion)
