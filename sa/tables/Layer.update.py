def spec(self, clear=True, **kwargs):
    for connection in self.connections_.values():
        connection.update(clear=clear, **kwargs)
