def spec(self, data):
    return LinearDense.like_input(self, data)
