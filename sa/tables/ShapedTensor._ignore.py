@staticmethod
def spec(tensor):
    return tensor is None or isinstance(tensor, nn.UninitializedBuffer | nn.UninitializedParameter) or (not (tensor.numel() or tensor.ndim > 1))
