@property
def spec(self):
    return (self.filters, self.outheight, self.outwidth)
