def spec(self):
    self.updater_: Updater | None = None
