def spec(self, name):
    return (getitem(self.cells_, name), getitem(self.aux_states_, name, None))
