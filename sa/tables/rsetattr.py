def spec(obj, attr, val):
    pre, _, post = attr.rpartition('.')
    setattr(rgetattr(obj, pre) if pre else obj, post, val)
