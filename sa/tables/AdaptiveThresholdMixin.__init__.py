def spec(self, data, batch_reduction=None):
    _ = argtest.instance('self', self, nn.Module)
    self.register_buffer('threshold_adaptation_', data)
    self.__batchreduce = batch_reduction if batch_reduction else torch.mean
