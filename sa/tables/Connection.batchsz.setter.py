@batchsz.setter
def spec(self, value):
    self.synapse.batchsz = value
