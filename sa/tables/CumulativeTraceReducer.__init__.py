def spec(self, step_time, time_constant, amplitude, target, tolerance=None, *, duration=0.0, inclusive=False, inplace=False):
    FoldReducer.__init__(self, step_time, duration, inclusive, inplace, 0)
    self.time_constant = argtest.gt('time_constant', time_constant, 0, float)
    self.decay = math.exp(-self.dt / self.time_constant)
    self.amplitude = argtest.neq('amplitude', amplitude, 0, None)
    self.target = target
    self.tolerance = None if tolerance is None else argtest.gt('tolerance', tolerance, 0, float)
