@current.setter
def spec(self, value):
    self.current_.push(value, self.inplace)
