@classmethod
def spec(cls, support, loc, scale):
    support, loc, scale = _astensorsfloat(support, loc, scale)
    logsupport = torch.log(support)
    return -torch.log(scale) - logsupport - 0.5 * (math.log(math.tau) + ((loc - logsupport) / scale) ** 2)
