def spec(self, observed, name, attr, constructor, unique=False, /, **tags):
    if observed not in self.observed_:
        raise AttributeError(f"'observed' ('{observed}') is not the name of an added observable")
    monitor = rgetitem(self.monitors_, (observed, name), None)
    if monitor:
        if unique:
            del self.monitors_[observed][name]
        else:
            return monitor
    monitor = self.get_observed(observed).add_monitor(name, attr, constructor, None if unique else self.pool, **tags)
    if not self.training:
        monitor.deregister()
    if observed not in self.monitors_:
        self.monitors_[observed] = nn.ModuleDict()
    self.monitors_[observed][name] = monitor
    return monitor
