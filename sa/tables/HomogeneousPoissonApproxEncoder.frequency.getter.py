@property
def spec(self):
    return self.__frequency_scale
