def spec(self, shape, step_time, *, spike_charge, tc_decay, tc_rise, delay=0.0, spike_interp_mode='previous', interp_tol=0.0, current_overbound=0.0, spike_overbound=False, batch_size=1, inplace=False):
    InfernoSynapse.__init__(self, shape, step_time, delay, batch_size, inplace)
    self.spike_charge = argtest.neq('spike_charge', spike_charge, 0, float)
    self.tc_rise = argtest.gt('tc_rise', tc_rise, 0, float)
    self.tc_decay = argtest.gt('tc_decay', tc_decay, tc_rise, float, 'tc_rise')
    match spike_interp_mode.lower():
        case 'nearest':
            spike_interp_mode = interp_nearest
        case 'previous':
            spike_interp_mode = interp_previous
        case _:
            raise RuntimeError(f"invalid ispike_interp_modenterp_mode '{spike_interp_mode}' received, must be one of 'nearest' or 'previous'.")
    SpikeMixin.__init__(self, torch.zeros(*self.batchedshape, dtype=torch.bool), interpolation=spike_interp_mode, interp_kwargs={}, overbound=spike_overbound, tolerance=interp_tol)
    RecordTensor.create(self, 'pos_current_', self.dt, self.delay, torch.zeros(*self.batchedshape), persist_data=True, persist_constraints=False, persist_temporal=False, strict=True, live=False, inclusive=True)
    self.add_delayed('pos_current_')
    self.add_batched('pos_current_')
    RecordTensor.create(self, 'neg_current_', self.dt, self.delay, torch.zeros(*self.batchedshape), persist_data=True, persist_constraints=False, persist_temporal=False, strict=True, live=False, inclusive=True)
    self.add_delayed('neg_current_')
    self.add_batched('neg_current_')
    self.__current_overbound = current_overbound
    self.__tolerance = float(interp_tol)
