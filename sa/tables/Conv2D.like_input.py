def spec(self, data):
    if torch.is_floating_point(data):
        return F.fold(data, (self.height, self.width), self.kernel, dilation=self.dilation, padding=self.padding, stride=self.stride) / F.fold(torch.ones_like(data), (self.height, self.width), self.kernel, dilation=self.dilation, padding=self.padding, stride=self.stride)
    else:
        return (F.fold(data.to(dtype=self.weight.dtype), (self.height, self.width), self.kernel, dilation=self.dilation, padding=self.padding, stride=self.stride) / F.fold(ones(data, dtype=self.weight.dtype), (self.height, self.width), self.kernel, dilation=self.dilation, padding=self.padding, stride=self.stride)).to(dtype=data.dtype)
