def spec(self, connections, neurons, combine='sum'):
    Layer.__init__(self)
    self.post_input = {}
    self.pre_output = {}
    match combine.lower() if isinstance(combine, str) else combine:
        case 'sum' | 'mean' | 'prod' | 'min' | 'max':

            def combinefn(tensors, **kwargs):
                return ein.reduce(list(tensors.values()), 's ... -> ...', combine.lower())
            self._combine = combinefn
        case _:
            if isinstance(combine, str):
                raise ValueError(f"'combine' ('{combine}'), when a string, must be one of: 'sum', 'mean', 'prod', 'min', 'max'")
            else:
                self._combine = combine
    connections = [*connections]
    if not len(connections):
        raise ValueError("'connections' cannot be empty")
    neurons = [*neurons]
    if not len(neurons):
        raise ValueError("'neurons' cannot be empty")
    for idx, c in enumerate(connections):
        match len(c):
            case 2:
                Layer.add_connection(self, *c)
                self.post_input[c[0]] = lambda x: x
            case 3:
                Layer.add_connection(self, *c[:-1])
                self.post_input[c[0]] = c[2]
            case _:
                raise ValueError(f"element at position {idx} in 'connections' has invalid number of elements {len(c)}")
    for idx, n in enumerate(neurons):
        match len(n):
            case 2:
                Layer.add_neuron(self, *n)
                self.pre_output[n[0]] = lambda x: x
            case 3:
                Layer.add_neuron(self, *n[:-1])
                self.pre_output[n[0]] = n[2]
            case _:
                raise ValueError(f"element at position {idx} in 'neurons' has invalid number of elements {len(n)}")
    for c in connections:
        for n in neurons:
            _ = Layer.add_cell(self, c[0], n[0])
