def spec(self, state):
    self.__dict__.update(state)
    if '_extras' not in self.__dict__:
        self._extras = OrderedDict()
    return super().__setstate__(state)
