def spec(tensor, *, shape=None, dtype=None, layout=None, device=None, requires_grad=None, generator=None):
    shape = tensor.shape if shape is None else shape
    dtype = tensor.dtype if dtype is None else dtype
    layout = tensor.layout if layout is None else layout
    device = tensor.device if device is None else device
    requires_grad = tensor.requires_grad if requires_grad is None else requires_grad
    return torch.randn(shape, generator=generator, dtype=dtype, layout=layout, device=device, requires_grad=requires_grad)
