def spec(self, *args, **kwargs):
    nn.Module.__init__(self, *args, **kwargs)
    self._extras = OrderedDict()
