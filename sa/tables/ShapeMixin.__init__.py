def spec(self, shape):
    try:
        self.__shape = (argtest.gt('shape', shape, 0, int),)
    except TypeError:
        self.__shape = argtest.ofsequence('shape', shape, argtest.gt, 0, int)
