def spec(self, inputs, labels):
    clscounts = torch.bincount(labels, None, self.nclass).to(dtype=self.rates.dtype)
    rates = (torch.scatter_add(torch.zeros_like(self.rates), dim=-1, index=labels.expand(*self.shape, -1), src=ein.rearrange(inputs, 'b ... -> ... b')) / clscounts).nan_to_num(nan=0, posinf=0)
    self.rates = torch.exp(-self.decay * clscounts) * self.rates + rates
