def spec(self, height, width, channels, filters, step_time, kernel, *, stride=1, padding=0, dilation=1, synapse, bias=False, delay=None, batch_size=1, weight_init=None, bias_init=None, delay_init=None):
    self.height = argtest.gt('height', height, 0, int)
    self.width = argtest.gt('width', width, 0, int)
    self.channels = argtest.gt('channels', channels, 0, int)
    self.filters = argtest.gt('filters', filters, 0, int)
    try:
        self.kernel = argtest.ofsequence('kernel', kernel, argtest.gt, 0, int)
    except TypeError:
        k = argtest.gt('kernel', kernel, 0, int)
        self.kernel = (k, k)
    except IndexError:
        raise ValueError(f"nonscalar 'kernel' must be of length 2, is of length {len(kernel)}")
    try:
        self.stride = argtest.ofsequence('stride', stride, argtest.gt, 0, int)
    except TypeError:
        s = argtest.gt('stride', stride, 0, int)
        self.stride = (s, s)
    except IndexError:
        raise ValueError(f"nonscalar 'stride' must be of length 2, is of length {len(stride)}")
    try:
        self.padding = argtest.ofsequence('padding', padding, argtest.gte, 0, int)
    except TypeError:
        p = argtest.gte('padding', padding, 0, int)
        self.padding = (p, p)
    except IndexError:
        raise ValueError(f"nonscalar 'padding' must be of length 2, is of length {len(padding)}")
    try:
        self.dilation = argtest.ofsequence('dilation', dilation, argtest.gt, 0, int)
    except TypeError:
        d = argtest.gt('dilation', dilation, 0, int)
        self.dilation = (d, d)
    except IndexError:
        raise ValueError(f"nonscalar 'dilation' must be of length 2, is of length {len(dilation)}")
    self.outheight, self.outwidth = (math.floor((size + 2 * self.padding[d] - self.dilation[d] * (self.kernel[d] - 1) - 1) / self.stride[d] + 1) for d, size in enumerate((self.height, self.width)))
    Connection.__init__(self, synapse=synapse((self.channels * math.prod(self.kernel), self.outheight * self.outwidth), step_time, 0.0 if delay is None else delay, batch_size))
    WeightBiasDelayMixin.__init__(self, weight=torch.rand(self.filters, self.channels, *self.kernel), bias=None if not bias else torch.rand(self.filters), delay=None if delay is None else torch.zeros(self.filters, self.channels, *self.kernel), requires_grad=False)
    if weight_init:
        self.weight = weight_init(self.weight)
    if bias_init and self.biased:
        self.bias = bias_init(self.bias)
    if delay_init and self.delayedby is not None:
        self.delay = delay_init(self.delay)
