def spec(self, **kwargs):
    self.voltage = torch.full_like(self.voltage, self.rest_v)
    self.refrac = torch.zeros_like(self.refrac)
