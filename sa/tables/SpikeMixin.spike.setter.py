@spike.setter
def spec(self, value):
    self.spike_.push(value.bool(), self.inplace)
