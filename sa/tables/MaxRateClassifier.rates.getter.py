@property
def spec(self):
    return self.rates_.data
