def spec(data, dim=None, keepdim=False, **kwargs):
    return torch.mean(data, dim, keepdim=keepdim)
