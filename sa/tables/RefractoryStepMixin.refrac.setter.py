@refrac.setter
def spec(self, value):
    if value is None:
        self.__derive_refrac = True
        self.__refrac_time = self.dt
    else:
        self.__derive_refrac = False
        self.__refrac_time = argtest.gte('refrac', value, 0, float)
