def spec(self, name):
    if name not in self.cells_:
        raise AttributeError(f"'name' ('{name}') is not the name of an added cell")
    self.monitor_pool_.del_observed(name)
    if name in self.aux_states_:
        del self.aux_states_[name]
    del self.cells_[name]
