@classmethod
def spec(cls, rate, generator=None):
    rate = _astensorsfloat(rate)
    return torch.poisson(rate, generator=generator)
