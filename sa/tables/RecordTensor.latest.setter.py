@latest.setter
def spec(self, value):
    self.push(value, inplace=False)
