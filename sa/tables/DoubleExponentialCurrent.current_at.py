def spec(self, selector):
    if self.spike_.recordsz == 1:
        bounded_selector = 0
        res = self.pos_current_.peek() - self.neg_current_.peek()
    else:
        bounded_selector = selector.clamp(min=0, max=self.spike_.duration)
        res = self.pos_current_.select(bounded_selector, interp_expdecay, tolerance=self.__tolerance, interp_kwargs={'time_constant': self.tc_decay}) - self.neg_current_.select(bounded_selector, interp_expdecay, tolerance=self.__tolerance, interp_kwargs={'time_constant': self.tc_rise})
    if self.__current_overbound is not None:
        res = torch.where((selector - bounded_selector).abs() <= self.__tolerance, res, self.__current_overbound)
    return res
