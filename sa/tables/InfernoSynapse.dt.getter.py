@property
def spec(self):
    return DelayedMixin.dt.fget(self)
