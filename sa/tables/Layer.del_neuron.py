def spec(self, name):
    if name not in self.neurons_:
        raise ValueError(f"'name' ('{name}') is not a registered neuron")
    else:
        del self.neurons_[name]
        for conn in [*self.cells_]:
            if name in self.cells_[conn]:
                del self.cells_[conn][name]
            if not len(self.cells_[conn]):
                del self.cells_[conn]
