def spec(self, clear=True, **kwargs):
    if self.updatable:
        self.updater(**kwargs)
        if clear:
            self.updater.clear(**kwargs)
