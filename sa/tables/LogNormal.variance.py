@classmethod
def spec(cls, loc, scale):
    loc, scale = astensors(loc, scale, conversion=lambda x: torch.tensor(x).float())
    scalesq = scale ** 2
    return torch.special.expm1(scalesq) * torch.exp(2 * loc + scalesq)
