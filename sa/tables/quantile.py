def spec(data, dim=None, keepdim=False, q=0.5, interpolation='linear', **kwargs):
    return torch.quantile(data, q, dim, keepdim=keepdim, interpolation=interpolation)
