@property
def spec(self):
    return self._neg_cache()
