@dt.setter
def spec(self, value):
    value = argtest.gt('dt', value, 0, float)
    if value != self.__step_time:
        for rec in self.__records:
            getattr(self, rec).dt = value
        self.__step_time = value
