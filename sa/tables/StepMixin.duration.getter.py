@property
def spec(self):
    return self.__num_steps * self.dt
