def spec(self, cell):
    return self.monitor_pool_.named_monitors_of(cell)
