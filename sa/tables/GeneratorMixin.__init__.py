def spec(self, generator):
    self.__rng = generator
