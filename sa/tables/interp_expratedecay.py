def spec(prev_data, next_data, sample_at, step_time, *, rate_constant, **kwargs):
    return prev_data * torch.exp(-sample_at * rate_constant)
