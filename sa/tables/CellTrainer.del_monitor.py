def spec(self, cell, name):
    self.monitor_pool_.del_monitor(cell, name)
