@property
def spec(self):
    return self.spike_.value
