@property
def spec(self):
    return _constraint_dimensionality(self.__constraints, self.__strict)
