@property
def spec(self):
    return ((k, v) for k, v in self.connections_.items())
