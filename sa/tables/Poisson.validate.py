@classmethod
def spec(cls, rate=None, support=None):
    return {'rate': constraints.nonnegreal(rate), 'support': constraints.nonneginteger(support)}
