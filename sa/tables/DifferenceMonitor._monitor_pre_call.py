def spec(self, module, args, *_):
    self.__data = rgetattr(module, self.__observed_attr)
