def spec(self, inputs, refrac_lock=True, **kwargs):
    spikes, voltages, refracs = nf.voltage_thresholding_constant(inputs=inputs, refracs=self.refrac, dynamics=self._integrate_v, voltages=self.voltage if refrac_lock else None, step_time=self.step_time, reset_v=self.reset_v, thresh_v=self.thresh_v, refrac_t=self.refrac_t)
    self.voltage = voltages
    self.refrac = refracs
    return spikes
