def spec(self, module):
    if not self.registered:
        _ = argtest.instance('module', module, nn.Module)
        if self._prehook_call:
            weakself = weakref.ref(self)
            self.__prehook_handle = module.register_forward_pre_hook(lambda module, *args, **kwargs: weakself().__wrapped_prehook(module, *args, **kwargs), **self.__prehook_kwargs)
        if self._posthook_call:
            weakself = weakref.ref(self)
            self.__posthook_handle = module.register_forward_hook(lambda module, *args, **kwargs: weakself().__wrapped_posthook(module, *args, **kwargs), **self.__posthook_kwargs)
        if self.__finalizer:
            self.__finalizer.detach()
        self.__finalizer = weakref.finalize(self, _detach_handles, self.__prehook_handle, self.__posthook_handle)
    else:
        raise RuntimeError(f'this {type(self).__name__} is already registered to a module so new register() was ignored')
