@updater.setter
def spec(self, value):
    self.updater_ = value
