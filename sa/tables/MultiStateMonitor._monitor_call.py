def spec(self, module, args, *_):
    res = tuple((rgetattr(module, oa) for oa in self.__observed_attrs))
    if self.filter_(res):
        self.reducer_(*self.map_(res))
