def spec(self, reducer, attr, module=None, as_prehook=False, train_update=True, eval_update=True, prepend=False, filter_=None, map_=None):
    self.filter_ = filter_ if filter_ else lambda x: x is not None
    self.map_ = map_ if map_ else lambda x: x if isinstance(x, tuple) else (x,)
    self.__observed_attr = attr
    Monitor.__init__(self, reducer=reducer, module=module, prehook='_monitor_call' if as_prehook else None, posthook='_monitor_call' if not as_prehook else None, prehook_kwargs={'prepend': prepend} if as_prehook else None, posthook_kwargs={'prepend': prepend} if not as_prehook else None, train_update=train_update, eval_update=eval_update)
