def spec(self, **kwargs):
    Module.__init__(self, **kwargs)
    self.cells_ = weakref.WeakValueDictionary()
    self.aux_states_ = nn.ModuleDict()
    self.monitor_pool_ = MonitorPool()
