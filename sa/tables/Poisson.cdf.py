@classmethod
def spec(cls, support, rate):
    support, rate = _astensorsfloat(support, rate)
    return torch.special.gammaincc(torch.floor(support + 1), rate)
