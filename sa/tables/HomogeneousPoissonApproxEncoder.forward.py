def spec(self, inputs, online=False):
    if online:
        return nf.homogenous_poisson_bernoulli_approx_online(self.frequency * inputs, steps=self.steps, step_time=self.dt, generator=self.generator)
    else:
        return nf.homogenous_poisson_bernoulli_approx(self.frequency * inputs, steps=self.steps, step_time=self.dt, generator=self.generator)
