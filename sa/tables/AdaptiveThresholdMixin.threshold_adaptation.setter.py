@threshold_adaptation.setter
def spec(self, value):
    if value.shape[1:] == self.threshold_adaptation_.shape:
        self.threshold_adaptation_ = self.__batchreduce(value, 0)
    else:
        self.threshold_adaptation_ = value
