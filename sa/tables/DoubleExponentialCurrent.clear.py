def spec(self, **kwargs):
    self.spike_.reset(False)
    self.pos_current_.reset(0.0)
    self.neg_current_.reset(0.0)
