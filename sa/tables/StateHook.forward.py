def spec(self, force=False, ignore_mode=False):
    if self.registered or force:
        if ignore_mode:
            self.hook(self.module)
        elif self.trainexec and self.module.training:
            self.hook(self.module)
        elif self.evalexec and (not self.module.training):
            self.hook(self.module)
