def spec(self):
    Module.__init__(self)
    self._pos = nn.ParameterList()
    self._neg = nn.ParameterList()
    self.reduce = torch.sum
    self.bind = lambda x, p, n: p - n

    def calc_pos():
        if len(self._pos):
            return self.reduce(torch.stack([*self._pos], 0), 0)
        else:
            return None

    def calc_neg():
        if len(self._neg):
            return self.reduce(torch.stack([*self._neg], 0), 0)
        else:
            return None
    self._pos_cache = cache(calc_pos)
    self._neg_cache = cache(calc_neg)
