@generator.setter
def spec(self, value):
    self.__rng = value
