@classmethod
def spec(cls, support, loc, scale):
    return torch.log(cls.cdf(support, loc, scale))
