@__ref.setter
def spec(self, value):
    return setattr(self.__owner(), self.__attributes.ref, value)
