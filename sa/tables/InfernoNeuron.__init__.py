def spec(self, shape, batch_size):
    Neuron.__init__(self)
    BatchShapeMixin.__init__(self, shape, batch_size)
