def spec(self, inputs, online=False):
    if online:
        return nf.poisson_interval_online(self.frequency * inputs, steps=self.steps, step_time=self.dt, generator=self.generator)
    else:
        return nf.poisson_interval(self.frequency * inputs, steps=self.steps, step_time=self.dt, generator=self.generator)
