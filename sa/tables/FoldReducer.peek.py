def spec(self, **kwargs):
    if not self._initial:
        return self.data_.peek()
