@classmethod
def spec(cls, mean, variance, generator=None):
    return cls.sample(*cls.params_mv(mean, variance), generator=generator)
