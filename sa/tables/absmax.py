def spec(data, dim=None, keepdim=False, **kwargs):
    return torch.copysign(torch.amax(data.abs(), dim, keepdim=keepdim), torch.amax(data, dim, keepdim=keepdim))
