def spec(self, currents, to_spikes, interp, interp_kwargs, current_overbound, spike_overbound, tolerance):
    CurrentMixin.__init__(self, currents, interp, interp_kwargs, current_overbound, tolerance)
    self.__to_spike = to_spikes
    self.__interp = interp
    self.__interp_kwargs = interp_kwargs
    self.__spike_overbound = None if spike_overbound is None else bool(spike_overbound)
    self.__tolerance = argtest.gte('tolerance', tolerance, 0, float)
    VirtualTensor.create(self, 'spike_', '_derived_spike', dtype=torch.bool, persist=False)
