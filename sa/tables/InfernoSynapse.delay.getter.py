@property
def spec(self):
    return DelayedMixin.delay.fget(self)
