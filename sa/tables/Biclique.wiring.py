def spec(self, inputs, **kwargs):
    return {k: v(self._combine({k: self.post_input[k](v) for k, v in inputs.items()}, **kwargs)) for k, v in self.pre_output.items()}
