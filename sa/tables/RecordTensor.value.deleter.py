@value.deleter
def spec(self):
    self.deinitialize(False)
