def spec(param, pos, neg, max, min, **kwargs):
    if max is not None:
        pos = bound_upper_multiplicative(param, pos, max)
    if min is not None:
        neg = bound_lower_multiplicative(param, neg, min)
    return pos - neg
