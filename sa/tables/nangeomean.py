def spec(data, dim=None, keepdim=False, **kwargs):
    sanitized = torch.nan_to_num(data.log(), nan=0.0, neginf=0.0)
    return torch.nan_to_num(torch.exp(torch.sum(sanitized, dim, keepdim=keepdim) / torch.sum(sanitized != 0, dim, keepdim=keepdim)), nan=0.0)
