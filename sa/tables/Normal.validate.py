@classmethod
def spec(cls, loc=None, scale=None, support=None):
    return {'loc': constraints.real(loc), 'scale': constraints.posreal(scale), 'support': constraints.real(support)}
