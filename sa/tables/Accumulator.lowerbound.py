def spec(self, bound, min=None, /, **kwargs):
    if not isinstance(self.bind, list):
        self.bind = [lambda x, p: p, lambda x, n: n]
    if bound:
        self.bind[1] = lambda x, n, lb=min, k=kwargs: bound(x, n, lb, **k)
    else:
        self.bind[1] = lambda x, n: n
