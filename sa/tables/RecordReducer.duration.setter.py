@duration.setter
def spec(self, value):
    value = argtest.gte('duration', value, 0, float)
    if value != self.__duration:
        for rec in self.__records:
            getattr(self, rec).duration = value
        self.__duration = value
