def spec(self, spikes, interpolation, interp_kwargs, overbound, tolerance):
    _ = argtest.instance('self', self, InfernoSynapse)
    RecordTensor.create(self, 'spike_', self.dt, self.delay, spikes, persist_data=True, persist_constraints=False, persist_temporal=False, strict=True, live=False, inclusive=True)
    self.add_delayed('spike_')
    self.add_batched('spike_')
    self.__interp = interpolation
    self.__interp_kwargs = interp_kwargs
    self.__overbound = overbound if overbound is None else bool(overbound)
    self.__tolerance = float(tolerance)
