def spec(self):
    if self._ignore(self.__data):
        return None
    else:
        self.decr(1)
        return self.read(0)
