def spec(self, selector):
    return _synparam_at(self.neg_current_, selector, interp_expdecay, {'time_constant': self.tc_rise}, self.__tolerance, self.__current_overbound, None)
