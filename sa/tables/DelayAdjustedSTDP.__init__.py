def spec(self, lr_pos, lr_neg, tc_pos, tc_neg, interp_tolerance=0.0, batch_reduction=None, inplace=False, **kwargs):
    IndependentCellTrainer.__init__(self, **kwargs)
    self.lr_pos = float(lr_pos)
    self.lr_neg = float(lr_neg)
    self.tc_pos = argtest.gt('tc_pos', tc_pos, 0, float)
    self.tc_neg = argtest.gt('tc_neg', tc_neg, 0, float)
    self.tolerance = argtest.gte('interp_tolerance', interp_tolerance, 0, float)
    self.batchreduce = batch_reduction if batch_reduction else torch.mean
    self.inplace = bool(inplace)
