def spec(self, submodules=True, **kwargs):
    if submodules:
        for connection in self.connections_.values():
            connection.clear(**kwargs)
        for neuron in self.neurons_.values():
            neuron.clear(**kwargs)
