@delay.setter
def spec(self, value):
    DelayedMixin.delay.fset(self, value)
    self.clear()
