def spec(self, obs, state):
    return trace_nearest_scaled(obs, state, decay=self.decay, amplitude=self.amplitude, scale=self.scale, matchfn=self.criterion)
