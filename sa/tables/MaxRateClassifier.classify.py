def spec(self, inputs, proportional=True):
    return torch.argmax(self.regress(inputs, proportional), dim=1)
