def spec(self, signal, scale=1.0, cells=None):
    for name, (cell, state, monitors) in zip(self.cells_, self):
        if cells is not None and name not in cells:
            continue
        if not cell.training or not self.training or (not cell.updater):
            continue
        z_post = monitors['elig_post'].peek()
        z_pre = monitors['elig_pre'].peek()
        if isinstance(signal, torch.Tensor):
            scaledsignal = (signal * scale).abs().view(-1, *repeat(1, z_post.ndim - 1))
            signal_pos = torch.argwhere(signal >= 0).view(-1)
            signal_neg = torch.argwhere(signal < 0).view(-1)
            dpost = z_post * scaledsignal
            dpre = z_pre * scaledsignal
            dpost_reg, dpost_inv = (dpost[signal_pos], dpost[signal_neg])
            dpre_reg, dpre_inv = (dpre[signal_pos], dpre[signal_neg])
            match (state.lr_post >= 0, state.lr_pre >= 0):
                case [False, False]:
                    dpos = torch.cat((dpost_inv, dpre_inv), 0)
                    dneg = torch.cat((dpost_reg, dpre_reg), 0)
                case [False, True]:
                    dpos = torch.cat((dpost_inv, dpre_reg), 0)
                    dneg = torch.cat((dpost_reg, dpre_inv), 0)
                case [True, False]:
                    dpos = torch.cat((dpost_reg, dpre_inv), 0)
                    dneg = torch.cat((dpost_inv, dpre_reg), 0)
                case [True, True]:
                    dpos = torch.cat((dpost_reg, dpre_reg), 0)
                    dneg = torch.cat((dpost_inv, dpre_inv), 0)
            cell.updater.weight = (state.batchreduce(dpos, 0) if dpos.numel() else None, state.batchreduce(dneg, 0) if dneg.numel() else None)
        else:
            dpost = state.batchreduce(z_post, 0) * abs(signal * scale)
            dpre = state.batchreduce(z_pre, 0) * abs(signal * scale)
            match (state.lr_post * signal >= 0, state.lr_pre * signal >= 0):
                case [False, False]:
                    cell.updater.weight = (None, dpost + dpre)
                case [False, True]:
                    cell.updater.weight = (dpre, dpost)
                case [True, False]:
                    cell.updater.weight = (dpost, dpre)
                case [True, True]:
                    cell.updater.weight = (dpost + dpre, None)
