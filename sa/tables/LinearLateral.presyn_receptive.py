def spec(self, data):
    return LinearDense.presyn_receptive(self, data)
