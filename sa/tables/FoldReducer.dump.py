def spec(self, **kwargs):
    if not self._initial:
        self.data_.align(0)
        return self.data_.value.flip(0)
