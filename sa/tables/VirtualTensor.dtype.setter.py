@dtype.setter
def spec(self, value):
    self.__ref = self.__ref.to(dtype=value)
