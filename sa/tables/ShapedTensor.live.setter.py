@live.setter
def spec(self, value):
    self.__live = bool(value)
