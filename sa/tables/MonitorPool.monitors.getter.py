@property
def spec(self):
    return unique(chain.from_iterable((m.values() for m in self.monitors_.values())))
