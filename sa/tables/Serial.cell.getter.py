@property
def spec(self):
    return self.get_cell(self.__connection_name, self.__neuron_name)
