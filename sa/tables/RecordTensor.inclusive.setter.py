@inclusive.setter
def spec(self, value):
    duration = self.__duration
    setattr(self.__owner(), self.__attributes.inclusive, value)
    self.duration = duration
