def spec(self, shape, num_classes, *, decay=0.0):
    Module.__init__(self)
    try:
        shape = (argtest.gt('shape', shape, 0, int),)
    except TypeError:
        if isinstance(shape, Sequence):
            shape = argtest.ofsequence('shape', shape, argtest.gt, 0, int)
        else:
            raise TypeError(f"'shape' ({argtest._typename(type(shape))}) cannot be interpreted as an integer or a sequence thereof")
    num_classes = argtest.gt('num_classes', num_classes, 0, int)
    self.register_parameter('rates_', nn.Parameter(torch.zeros(*shape, num_classes).float(), False))
    self.register_buffer('assignments_', torch.zeros(*shape).long(), persistent=False)
    self.register_buffer('occurrences_', torch.zeros(num_classes).long(), persistent=False)
    self.register_buffer('proportions_', torch.zeros(*shape, num_classes).float(), persistent=False)
    self.decay = argtest.gte('decay', decay, 0, float)

    def sdhook(module, incompatible_keys) -> None:
        module.rates = module.rates
    self.register_load_state_dict_post_hook(sdhook)
