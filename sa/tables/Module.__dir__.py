def spec(self):
    module_attrs = dir(self.__class__)
    attrs = list(self.__dict__.keys())
    parameters = list(self._parameters.keys())
    modules = list(self._modules.keys())
    buffers = list(self._buffers.keys())
    extras = list(self._extras.keys())
    keys = module_attrs + attrs + parameters + modules + buffers + extras
    keys = [key for key in keys if key.isidentifier()]
    return sorted(keys)
