def spec(self, owner, name, value, constraints=None, persist_data=True, persist_constraints=False, strict=True, live=False):
    _ = argtest.identifier('name', name)
    self.__owner = weakref.ref(owner)
    self.__name = name
    self.__strict = strict
    self.__live = live
    self.__finalizer = weakref.finalize(self, _shapedtensor_finalization, self.__owner, self.__name)
    constraints = dict(constraints) if constraints else {}
    if not self._ignore_or_compatible(value, constraints, strict):
        assert value is not None
        raise RuntimeError(f'initial value of shape {tuple(value.shape)} is not compatible with constraints: {tuple(constraints.items())}')
    self.__attributes = ShapedTensor.LinkedAttributes(f'_{self.__name}_data', f'_{self.__name}_constraints')
    if isinstance(owner, nn.Module) and (not isinstance(value, nn.Parameter)):
        owner.register_buffer(self.__attributes.data, value, persistent=persist_data)
    else:
        setattr(owner, self.__attributes.data, value)
    if persist_constraints and isinstance(owner, Module):
        owner.register_extra(self.__attributes.constraints, constraints)
    else:
        setattr(owner, self.__attributes.constraints, constraints)
