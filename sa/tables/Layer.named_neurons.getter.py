@property
def spec(self):
    return ((k, v) for k, v in self.neurons_.items())
