@dt.setter
def spec(self, value):
    FoldReducer.dt.fset(self, value)
    self.decay = math.exp(-self.dt / self.time_constant)
