def spec(self, connection, neuron, target, attr):
    match target:
        case 'connection':
            if connection not in self.connections_:
                raise AttributeError(f"'connection' ('{connection}') is not valid")
            else:
                return f'connections_.{connection}{('.' if attr else '')}{attr}'
        case 'neuron':
            if neuron not in self.neurons_:
                raise AttributeError(f"'neuron' ('{neuron}') is not valid")
            else:
                return f'neurons_.{neuron}{('.' if attr else '')}{attr}'
        case 'cell':
            if not rgetitem(self.cells_, (connection, neuron), None):
                raise AttributeError(f"cell 'connection', 'neuron' ('{connection}', '{neuron}') is not valid")
            else:
                return f'cells_.{connection}.{neuron}{('.' if attr else '')}{attr}'
        case _:
            raise ValueError(f"invalid 'target' ('{target}') specified, expected one of: 'neuron', 'connection', 'cell'")
