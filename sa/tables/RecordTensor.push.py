def spec(self, obs, inplace=False):
    if self._ignore(self.__data):
        self.initialize(obs.shape, device=obs.device, dtype=obs.dtype if self.__data is None else None, fill=0)
    self.write(obs, offset=0, inplace=inplace)
    self.incr(1)
