def spec(self, reducer, module=None, train_update=True, eval_update=True, prepend=False, filter_=None, map_=None):
    self.filter_ = filter_ if filter_ else lambda x: x is not None
    self.map_ = map_ if map_ else lambda x: x if isinstance(x, tuple) else (x,)
    Monitor.__init__(self, reducer=reducer, module=module, posthook='_monitor_call', posthook_kwargs={'prepend': prepend}, train_update=train_update, eval_update=eval_update)
