@neg.deleter
def spec(self):
    self._neg = nn.ParameterList()
    self._neg_cache.cache_clear()
