def spec(param, update, limit, *, power, **kwargs):
    return (limit - param) ** power * update
