def spec(self, shape, device=None, dtype=None, fill=0):
    data, recordsz = (self.__data, self.__recordsz)
    if isinstance(data, nn.UninitializedBuffer | nn.UninitializedParameter):
        data.materialize((recordsz, *shape), device=device, dtype=dtype)
        with torch.no_grad():
            data.fill_(fill)
        assert isinstance(self.__data, torch.Tensor | nn.Parameter)
    elif isinstance(data, torch.Tensor):
        self.__data = full(data, fill, shape=(recordsz, *shape), dtype=dtype, device=device)
    else:
        self.__data = torch.full((recordsz, *shape), fill, dtype=dtype, device=device)
    self.__pointer = 0
    return self.__data
