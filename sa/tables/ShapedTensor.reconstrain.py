def spec(self, dim, size):
    dim = int(dim)
    size = None if size is None else argtest.gte('size', size, 0, int)
    data, constraints = (self.__data, self.__constraints)
    if dim not in constraints and size is None:
        raise ValueError(f'cannot remove constraint on unconstrained dim {dim}')
    elif dim not in constraints:
        assert size is not None
        if self._ignore(data):
            constraints[dim] = size
        else:
            assert data is not None
            if _constraints_compatible(data, constraints, self.__strict):
                if _constraints_compatible(data, constraints | {dim: size}, self.__strict):
                    constraints[dim] = size
                else:
                    raise ValueError(f'constrained tensor would be invalidated by constraint of size {size} on dim {dim}')
            else:
                raise RuntimeError('constrained tensor has been invalidated')
    elif size is None:
        del constraints[dim]
        if not self._ignore_or_compatible(data, constraints, self.__strict):
            raise RuntimeError('constrained tensor has been invalidated')
    elif self._ignore(data):
        constraints[dim] = size
    else:
        assert data is not None
        if data.ndim >= _constraint_dimensionality(constraints, self.__strict) and _constraints_consistent(constraints | {dim: size}, data.ndim):
            constraints[dim] = size
            if not _constraints_compatible(data, constraints, self.__strict):
                self.__data = self.__make_compatible(data, dim, size)
                data = self.__data
        else:
            raise RuntimeError('constrained tensor cannot be made valid with altered constraint')
    return data
