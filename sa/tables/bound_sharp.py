def spec(param, pos, neg, max, min, **kwargs):
    if max is not None:
        pos = bound_upper_sharp(param, pos, max)
    if min is not None:
        neg = bound_lower_sharp(param, neg, min)
    return pos - neg
