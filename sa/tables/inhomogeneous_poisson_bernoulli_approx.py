def spec(inputs, step_time, *, generator=None):
    with torch.no_grad():
        res = inputs / 1000.0 * step_time
        return torch.bernoulli(res.clamp_max_(1.0), generator=generator).bool()
