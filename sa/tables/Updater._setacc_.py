@staticmethod
def spec(self, value, attr):
    if isinstance(value, torch.Tensor | None):
        self.updates_[attr].pos = value
    else:
        self.updates_[attr].pos, self.updates_[attr].neg = value
