@property
def spec(self):
    return self.monitor_pool_.named_monitors
