@property
def spec(self):
    return self._hooked_module
