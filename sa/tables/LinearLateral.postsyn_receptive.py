def spec(self, data):
    return LinearDense.postsyn_receptive(self, data)
