def spec(self, inputs, forward_pass, **kwargs):
    if forward_pass:
        return {self.__feedfwd_neuron_name: self._feedfwd_out_transform(inputs[self.__feedfwd_connection_name]) + self._feedback_out_transform(inputs[self.__feedback_connection_name])}
    else:
        return {self.__feedback_neuron_name: self._lateral_out_transform(inputs[self.__lateral_connection_name])}
