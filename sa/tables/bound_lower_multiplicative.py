def spec(param, update, limit, **kwargs):
    return (param - limit) * update
