def spec(self, step_time, time_constant, *, obs_reshape, cond_reshape, duration=0.0, inclusive=True):
    FoldReducer.__init__(self, step_time, duration, inclusive, 0)
    self.time_constant = argtest.gt('time_constant', time_constant, 0, float)
    self.decay = math.exp(-self.dt / self.time_constant)
    self.scale = 1 / self.time_constant
    self.obs_reshape = obs_reshape
    self.cond_reshape = cond_reshape
