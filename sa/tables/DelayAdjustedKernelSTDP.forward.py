def spec(self):
    for cell, state, monitors in self:
        if not cell.training or not self.training or (not cell.updater):
            continue
        t_post = cell.connection.postsyn_receptive(monitors['spike_post'].peek())
        t_pre = cell.connection.presyn_receptive(monitors['spike_pre'].peek())
        t_delta = t_pre - t_post - cell.connection.delay.unsqueeze(-1)
        dpost = state.kernel_post(t_delta, **state.kernel_post_kwargs | {k: v for k, v in state.kernel_post_tensor_kwargs.named_buffers()})
        dpre = state.kernel_pre(t_delta, **state.kernel_pre_kwargs | {k: v for k, v in state.kernel_pre_tensor_kwargs.named_buffers()})
        cell.updater.weight = (state.batchreduce(dpost.clamp_min(0.0).nansum(dim=-1), 0) + state.batchreduce(dpre.clamp_min(0.0).nansum(dim=-1), 0), -(state.batchreduce(dpost.clamp_max(0.0).nansum(dim=-1), 0) + state.batchreduce(dpre.clamp_max(0.0).nansum(dim=-1), 0)))
