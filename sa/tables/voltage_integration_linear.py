def spec(masked_inputs, voltages, *, step_time, time_constant, rest_v, resistance):
    decay = exp(-step_time / time_constant)
    extvoltage = resistance * masked_inputs
    return rest_v + (voltages - rest_v - extvoltage) * decay + extvoltage
