@__pointer.setter
def spec(self, value):
    setattr(self.__owner(), self.__attributes.pointer, int(value))
