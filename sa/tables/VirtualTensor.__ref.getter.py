@property
def spec(self):
    return getattr(self.__owner(), self.__attributes.ref)
