def spec(self, selector):
    return _synparam_at(self.current_, selector, self.__interp, self.__interp_kwargs, self.__tolerance, self.__overbound, None)
