def spec(self, **kwargs):
    self.spike_.reset(False)
    self.current_.reset(0.0)
