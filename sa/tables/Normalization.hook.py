def spec(self, module):
    rsetattr(module, self.attribute, normalize(rgetattr(self.module, self.attribute), self.order, self.scale, self.dim, epsilon=self.eps))
