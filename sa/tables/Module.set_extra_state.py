def spec(self, state):
    self._extras.update(state)
