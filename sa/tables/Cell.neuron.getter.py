@property
def spec(self):
    return self.neuron_
