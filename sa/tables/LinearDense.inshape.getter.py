@property
def spec(self):
    return self.in_shape
