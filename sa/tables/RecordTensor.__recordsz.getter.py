@property
def spec(self):
    return self.__constraints[0]
