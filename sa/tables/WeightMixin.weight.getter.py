@property
def spec(self):
    return self.weight_
