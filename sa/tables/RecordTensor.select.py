def spec(self, time, interp=None, *, tolerance=1e-06, offset=1, interp_kwargs=None):
    if not interp:
        interp = interp_nearest
    data = self.__data
    ptr, recordsz, dt = (self.__pointer, self.__recordsz, self.__dt)
    if self._ignore(data):
        raise RuntimeError('cannot select from uninitialized storage')
    elif isinstance(time, torch.Tensor):
        if time.ndim == data.ndim - 1:
            squeeze = True
            time = time.unsqueeze(-1)
        elif time.ndim == data.ndim:
            squeeze = False
        else:
            raise ValueError(f"'time' has an incompatible number of dimensions ({time.ndim}), it must have either {data.ndim - 1} or {data.ndim} dimensions")
        tmin, tmax = (time.amin(), time.amax())
        if tmin < -tolerance or tmax > dt * (recordsz - 1) + tolerance:
            raise ValueError(f"all elements of 'time' (min={tmin}, max={tmax}) must be within the valid range of observations including tolerance, the interval [{-tolerance}, {dt * (recordsz - 1) + tolerance}]")
        shift = time / dt
        shiftr = shift.round()
        shift = ein.rearrange(torch.where(torch.abs(dt * shiftr - time) <= tolerance, shiftr, shift), '... t -> t ...')
        offset = offset + shift
        prev_idx, next_idx = (offset.ceil(), offset.floor())
        stacked_idx = _unwind_tensor_ptr(ptr, torch.cat((prev_idx, next_idx), 0), recordsz)
        prev_data, next_data = torch.tensor_split(torch.gather(data, 0, stacked_idx), (offset.shape[0],), 0)
        res = interp(prev_data, next_data, dt - dt * (shift % 1), dt, **interp_kwargs if interp_kwargs else {})
        res = ein.rearrange(torch.where(prev_idx == next_idx, prev_data, res), 't ... -> ... t')
        return res.squeeze(-1) if squeeze else res
    else:
        disptime, time = (time, float(time))
        if time < -tolerance or time > dt * (recordsz - 1) + tolerance:
            raise ValueError(f"'time' ({disptime}) must be within the valid range of observations, including tolerance, the interval [{-tolerance}, {dt * (recordsz - 1) + tolerance}]")
        shift = time / dt
        if abs(dt * round(shift) - time) <= tolerance:
            return data[_unwind_ptr(ptr, offset + round(shift), recordsz), ...]
        else:
            offset = offset + shift
            return interp(data[_unwind_ptr(ptr, math.ceil(offset), recordsz), ...], data[_unwind_ptr(ptr, math.floor(offset), recordsz), ...], fullc(data, dt - dt * (shift % 1), shape=data.shape[1:]), dt, **interp_kwargs if interp_kwargs else {})
