@property
def spec(self):
    return self.get_neuron(self.__feedfwd_neuron_name)
