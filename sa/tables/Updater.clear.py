def spec(self, **kwargs):
    for acc in self.updates_.values():
        acc.clear(**kwargs)
