@property
def spec(self):
    return self.occurrences.shape[0]
