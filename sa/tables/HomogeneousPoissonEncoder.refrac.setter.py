@refrac.setter
def spec(self, value):
    if self.__compensate_freq:
        _ = argtest.lt('refrac * frequency ', (self.dt if value is None else value) * self.__frequency_scale, 1000, float)
    RefractoryStepMixin.refrac.fset(self, value)
