def spec(self, cell, name):
    return self.monitor_pool_.get_monitor(cell, name)
