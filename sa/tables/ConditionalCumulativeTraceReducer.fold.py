def spec(self, obs, cond, state):
    return trace_cumulative_scaled(obs, state, decay=self.decay, amplitude=self.amplitude, scale=self.scale, matchfn=partial(lambda o, c: c, c=cond))
