@property
def spec(self):
    return ((obs, {mname: mon for mname, mon in self.monitors_[oname].items()}) for oname, obs in self.observed_.items() if oname in self.monitors_)
