def spec(self, name, value):
    if not isinstance(name, str):
        raise TypeError(f'extra name must be a string, received {type(name).__name__}')
    elif '.' in name:
        raise KeyError("extra name cannot contain '.'")
    elif name == '':
        raise KeyError("extra name cannot be empty string ''")
    elif hasattr(self, name) and name not in self._extras:
        raise KeyError(f"attribute '{name}' already exists")
    elif isinstance(value, torch.Tensor | nn.Module):
        raise TypeError(f"cannot assign '{type(value).__name__}' object to '{name}'")
    else:
        self._extras[name] = value
