def spec(data, dim=None, keepdim=False, **kwargs):
    return torch.sum(data, dim, keepdim=keepdim)
