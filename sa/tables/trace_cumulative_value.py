def spec(observation, trace, *, decay, scale):
    if trace is None:
        return scale * observation
    else:
        return decay * trace + scale * observation
