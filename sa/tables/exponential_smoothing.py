def spec(obs, level, *, alpha):
    if level is None:
        return obs
    else:
        return alpha * obs + (1 - alpha) * level
