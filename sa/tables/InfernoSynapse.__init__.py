def spec(self, shape, step_time, delay, batch_size, inplace):
    Synapse.__init__(self)
    BatchShapeMixin.__init__(self, shape, batch_size)
    DelayedMixin.__init__(self, step_time, delay)
    self.__inplace = bool(inplace)
