def spec(self, target=None, cells=None):
    for name, (cell, state, monitors) in zip(self.cells_, self):
        if cells is not None and name not in cells:
            continue
        if not cell.training or not self.training or (not cell.updater):
            continue
        if target is None:
            if state.target is None:
                raise RuntimeError("'target' must be non-None if no default is set")
            else:
                target = state.target
        k = cell.connection.postsyn_receptive((target - monitors['spike_rate'].peek()) / target).mean(dim=-1)
        if state.param == 'weight':
            k = k * state.plasticity
            cell.updater.weight = (state.batchreduce(k.clamp_min(0.0), 0), state.batchreduce(k.clamp_max(0.0), 0))
        elif state.param == 'bias':
            k = k * state.plasticity
            cell.updater.bias = (cell.connection.like_bias(state.batchreduce(k.clamp_min(0.0), 0)), cell.connection.like_bias(state.batchreduce(k.clamp_max(0.0), 0)))
        elif state.param == 'delay':
            k = k * -state.plasticity
            cell.updater.delay = (state.batchreduce(k.clamp_min(0.0), 0), state.batchreduce(k.clamp_max(0.0), 0))
        else:
            raise ValueError(f'''an invalid 'param' ("{state.param}") was set for cell with name "{name}"''')
