def spec(data, dim=None, keepdim=False, denom=1, **kwargs):
    return torch.nansum(data, dim, keepdim=keepdim) / denom
