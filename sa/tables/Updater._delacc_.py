@staticmethod
def spec(self, attr):
    del self.updates_[attr].pos
    del self.updates_[attr].neg
