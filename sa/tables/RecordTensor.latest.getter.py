@property
def spec(self):
    return self.peek()
