def spec(self, obs, state):
    if state is None:
        return torch.where(self.criterion(obs), 0, self.__initial_value).to(dtype=self.data.dtype)
    else:
        return torch.where(self.criterion(obs), 0, state + self.dt).to(dtype=self.data.dtype)
