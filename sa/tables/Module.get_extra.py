def spec(self, target):
    module_path, _, extra_name = target.rpartition('.')
    module = self.get_submodule(module_path)
    if not isinstance(module, Module):
        raise AttributeError(f'{module.__class__.__name__} is not an inferno Module')
    if not hasattr(module, extra_name):
        raise AttributeError(f"{module.__class__.__name__} has no attribute '{extra_name}'")
    extra = getattr(module, extra_name)
    if extra_name not in module._extras:
        raise AttributeError(f'`{extra_name}` is not an extra')
    return extra
