def spec(self, connection, neuron):
    if connection not in self.connections_:
        raise AttributeError(f"'connection' ('{connection}') is not a registered connection")
    elif neuron not in self.neurons_:
        raise AttributeError(f"'neuron' ('{neuron}') is not a registered neuron")
    else:
        if connection not in self.cells_:
            self.cells_[connection] = nn.ModuleDict()
        if neuron not in self.cells_[connection]:
            self.cells_[connection][neuron] = Cell(self, self.connections_[connection], self.neurons_[neuron], (connection, neuron))
        return self.cells_[connection][neuron]
