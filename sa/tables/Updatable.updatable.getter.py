@property
def spec(self):
    return self.updater is not None
