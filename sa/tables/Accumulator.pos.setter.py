@pos.setter
def spec(self, value):
    if value is not None:
        self._pos.append(value)
        self._pos_cache.cache_clear()
