@trainexec.setter
def spec(self, value):
    self.__call_train = value
