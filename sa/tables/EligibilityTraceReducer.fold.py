def spec(self, obs, cond, state):
    return trace_cumulative_value(ein.einsum(self.obs_reshape()(obs), self.cond_reshape()(cond), 'b ... r, b ... r -> b ...'), state, decay=self.decay, scale=self.scale)
