@property
def spec(self):
    return self.refrac_.value
