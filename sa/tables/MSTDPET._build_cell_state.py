def spec(self, **kwargs):
    state = Module()
    lr_post = kwargs.get('lr_post', self.lr_post)
    lr_pre = kwargs.get('lr_pre', self.lr_pre)
    tc_post = kwargs.get('tc_post', self.tc_post)
    tc_pre = kwargs.get('tc_pre', self.tc_pre)
    tc_eligibility = kwargs.get('tc_eligibility', self.tc_eligibility)
    interp_tolerance = kwargs.get('interp_tolerance', self.tolerance)
    trace_mode = kwargs.get('trace_mode', self.trace)
    batch_reduction = kwargs.get('batch_reduction', self.batchreduce)
    state.lr_post = float(lr_post)
    state.lr_pre = float(lr_pre)
    state.tc_post = argtest.gt('tc_post', tc_post, 0, float)
    state.tc_pre = argtest.gt('tc_pre', tc_pre, 0, float)
    state.tc_eligibility = argtest.gt('tc_eligibility', tc_eligibility, 0, float)
    state.tolerance = argtest.gte('interp_tolerance', interp_tolerance, 0, float)
    state.tracemode = argtest.oneof('trace_mode', trace_mode, 'cumulative', 'nearest', op=lambda x: x.lower())
    match state.tracemode:
        case 'cumulative':
            state.tracecls = CumulativeTraceReducer
        case 'nearest':
            state.tracecls = NearestTraceReducer
        case '_':
            raise RuntimeError(f"an invalid trace mode of '{state.tracemode}' has been set, expected one of: 'cumulative', 'nearest'")
    state.batchreduce = batch_reduction if batch_reduction is not None else torch.sum
    return state
