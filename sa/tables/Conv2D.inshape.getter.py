@property
def spec(self):
    return (self.channels, self.height, self.width)
