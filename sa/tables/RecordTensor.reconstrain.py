def spec(self, dim, size):
    if not self._ignore(self.__data):
        self.align()
    return ShapedTensor.reconstrain(self, dim + (dim >= 0), size)
