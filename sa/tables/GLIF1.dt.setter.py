@dt.setter
def spec(self, value):
    LIF.dt.fset(self, value)
