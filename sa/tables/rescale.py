def spec(data, resmin, resmax, *, srcmin=None, srcmax=None, dim=None):
    if srcmin is None:
        srcmin = torch.amin(data, dim=dim, keepdim=True)
    if srcmax is None:
        srcmax = torch.amax(data, dim=dim, keepdim=True)
    if resmin is None:
        resmin = srcmin
    if resmax is None:
        resmax = srcmax
    return resmin + (data - srcmin) * (resmax - resmin) / (srcmax - srcmin)
