def spec(self, keepshape=False, **kwargs):
    self._count = 0
    FoldReducer.clear(self, keepshape=keepshape, **kwargs)
