@property
def spec(self):
    return self.get_connection(self.__lateral_connection_name).updater
