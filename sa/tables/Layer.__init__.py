def spec(self):
    Module.__init__(self)
    self.connections_ = nn.ModuleDict()
    self.neurons_ = nn.ModuleDict()
    self.cells_ = nn.ModuleDict()
