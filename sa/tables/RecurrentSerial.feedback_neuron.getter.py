@property
def spec(self):
    return self.get_neuron(self.__feedback_neuron_name)
