def spec(self, clear_feedback=True, submodules=True, **kwargs):
    if clear_feedback:
        self.feedback_spikes = None
    if submodules:
        for connection in self.connections_.values():
            connection.clear(**kwargs)
        for neuron in self.neurons_.values():
            neuron.clear(**kwargs)
