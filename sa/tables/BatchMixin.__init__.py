def spec(self, batch_size):
    self.__batch_size = argtest.gt('batch_size', batch_size, 0, int)
    self.__constrained = set()
