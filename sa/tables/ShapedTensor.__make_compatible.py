@staticmethod
def spec(tensor, dim, size):
    if tensor.shape[dim] > size:
        slices = list(repeat(slice(None), times=tensor.ndim))
        slices[dim] = slice(tensor.shape[dim] - size, None)
        return tensor[*slices,]
    elif tensor.shape[dim] < size:
        shape = list(tensor.shape)
        shape[dim] = size - tensor.shape[dim]
        return torch.cat((zeros(tensor, shape=shape), tensor), dim)
    elif isinstance(tensor, nn.Parameter):
        return tensor.data
    else:
        return tensor
