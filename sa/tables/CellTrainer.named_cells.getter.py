@property
def spec(self):
    return ((n, (c, getattr(self.aux_states_, n, None))) for n, c in self.cells_.items())
