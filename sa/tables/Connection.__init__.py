def spec(self, synapse):
    Module.__init__(self)
    Updatable.__init__(self)
    self.register_module('synapse_', synapse)
