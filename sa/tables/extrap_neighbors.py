def spec(sample, sample_at, prev_data, next_data, step_time, **kwargs):
    return (sample, sample)
