def spec(self, tensor):
    return _constraints_compatible(tensor, self.__constraints, self.__strict)
