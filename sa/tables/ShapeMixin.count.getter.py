@property
def spec(self):
    return math.prod(self.__shape)
