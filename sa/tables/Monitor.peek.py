def spec(self, *args, **kwargs):
    return self.reducer_.peek(*args, **kwargs)
