@property
def spec(self):
    return self.neuron.voltage
