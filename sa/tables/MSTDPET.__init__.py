def spec(self, lr_post, lr_pre, tc_post, tc_pre, tc_eligibility, interp_tolerance=0.0, trace_mode='cumulative', batch_reduction=None, **kwargs):
    IndependentCellTrainer.__init__(self, **kwargs)
    self.lr_post = float(lr_post)
    self.lr_pre = float(lr_pre)
    self.tc_post = argtest.gt('tc_post', tc_post, 0, float)
    self.tc_pre = argtest.gt('tc_pre', tc_pre, 0, float)
    self.tc_eligibility = argtest.gt('tc_eligibility', tc_eligibility, 0, float)
    self.tolerance = argtest.gte('interp_tolerance', interp_tolerance, 0, float)
    self.trace = argtest.oneof('trace_mode', trace_mode, 'cumulative', 'nearest', op=lambda x: x.lower())
    self.batchreduce = batch_reduction if batch_reduction else torch.sum
