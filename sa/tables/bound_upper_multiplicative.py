def spec(param, update, limit, **kwargs):
    return (limit - param) * update
