def spec(prev_data, next_data, sample_at, step_time, **kwargs):
    return torch.where(sample_at / step_time > 0.5, next_data, prev_data)
