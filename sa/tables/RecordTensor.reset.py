def spec(self, fill=0):
    data = self.__data
    if fill is not None:
        if not self._ignore(data):
            assert data is not None
            with torch.no_grad():
                data.fill_(fill)
        self.__pointer = 0
    else:
        self.align(0)
