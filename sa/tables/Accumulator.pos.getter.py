@property
def spec(self):
    return self._pos_cache()
