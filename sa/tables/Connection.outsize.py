def spec(self):
    return math.prod(self.outshape)
