def spec(self, **kwargs):
    LIF.clear(self, **kwargs)
