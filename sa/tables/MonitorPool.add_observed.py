def spec(self, name, value):
    if name in self.observed_:
        raise RuntimeError(f"'name' ('{name}') is already a registered observable")
    elif name in self.monitors_:
        raise RuntimeError(f"name ('{name}') was a registered observable and never deleted, call 'del_observed' first")
    else:
        self.observed_[name] = value
    return value
