@property
def spec(self):
    return self.__compensate_freq
