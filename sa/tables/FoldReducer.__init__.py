def spec(self, step_time, duration, inclusive=False, inplace=False, fill=0):
    RecordReducer.__init__(self, step_time, duration, inclusive, inplace)
    RecordTensor.create(self, 'data_', self.dt, self.duration, torch.empty(0), persist_data=True, persist_constraints=False, persist_temporal=False, strict=True, live=False, inclusive=inclusive)
    self.add_record('data_')
    self.register_extra('_initial', True)
    self.__fill = fill
