def spec(self, *inputs, **kwargs):
    self.spike = inputs[0].bool()
    self.current = sum((inputs[0] * (self.spike_charge / self.dt), *inputs[1:]))
    return self.current
