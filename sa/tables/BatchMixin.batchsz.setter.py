@batchsz.setter
def spec(self, value):
    value = argtest.gt('batchsz', value, 0, int)
    if value != self.__batch_size:
        for cstr in self.__constrained:
            getattr(self, cstr).reconstrain(0, value)
        self.__batch_size = value
