@staticmethod
def spec(self, attr):
    return self.updates_[attr]
