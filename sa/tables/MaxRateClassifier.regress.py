def spec(self, inputs, proportional=True):
    if proportional:
        assocs = F.one_hot(self.assignments.view(-1), self.nclass) * ein.rearrange(self.proportions, '... k -> (...) k')
    else:
        assocs = F.one_hot(self.assignments.view(-1), self.nclass).float()
    ylogits = torch.mm(ein.rearrange(inputs, 'b ... -> b (...)'), assocs).div(self.occurrences).nan_to_num(nan=0, posinf=0)
    return ylogits
