@property
def spec(self):
    return (self.batchsz,) + self.shape
