def spec(self, owner, name, materializer, dtype=None, device=None, persist=False):
    _ = argtest.identifier('name', name)
    self.__owner = weakref.ref(owner)
    self.__name = name
    self.__finalizer = weakref.finalize(self, _virtualtensor_finalization, self.__owner, self.__name)
    if isinstance(materializer, str):
        if not hasattr(owner, materializer):
            raise AttributeError(f"'owner' has no attribute '{materializer}'")
        elif not isinstance(getattr(owner, materializer), MethodType):
            raise TypeError(f"attribute '{materializer}' in 'owner' must be a method")
        else:
            self.__materializer = weakref.WeakMethod(getattr(owner, materializer))
    else:
        self.__materializer = materializer
    self.__attributes = VirtualTensor.LinkedAttributes(f'_{self.__name}_ref')
    if isinstance(owner, nn.Module):
        owner.register_buffer(self.__attributes.ref, torch.empty(0, dtype=dtype, device=device), persistent=persist)
    else:
        setattr(owner, self.__attributes.ref, torch.empty(0, dtype=dtype, device=device))
