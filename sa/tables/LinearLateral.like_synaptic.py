def spec(self, data):
    return LinearDense.like_synaptic(self, data)
