def spec(diff, learning_rate, time_constant, **kwargs):
    return torch.exp(diff.abs() / -time_constant) * (learning_rate * (diff >= 0).to(dtype=diff.dtype))
