def spec(self, data):
    return ein.rearrange(data, 'n 1 -> n')
