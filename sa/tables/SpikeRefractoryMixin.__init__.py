def spec(self, refrac, absrefrac):
    RefractoryMixin.__init__(self, refrac)
    self.__absrefrac_attr = absrefrac
