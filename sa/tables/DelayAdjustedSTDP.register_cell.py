def spec(self, name, cell, /, **kwargs):
    cell, state = self.add_cell(name, cell, self._build_cell_state(**kwargs), ['weight'])
    monitor_kwargs = {'as_prehook': False, 'train_update': True, 'eval_update': False, 'prepend': True}
    self.add_monitor(name, 'spike_post', 'neuron.spike', StateMonitor.partialconstructor(reducer=EventReducer(cell.connection.dt, lambda x: x.bool(), initial='nan', duration=0.0, inclusive=True, inplace=state.inplace), **monitor_kwargs), False, dt=cell.connection.dt, inplace=state.inplace)
    self.add_monitor(name, 'spike_pre', 'synapse.spike', StateMonitor.partialconstructor(reducer=EventReducer(cell.connection.dt, lambda x: x.bool(), initial='nan', duration=0.0, inclusive=True, inplace=state.inplace), **monitor_kwargs), False, dt=cell.connection.dt, inplace=state.inplace)
    return self.get_unit(name)
