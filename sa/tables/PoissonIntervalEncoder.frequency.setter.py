@frequency.setter
def spec(self, value):
    self.__frequency_scale = argtest.gte('frequency', value, 0, float)
