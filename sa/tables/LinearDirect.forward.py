def spec(self, *inputs, **kwargs):
    res = self.synapse(*(self.like_synaptic(inp) for inp in inputs), **kwargs)
    if self.delayedby:
        res = ein.rearrange(self.syncurrent, 'b n 1 -> b n')
    if self.biased:
        res = res * self.weight + self.bias
    else:
        res = res * self.weight
    return res.view(-1, *self.outshape)
