def spec(*values, conversion=None):
    ref = None
    for val in values:
        if isinstance(val, torch.Tensor):
            ref = val
            break
    if ref is None:
        if conversion is None:
            conversion = lambda x: torch.tensor(x)
        cf = conversion
    else:
        conversion = lambda x: scalar(x, ref)
        cf = lambda x: x if isinstance(x, torch.Tensor) else conversion(x)
    if len(values) == 1:
        return cf(values[0])
    else:
        return tuple(map(cf, values))
