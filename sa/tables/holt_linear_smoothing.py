def spec(obs, level, trend, *, alpha, beta):
    if level is None:
        return (obs, None)
    if trend is None:
        trend = obs - level
    s = exponential_smoothing(obs, level + trend, alpha=alpha)
    b = exponential_smoothing(s - level, trend, alpha=beta)
    return (s, b)
