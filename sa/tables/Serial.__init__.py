def spec(self, connection, neuron, transform=None, connection_name='serial', neuron_name='serial'):
    Layer.__init__(self)
    self.__connection_name = connection_name
    self.__neuron_name = neuron_name
    Layer.add_connection(self, self.__connection_name, connection)
    Layer.add_neuron(self, self.__neuron_name, neuron)
    _ = Layer.add_cell(self, self.__connection_name, self.__neuron_name)
    if transform:
        self._transform = transform
    else:

        def transfn(tensor, **kwargs):
            return tensor
        self._transform = transfn
