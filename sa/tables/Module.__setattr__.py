def spec(self, name, value):
    descriptor = getattr(type(self), name, None)
    if isinstance(descriptor, property) or hasattr(descriptor, '__get__') or hasattr(descriptor, '__set__') or hasattr(descriptor, '__delete__'):
        descriptor.__set__(self, value)
    else:
        _extras = self.__dict__.get('_extras')
        if _extras is not None and name in _extras:
            _extras[name] = value
        else:
            super().__setattr__(name, value)
