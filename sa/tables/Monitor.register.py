def spec(self, module=None):
    if module:
        try:
            ContextualHook.register(self, module)
        except RuntimeError:
            raise RuntimeError(f'{type(self).__name__}(Monitor) is already registered to a module so register() was ignored')
        else:
            self._observed = weakref.ref(module)
    elif not self.registered:
        if self._observed and self._observed():
            module = self._observed()
            ContextualHook.register(self, module)
        else:
            raise RuntimeError("weak reference to monitored module does not exist, cannot infer argument 'module'")
