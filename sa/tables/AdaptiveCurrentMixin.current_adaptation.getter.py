@property
def spec(self):
    return self.current_adaptation_
