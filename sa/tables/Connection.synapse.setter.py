@synapse.setter
def spec(self, value):
    self.synapse_ = value
