@property
def spec(self):
    return self.__ref.dtype
