@__data.setter
def spec(self, value):
    data = self.__data
    if isinstance(data, nn.Parameter) and isinstance(value, torch.Tensor) and (not isinstance(value, nn.Parameter | nn.UninitializedBuffer)):
        data.data = value
    else:
        setattr(self.__owner(), self.__attributes.data, value)
