"""einops pattern algebra (DESIGN 2.5): parse patterns, check well-formedness, expose axis structure."""
from __future__ import annotations

import re

_TOK = re.compile(r"[A-Za-z_][A-Za-z0-9_]*|\.\.\.|…|\(|\)|\d+")


class Side:
    """One side of a pattern: list of groups; a group is a list of axis names ('...' allowed,
    '1' = unit axis)."""

    def __init__(self, text: str):
        self.text = text.strip()
        self.groups: list[list[str]] = []
        cur = None
        for t in _TOK.findall(text):
            if t == "(":
                if cur is not None:
                    raise ValueError("nested parenthesis")
                cur = []
            elif t == ")":
                if cur is None:
                    raise ValueError("unbalanced parenthesis")
                self.groups.append(cur)
                cur = None
            else:
                if t == "…":
                    t = "..."
                if cur is not None:
                    cur.append(t)
                else:
                    self.groups.append([t])
        if cur is not None:
            raise ValueError("unbalanced parenthesis")

    @property
    def axes(self) -> list[str]:
        return [a for g in self.groups for a in g if not a.isdigit()]

    @property
    def names(self) -> set:
        return set(self.axes)

    def position(self, axis: str):
        """Index of the group containing axis (None if absent); composite flag."""
        for i, g in enumerate(self.groups):
            if axis in g:
                return i, len([a for a in g if not a.isdigit()]) > 1
        return None


class Pattern:
    def __init__(self, text: str):
        if "->" not in text:
            raise ValueError("no '->'")
        l, r = text.split("->")
        self.inputs = [Side(x) for x in l.split(",")]
        self.output = Side(r)

    @property
    def lnames(self):
        s = set()
        for i in self.inputs:
            s |= i.names
        return s


def wellformed(op: str, pat: str, kwargs: set, noperands: int) -> list[str]:
    msgs = []
    try:
        p = Pattern(pat)
    except ValueError as e:
        return [f"malformed pattern: {e}"]
    L, R = p.lnames, p.output.names
    for side in p.inputs + [p.output]:
        ax = side.axes
        dup = {a for a in ax if ax.count(a) > 1 and a != "..."}
        if dup and op != "einsum":
            msgs.append(f"axis repeated on one side: {sorted(dup)}")
    if op == "rearrange":
        if L != R:
            if L - R:
                msgs.append(f"axes only on the left: {sorted(L - R)}")
            if R - L:
                msgs.append(f"axes only on the right: {sorted(R - L)}")
        if not kwargs <= (L | R):
            msgs.append(f"axis-length keywords name no axis: {sorted(kwargs - (L | R))}")
    elif op == "einsum":
        if not R <= L:
            msgs.append(f"output axes not among inputs: {sorted(R - L)}")
        if noperands != len(p.inputs):
            msgs.append(f"{noperands} operands for {len(p.inputs)} input patterns")
    elif op == "reduce":
        if not R <= L | kwargs:
            msgs.append(f"output axes not among inputs: {sorted(R - L)}")
    elif op == "repeat":
        if not L <= R:
            msgs.append(f"input axes dropped: {sorted(L - R)}")
        new = R - L
        if not new <= kwargs:
            msgs.append(f"new axes without a length: {sorted(new - kwargs)}")
    return msgs
