"""Program model: loader, import resolution, classes, MRO, properties, attribute universes.

Pure standard library.  Nothing here imports or executes repository code: every fact is
read off the syntax trees of ``<root>/inferno/**/*.py``.
"""
from __future__ import annotations

import ast
import hashlib
import os
import pathlib
from dataclasses import dataclass, field


from . import alpha


class AnalysisError(Exception):
    """The analysis cannot be carried out (vanished anchor, parse error, unclassified op)."""


MIN_FILES, MIN_CLASSES, MIN_FUNCS = 60, 110, 900


@dataclass
class Module:
    name: str
    path: pathlib.Path
    rel: str
    src: str
    tree: ast.Module
    is_pkg: bool
    defs: dict = field(default_factory=dict)      # top-level name -> node
    imports: dict = field(default_factory=dict)   # local name -> (module, orig|None)
    star: list = field(default_factory=list)      # modules imported with *


@dataclass(eq=False)
class Func:
    name: str
    node: ast.FunctionDef
    module: Module
    cls: "ClassInfo | None" = None
    kind: str = "function"   # function | method | getter | setter | deleter | static | class
    prop: str | None = None

    @property
    def short(self) -> str:
        base = f"{self.cls.name}.{self.name}" if self.cls else self.name
        if self.kind in ("setter", "deleter"):
            return f"{base}.{self.kind}"
        return base

    @property
    def qual(self) -> str:
        return f"{self.module.name}.{self.short}"

    @property
    def where(self) -> str:
        return f"{self.module.rel}:{self.node.lineno}"

    def params(self, skip_self: bool = True) -> list[str]:
        a = self.node.args
        names = [x.arg for x in a.posonlyargs + a.args]
        if skip_self and self.cls is not None and self.kind not in ("static",) and names:
            names = names[1:]
        return names

    def __repr__(self):
        return f"<Func {self.short}>"


@dataclass(eq=False)
class ClassInfo:
    name: str
    node: ast.ClassDef
    module: Module
    base_exprs: list = field(default_factory=list)
    bases: list = field(default_factory=list)     # ClassInfo | str (external dotted)
    mro: list = field(default_factory=list)       # ClassInfo only (externals dropped)
    ext_bases: set = field(default_factory=set)   # external dotted names anywhere in the mro
    methods: dict = field(default_factory=dict)   # name -> Func (plain methods only)
    props: dict = field(default_factory=dict)     # name -> {'get':Func,'set':Func,'del':Func}
    classattrs: dict = field(default_factory=dict)  # name -> value node

    def __repr__(self):
        return f"<Class {self.name}>"

    # ---- lookups through the MRO -------------------------------------------------
    def find_method(self, name: str):
        for c in self.mro:
            if name in c.methods:
                return c.methods[name]
        return None

    def find_prop(self, name: str, which: str = "get"):
        """Python semantics: the *first* class in the MRO that defines property `name`
        wins as a whole (a getter-only override hides the base setter)."""
        for c in self.mro:
            if name in c.props:
                return c.props[name].get(which)
            if name in c.methods or name in c.classattrs:
                return None
        return None

    def prop_owner(self, name: str):
        for c in self.mro:
            if name in c.props:
                return c
            if name in c.methods or name in c.classattrs:
                return None
        return None

    def is_subclass_of(self, other: str) -> bool:
        return any(c.name == other for c in self.mro) or other in self.ext_bases

    def all_funcs(self):
        for f in self.methods.values():
            yield f
        for p in self.props.values():
            for f in p.values():
                yield f

    def mangle(self, attr: str) -> str:
        if attr.startswith("__") and not attr.endswith("__"):
            return f"_{self.name.lstrip('_')}{attr}"
        return attr


class Program:
    def __init__(self, root: str, min_files: int | None = None):
        self.root = pathlib.Path(root)
        self.pkg = self.root / "inferno"
        if not self.pkg.is_dir():
            raise AnalysisError(f"package directory not found: {self.pkg}")
        self.modules: dict[str, Module] = {}
        self.classes: dict[str, ClassInfo] = {}       # by simple name (last definition wins; dup list kept)
        self.class_dups: dict[str, list] = {}
        self.funcs: list[Func] = []
        self._by_short: dict[str, list[Func]] = {}
        self._enclosing: dict[int, Func] = {}
        self._min_files = min_files
        self._load()
        self._index()
        self._link_classes()
        self.digest = hashlib.sha256(
            "".join(m.src for _, m in sorted(self.modules.items())).encode()
        ).hexdigest()[:16]

    # ------------------------------------------------------------------ loading
    def _load(self):
        files = sorted(self.pkg.rglob("*.py"))
        for f in files:
            rel = f.relative_to(self.root)
            parts = list(rel.with_suffix("").parts)
            is_pkg = parts[-1] == "__init__"
            if is_pkg:
                parts = parts[:-1]
            name = ".".join(parts)
            src = f.read_text()
            try:
                tree = ast.parse(src, filename=str(f))
            except SyntaxError as e:
                raise AnalysisError(f"parse error in {rel}: {e}") from e
            if self._min_files is None:
                from . import unextract
                self.n_unextracted = getattr(self, "n_unextracted", 0) + unextract.normalise(tree, str(rel))
            self.n_alpha_renames = getattr(self, "n_alpha_renames", 0) + alpha.normalise(tree, str(rel))
            self.modules[name] = Module(name, f, str(rel), src, tree, is_pkg)
        if len(self.modules) < (MIN_FILES if self._min_files is None else self._min_files):
            raise AnalysisError(f"only {len(self.modules)} modules parsed (< {MIN_FILES})")

    def _index(self):
        for m in self.modules.values():
            base = m.name if m.is_pkg else m.name.rsplit(".", 1)[0]
            for n in self._toplevel(m.tree.body):
                if isinstance(n, (ast.FunctionDef, ast.ClassDef)):
                    m.defs[n.name] = n
                elif isinstance(n, ast.Assign):
                    for t in n.targets:
                        if isinstance(t, ast.Name):
                            m.defs.setdefault(t.id, n)
                elif isinstance(n, ast.ImportFrom):
                    if n.level:
                        b = base.split(".")
                        b = b[: len(b) - (n.level - 1)]
                        tgt = ".".join(b + ([n.module] if n.module else []))
                    else:
                        tgt = n.module or ""
                    for a in n.names:
                        if a.name == "*":
                            m.star.append(tgt)
                        else:
                            m.imports[a.asname or a.name] = (tgt, a.name)
                elif isinstance(n, ast.Import):
                    for a in n.names:
                        if a.asname:
                            m.imports[a.asname] = (a.name, None)
                        else:
                            m.imports[a.name.split(".")[0]] = (a.name.split(".")[0], None)
        nfun = 0
        for m in self.modules.values():
            for n in m.tree.body:
                if isinstance(n, ast.FunctionDef):
                    self._add_func(Func(n.name, n, m))
                elif isinstance(n, ast.ClassDef):
                    self._add_class(n, m)
            nfun += sum(isinstance(x, (ast.FunctionDef, ast.AsyncFunctionDef)) for x in ast.walk(m.tree))
        ncls = len(self.classes) + sum(len(v) - 1 for v in self.class_dups.values())
        if self._min_files is None and (ncls < MIN_CLASSES or nfun < MIN_FUNCS):
            raise AnalysisError(
                f"program model too small: {ncls} classes (< {MIN_CLASSES}) or {nfun} functions (< {MIN_FUNCS})"
            )
        self.n_functions = nfun

    @staticmethod
    def _toplevel(body):
        for n in body:
            if isinstance(n, ast.If):  # e.g. TYPE_CHECKING blocks
                yield from Program._toplevel(n.body)
                yield from Program._toplevel(n.orelse)
            elif isinstance(n, ast.Try):
                yield from Program._toplevel(n.body)
            else:
                yield n

    def _add_func(self, f: Func):
        self.funcs.append(f)
        self._by_short.setdefault(f.short, []).append(f)
        for n in ast.walk(f.node):
            self._enclosing.setdefault(id(n), f)

    def _add_class(self, node: ast.ClassDef, m: Module):
        ci = ClassInfo(node.name, node, m, base_exprs=list(node.bases))
        if node.name in self.classes:
            self.class_dups.setdefault(node.name, [self.classes[node.name]]).append(ci)
        self.classes[node.name] = ci
        for n in node.body:
            if isinstance(n, ast.FunctionDef):
                decs = [ast.unparse(d) for d in n.decorator_list]
                kind, prop = "method", None
                if "property" in decs or any(d.endswith("cached_property") for d in decs):
                    kind, prop = "getter", n.name
                elif "staticmethod" in decs:
                    kind = "static"
                elif "classmethod" in decs:
                    kind = "class"
                for d in decs:
                    if d.endswith(".setter"):
                        kind, prop = "setter", d[: -len(".setter")]
                    elif d.endswith(".deleter"):
                        kind, prop = "deleter", d[: -len(".deleter")]
                    elif d.endswith(".getter"):
                        kind, prop = "getter", d[: -len(".getter")]
                f = Func(n.name, n, m, ci, kind, prop)
                if kind in ("getter", "setter", "deleter"):
                    ci.props.setdefault(prop, {})[{"getter": "get", "setter": "set", "deleter": "del"}[kind]] = f
                else:
                    ci.methods[n.name] = f
                self._add_func(f)
            elif isinstance(n, ast.Assign):
                for t in n.targets:
                    if isinstance(t, ast.Name):
                        ci.classattrs[t.id] = n.value
            elif isinstance(n, ast.AnnAssign) and isinstance(n.target, ast.Name):
                ci.classattrs[n.target.id] = n.value

    # ------------------------------------------------------------------ resolution
    def resolve(self, modname: str, name: str, depth: int = 0):
        """Resolve a top-level `name` as seen from module `modname`.

        Returns ('func', Func) | ('class', ClassInfo) | ('module', dotted) | ('ext', dotted) | None.
        """
        if depth > 12:
            return None
        m = self.modules.get(modname)
        if m is None:
            return ("ext", f"{modname}.{name}") if modname else None
        if name in m.defs:
            n = m.defs[name]
            if isinstance(n, ast.FunctionDef):
                for f in self._by_short.get(name, []):
                    if f.node is n:
                        return ("func", f)
            if isinstance(n, ast.ClassDef):
                ci = self.classes.get(name)
                if ci is not None and ci.node is n:
                    return ("class", ci)
                for c in self.class_dups.get(name, []):
                    if c.node is n:
                        return ("class", c)
            if isinstance(n, ast.Assign):
                return ("var", (m, n))
        if name in m.imports:
            tgt, orig = m.imports[name]
            if orig is None:
                return ("module", tgt)
            if f"{tgt}.{orig}" in self.modules:
                return ("module", f"{tgt}.{orig}")
            if tgt in self.modules:
                return self.resolve(tgt, orig, depth + 1)
            return ("ext", f"{tgt}.{orig}")
        for s in m.star:
            r = self.resolve(s, name, depth + 1)
            if r and r[0] != "ext":
                return r
        return None

    def resolve_expr(self, modname: str, e: ast.AST):
        """Resolve a Name / dotted Attribute chain to a repo definition or external dotted name."""
        if isinstance(e, ast.Name):
            return self.resolve(modname, e.id)
        if isinstance(e, ast.Attribute):
            base = self.resolve_expr(modname, e.value)
            if base is None:
                return None
            k, v = base
            if k == "module":
                if v in self.modules:
                    r = self.resolve(v, e.attr)
                    if r:
                        return r
                    if f"{v}.{e.attr}" in self.modules:
                        return ("module", f"{v}.{e.attr}")
                    return None
                return ("ext", f"{v}.{e.attr}")
            if k == "ext":
                return ("ext", f"{v}.{e.attr}")
            if k == "class":
                f = v.find_method(e.attr)
                if f:
                    return ("func", f)
                if v.prop_owner(e.attr):
                    return ("prop", (v, e.attr))
                return None
        if isinstance(e, ast.Subscript):  # Generic[...] etc.
            return self.resolve_expr(modname, e.value)
        return None

    def _link_classes(self):
        allc = list(self.classes.values())
        for dl in self.class_dups.values():
            for c in dl:
                if c not in allc:
                    allc.append(c)
        self.all_classes = allc
        for c in allc:
            for b in c.base_exprs:
                r = self.resolve_expr(c.module.name, b)
                if r and r[0] == "class":
                    c.bases.append(r[1])
                elif r and r[0] == "ext":
                    c.bases.append(r[1])
                else:
                    c.bases.append(ast.unparse(b))
        memo = {}

        def lin(c, stack=()):
            if id(c) in memo:
                return memo[id(c)]
            if c in stack:
                raise AnalysisError(f"inheritance cycle at {c.name}")
            seqs = []
            for b in c.bases:
                if isinstance(b, ClassInfo):
                    seqs.append(list(lin(b, stack + (c,))))
            seqs.append([b for b in c.bases if isinstance(b, ClassInfo)])
            out = [c]
            seqs = [s for s in seqs if s]
            while seqs:
                for s in seqs:
                    h = s[0]
                    if not any(h in t[1:] for t in seqs):
                        break
                else:
                    raise AnalysisError(f"inconsistent MRO for {c.name}")
                out.append(h)
                seqs = [[x for x in s if x is not h] for s in seqs]
                seqs = [s for s in seqs if s]
            memo[id(c)] = out
            return out

        for c in allc:
            c.mro = lin(c)
            for k in c.mro:
                for b in k.bases:
                    if not isinstance(b, ClassInfo):
                        c.ext_bases.add(b)
        self.subclasses: dict[str, list[ClassInfo]] = {}
        for c in allc:
            for k in c.mro[1:]:
                self.subclasses.setdefault(k.name, []).append(c)

    # ------------------------------------------------------------------ queries
    def cls(self, name: str) -> ClassInfo:
        c = self.classes.get(name)
        if c is None:
            raise AnalysisError(f"anchor vanished: class {name}")
        return c

    def cls_in(self, name: str, modsuffix: str) -> ClassInfo:
        for c in self.all_classes:
            if c.name == name and c.module.name.endswith(modsuffix):
                return c
        raise AnalysisError(f"anchor vanished: class {name} in {modsuffix}")

    def fn(self, short: str, module: str | None = None) -> Func:
        """`short` is 'func', 'Class.method', 'Class.prop' (getter), 'Class.prop.setter'."""
        cands = self._by_short.get(short, [])
        if module:
            cands = [f for f in cands if f.module.name.endswith(module)]
        if not cands:
            # inherited?
            parts = short.split(".")
            if len(parts) >= 2 and parts[0] in self.classes:
                c = self.classes[parts[0]]
                if len(parts) == 2:
                    f = c.find_method(parts[1]) or c.find_prop(parts[1], "get")
                    if f:
                        return f
                elif len(parts) == 3 and parts[2] in ("setter", "deleter"):
                    f = c.find_prop(parts[1], "set" if parts[2] == "setter" else "del")
                    if f:
                        return f
            raise AnalysisError(f"anchor vanished: function {short}" + (f" in {module}" if module else ""))
        if len(cands) > 1:
            raise AnalysisError(f"ambiguous anchor: function {short} ({[f.qual for f in cands]})")
        return cands[0]

    def has_fn(self, short: str) -> bool:
        try:
            self.fn(short)
            return True
        except AnalysisError:
            return False

    def module(self, suffix: str) -> Module:
        for n, m in self.modules.items():
            if n == suffix or n.endswith("." + suffix):
                return m
        raise AnalysisError(f"anchor vanished: module {suffix}")

    def enclosing(self, node: ast.AST) -> Func | None:
        return self._enclosing.get(id(node))

    def module_funcs(self, suffix: str) -> list[Func]:
        m = self.module(suffix)
        return [f for f in self.funcs if f.module is m]

    def loc(self, f: Func | Module, node: ast.AST) -> str:
        m = f.module if isinstance(f, Func) else f
        return f"{m.rel}:{getattr(node, 'lineno', 0)}"

    # ------------------------------------------------------------------ calls
    def resolve_call(self, f: Func, call: ast.Call):
        """Resolve the callee of `call` occurring in `f`.

        Returns (Func, bound) where bound says whether the first parameter (self/cls) is
        already supplied, or None when the callee is not a certain repo definition.
        """
        fn = call.func
        modname = f.module.name
        if isinstance(fn, ast.Name):
            r = self.resolve(modname, fn.id)
            if r is None:
                return None
            if r[0] == "func":
                return (r[1], False)
            if r[0] == "class":
                init = r[1].find_method("__init__")
                if init:
                    return (init, True)
            return None
        if isinstance(fn, ast.Attribute):
            v = fn.value
            # self.method(...)
            if isinstance(v, ast.Name) and v.id in ("self", "cls") and f.cls is not None and f.kind != "static":
                m = f.cls.find_method(fn.attr)
                if m:
                    return (m, m.kind != "static")
                return None
            # super().method(...)
            if (
                isinstance(v, ast.Call)
                and isinstance(v.func, ast.Name)
                and v.func.id == "super"
                and f.cls is not None
            ):
                for c in f.cls.mro[1:]:
                    if fn.attr in c.methods:
                        return (c.methods[fn.attr], True)
                return None
            r = self.resolve_expr(modname, fn)
            if r is None:
                return None
            if r[0] == "func":
                fu = r[1]
                if fu.cls is not None:
                    # Class.method(self, ...) explicit receiver unless static/class
                    return (fu, fu.kind == "class")
                return (fu, False)
            if r[0] == "class":
                init = r[1].find_method("__init__")
                if init:
                    return (init, True)
        return None

    def calls_in(self, f: Func):
        for n in walk_own(f.node):
            if isinstance(n, ast.Call):
                yield n


# ---------------------------------------------------------------------- helpers
def walk_own(fnode: ast.AST):
    """Walk a function body without descending into nested defs/classes (lambdas are kept)."""
    stack = list(ast.iter_child_nodes(fnode))
    while stack:
        n = stack.pop()
        yield n
        if isinstance(n, (ast.FunctionDef, ast.AsyncFunctionDef, ast.ClassDef)):
            continue
        stack.extend(ast.iter_child_nodes(n))


def walk_ordered(node: ast.AST):
    """Pre-order, source order walk (ast.walk is BFS)."""
    yield node
    for ch in ast.iter_child_nodes(node):
        yield from walk_ordered(ch)


def is_self_attr(n: ast.AST, attr: str | None = None) -> bool:
    return (
        isinstance(n, ast.Attribute)
        and isinstance(n.value, ast.Name)
        and n.value.id == "self"
        and (attr is None or n.attr == attr)
    )


def dotted(n: ast.AST) -> str | None:
    if isinstance(n, ast.Name):
        return n.id
    if isinstance(n, ast.Attribute):
        b = dotted(n.value)
        return None if b is None else f"{b}.{n.attr}"
    return None


def call_name(c: ast.Call) -> str | None:
    return dotted(c.func)


def strip_doc(body: list[ast.stmt]) -> list[ast.stmt]:
    if body and isinstance(body[0], ast.Expr) and isinstance(body[0].value, ast.Constant) and isinstance(body[0].value.value, str):
        return body[1:]
    return body


def stmt_digest(node: ast.AST) -> str:
    """Digest of the normalised statement text (line numbers / formatting independent)."""
    return hashlib.sha256(ast.unparse(node).encode()).hexdigest()[:12]


def kwarg(call: ast.Call, name: str, pos: int | None = None):
    for k in call.keywords:
        if k.arg == name:
            return k.value
    if pos is not None and len(call.args) > pos and not any(isinstance(a, ast.Starred) for a in call.args[: pos + 1]):
        return call.args[pos]
    return None


def default_root() -> str:
    return os.environ.get("SA_ROOT", "/repo")
