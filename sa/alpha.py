"""Reference-guided alpha-normalisation of local variable names.

The rules of sa/props name a few local variables of the analysed functions (``data``, ``ptr``, ``t_delta`` ...) because that
is how the repository's own code reads.  A rename of a *local* variable is a behaviour-preserving edit, so before the rules
run every function is alpha-renamed back to the names of the reference tree: each local gets a digest of its defining
expression in which other locals are replaced by *their* digests (so the digest does not depend on any local's spelling);
a local whose digest equals that of a reference local is renamed to the reference name.  Locals whose definition changed
keep their current name.  The reference table (sa/reference_locals.json) is generated from /repo by
``python3 -I sa/alpha.py --build`` and committed; it is only a naming aid: no rule reads it.
"""
from __future__ import annotations

import ast
import hashlib
import json
import os
import sys

HERE = os.path.dirname(os.path.abspath(__file__))
TABLE = os.path.join(HERE, "reference_locals.json")
SHAPES = os.path.join(HERE, "reference_shapes.json")

# ---- orientation of comparisons and of two-armed conditionals
# `a < b` / `b > a`, `if c: A else: B` / `if not c: B else: A` and `x if c else y` / `y if not c else x` are the same program.
# Digests are computed on a fixed orientation; before the rules run each function is put back into the orientation the
# reference tree uses (only these always-equivalent rewrites are applied; a comparison that is not the exact mirror image
# of a reference comparison is left as written, so a genuinely changed operator or operand order still reaches the rules).
_MIRROR = {ast.Lt: ast.Gt, ast.Gt: ast.Lt, ast.LtE: ast.GtE, ast.GtE: ast.LtE, ast.Eq: ast.Eq, ast.NotEq: ast.NotEq}


def _mirror(n: ast.Compare):
    n.left, n.comparators[0] = n.comparators[0], n.left
    n.ops[0] = _MIRROR[type(n.ops[0])]()


def _mirrorable(n):
    return isinstance(n, ast.Compare) and len(n.ops) == 1 and type(n.ops[0]) in _MIRROR


def _strip_not(t):
    return t.operand if isinstance(t, ast.UnaryOp) and isinstance(t.op, ast.Not) else None


def canon_expr(e):
    """Copy of e in a fixed orientation (used for digests only)."""
    import copy
    e = copy.deepcopy(e)
    for n in ast.walk(e):
        if _mirrorable(n):
            if isinstance(n.ops[0], (ast.Gt, ast.GtE)) or (isinstance(n.ops[0], (ast.Eq, ast.NotEq)) and ast.unparse(n.left) > ast.unparse(n.comparators[0])):
                _mirror(n)
    for n in ast.walk(e):
        if isinstance(n, ast.IfExp) and _strip_not(n.test) is not None:
            n.test = _strip_not(n.test)
            n.body, n.orelse = n.orelse, n.body
    return e


def shapes_of(fn) -> dict:
    cmps = sorted({ast.unparse(n) for n in ast.walk(fn) if _mirrorable(n)})
    tests = sorted({ast.unparse(n.test) for n in ast.walk(fn) if isinstance(n, (ast.If, ast.IfExp))})
    return {"cmp": cmps, "tests": tests, "locals": sorted(_locals(fn))}


# ---- temporaries that the reference tree does not have
# `t = E; return t` (or any simple statement using t once, right after) is the same program as `return E`.  A local that
# the reference function does not have, and all of whose uses are such adjacent single uses, is inlined again before the
# rules run; locals of the reference tree are never touched.
_SIMPLE = (ast.Return, ast.Assign, ast.AugAssign, ast.AnnAssign, ast.Expr, ast.Raise, ast.Assert, ast.Delete)


def _blocks(fn):
    for n in ast.walk(fn):
        for field in ("body", "orelse", "finalbody"):
            b = getattr(n, field, None)
            if isinstance(b, list) and b and isinstance(b[0], ast.stmt):
                yield b


def _header_loads(st, name):
    """Load nodes of `name` evaluated exactly once when st starts; None if the name also occurs where that is not certain."""
    if isinstance(st, _SIMPLE):
        roots = [st]
    elif isinstance(st, ast.If):
        roots = [st.test]
    elif isinstance(st, (ast.For, ast.AsyncFor)):
        roots = [st.iter]
    else:
        roots = []
    found = []

    def rec(n, nested):
        if isinstance(n, ast.Name) and n.id == name:
            if nested or not isinstance(n.ctx, ast.Load):
                raise ValueError
            found.append(n)
        for ch in ast.iter_child_nodes(n):
            rec(ch, nested or isinstance(ch, (ast.Lambda, ast.FunctionDef, ast.AsyncFunctionDef, ast.GeneratorExp, ast.ListComp, ast.SetComp, ast.DictComp)))
    try:
        for r in roots:
            rec(r, False)
    except ValueError:
        return None
    inside = sum(1 for n in ast.walk(st) if isinstance(n, ast.Name) and n.id == name)
    return found if inside == len(found) else None


def inline_new_temporaries(fn, ref_locals) -> int:
    """Repeated until nothing changes: inlining one temporary can make the next one adjacent to its use."""
    total = 0
    for _ in range(6):
        k = _inline_new_temporaries_once(fn, ref_locals)
        total += k
        if not k:
            break
    return total


def _inline_new_temporaries_once(fn, ref_locals) -> int:
    new = set(_locals(fn)) - set(ref_locals)
    if not new:
        return 0
    occ = {}
    for n in ast.walk(fn):
        if isinstance(n, ast.Name) and n.id in new:
            occ.setdefault(n.id, []).append(n)
    pairs = {}
    for blk in _blocks(fn):
        for i in range(len(blk) - 1):
            st = blk[i]
            if isinstance(st, ast.Assign) and len(st.targets) == 1 and isinstance(st.targets[0], ast.Name) and st.targets[0].id in new:
                x = st.targets[0].id
                if any(isinstance(m, ast.Name) and m.id == x for m in ast.walk(st.value)):
                    continue
                loads = _header_loads(blk[i + 1], x)
                if loads is not None and len(loads) == 1:
                    pairs.setdefault(x, []).append((blk, st, loads[0]))
    k = 0
    for x, ps in pairs.items():
        if len(occ.get(x, ())) != 2 * len(ps):
            continue
        for blk, st, load in ps:
            v = st.value
            load.__class__ = v.__class__
            load.__dict__.clear()
            load.__dict__.update(v.__dict__)
            blk.remove(st)
            k += 1
    return k


def orient(fn, ref) -> int:
    """Put mirrored comparisons / negated two-armed conditionals of fn back into the reference orientation."""
    cmps, tests = set(ref.get("cmp", ())), set(ref.get("tests", ()))
    k = 0
    for n in ast.walk(fn):
        if _mirrorable(n) and ast.unparse(n) not in cmps:
            _mirror(n)
            if ast.unparse(n) in cmps:
                k += 1
            else:
                _mirror(n)
    for n in ast.walk(fn):
        if isinstance(n, ast.IfExp) or (isinstance(n, ast.If) and n.orelse):
            x = _strip_not(n.test)
            if ast.unparse(n.test) in tests:
                continue
            if x is not None and ast.unparse(x) in tests:
                n.test = x
                n.body, n.orelse = n.orelse, n.body
                k += 1
            elif x is None and ast.unparse(ast.UnaryOp(op=ast.Not(), operand=n.test)) in tests:
                n.test = ast.copy_location(ast.UnaryOp(op=ast.Not(), operand=n.test), n.test)
                n.body, n.orelse = n.orelse, n.body
                k += 1
    return k


def _params(fn):
    a = fn.args
    return {x.arg for x in a.posonlyargs + a.args + a.kwonlyargs} | ({a.vararg.arg} if a.vararg else set()) | ({a.kwarg.arg} if a.kwarg else set())


def _own_nodes(fn):
    """Nodes of fn's own scope, descending into nested defs / lambdas (closures see the locals) in source order."""
    out = []

    def rec(n):
        for ch in ast.iter_child_nodes(n):
            out.append(ch)
            rec(ch)
    rec(fn)
    return out


def _locals(fn):
    params = _params(fn)
    declared = {nm for n in ast.walk(fn) if isinstance(n, (ast.Global, ast.Nonlocal)) for nm in n.names}
    nested_bound = set()
    for n in ast.walk(fn):
        if n is not fn and isinstance(n, (ast.FunctionDef, ast.AsyncFunctionDef, ast.Lambda)):
            nested_bound |= _params(n)
            if not isinstance(n, ast.Lambda):
                for m in ast.walk(n):
                    if isinstance(m, ast.Name) and isinstance(m.ctx, ast.Store):
                        nested_bound.add(m.id)
    stored = []
    for n in _own_nodes(fn):
        if isinstance(n, ast.Name) and isinstance(n.ctx, ast.Store) and n.id not in stored:
            stored.append(n.id)
        elif isinstance(n, ast.MatchAs) and n.name and n.name not in stored:
            stored.append(n.name)
    return [x for x in stored if x not in params and x not in declared and x not in nested_bound and x != "_" and not x.startswith("__")]


def _first_defs(fn, locs):
    """local -> (kind, expr, position) of its first binding in source order."""
    out = {}
    nodes = sorted([n for n in _own_nodes(fn) if hasattr(n, "lineno")], key=lambda n: (n.lineno, n.col_offset))
    for n in nodes:
        if isinstance(n, ast.Assign):
            for tg in n.targets:
                _bind(tg, n.value, out, locs, ())
        elif isinstance(n, ast.AnnAssign) and n.value is not None:
            _bind(n.target, n.value, out, locs, ())
        elif isinstance(n, ast.AugAssign):
            _bind(n.target, n.value, out, locs, ("aug",))
        elif isinstance(n, (ast.For, ast.AsyncFor)):
            _bind(n.target, n.iter, out, locs, ("iter",))
        elif isinstance(n, (ast.GeneratorExp, ast.ListComp, ast.SetComp, ast.DictComp)):
            for g in n.generators:
                _bind(g.target, g.iter, out, locs, ("iter",))
        elif isinstance(n, (ast.With, ast.AsyncWith)):
            for it in n.items:
                if it.optional_vars is not None:
                    _bind(it.optional_vars, it.context_expr, out, locs, ("with",))
        elif isinstance(n, ast.NamedExpr):
            _bind(n.target, n.value, out, locs, ("walrus",))
        elif isinstance(n, ast.ExceptHandler) and n.name:
            if n.name in locs and n.name not in out:
                out[n.name] = (("except",), n.type, n.lineno)
    return out


def _bind(tg, value, out, locs, path):
    if isinstance(tg, ast.Name):
        if tg.id in locs and tg.id not in out:
            out[tg.id] = (path, value, tg.lineno)
    elif isinstance(tg, (ast.Tuple, ast.List)):
        for i, el in enumerate(tg.elts):
            sub = value.elts[i] if isinstance(value, (ast.Tuple, ast.List)) and len(value.elts) == len(tg.elts) and not any(isinstance(e, ast.Starred) for e in tg.elts) else None
            if sub is not None:
                _bind(el, sub, out, locs, path)
            else:
                _bind(el, value, out, locs, path + (i,))
    elif isinstance(tg, ast.Starred):
        _bind(tg.value, value, out, locs, path + ("*",))


def local_digests(fn) -> dict:
    """local name -> spelling-independent digest of its first definition."""
    locs = set(_locals(fn))
    defs = _first_defs(fn, locs)
    memo: dict = {}

    def dig(name, stack=()):
        if name in memo:
            return memo[name]
        if name in stack or name not in defs:
            return "<rec>" if name in stack else f"<undef>"
        path, expr, _ = defs[name]
        memo[name] = hashlib.sha256((repr(path) + "|" + render(expr, stack + (name,))).encode()).hexdigest()[:16]
        return memo[name]

    def render(e, stack):
        if e is None:
            return "None"
        e2 = _Sub(lambda nm: f"L_{dig(nm, stack)}" if nm in locs else nm).visit(_copy(e))
        return ast.unparse(canon_expr(e2))
    order = sorted(defs, key=lambda n: defs[n][2])
    out, seen = {}, {}
    for n in order:
        d = dig(n)
        k = seen.get(d, 0)
        seen[d] = k + 1
        out[n] = d if k == 0 else f"{d}#{k}"
    return out


def _copy(e):
    import copy
    return copy.deepcopy(e)


class _Sub(ast.NodeTransformer):
    def __init__(self, f):
        self.f = f

    def visit_Name(self, n):
        return ast.copy_location(ast.Name(id=self.f(n.id), ctx=n.ctx), n)


def functions_with_paths(tree):
    """Yield (qualified path, FunctionDef) for every function (nested ones too)."""
    def rec(node, prefix):
        for ch in ast.iter_child_nodes(node):
            if isinstance(ch, (ast.FunctionDef, ast.AsyncFunctionDef)):
                decs = "".join("@" + ast.unparse(d).split(".")[-1] for d in ch.decorator_list if ast.unparse(d).endswith((".setter", ".deleter", ".getter")))
                path = f"{prefix}{ch.name}{decs}"
                yield path, ch
                yield from rec(ch, path + ".")
            elif isinstance(ch, ast.ClassDef):
                yield from rec(ch, f"{prefix}{ch.name}.")
            else:
                yield from rec(ch, prefix)
    yield from rec(tree, "")


def build_reference(root: str) -> dict:
    table = {}
    pkg = os.path.join(root, "inferno")
    for dp, _, fs in os.walk(pkg):
        for f in sorted(fs):
            if not f.endswith(".py"):
                continue
            p = os.path.join(dp, f)
            rel = os.path.relpath(p, root)
            tree = ast.parse(open(p).read())
            for path, fn in functions_with_paths(tree):
                d = local_digests(fn)
                if d:
                    inv = {}
                    for name, dg in d.items():
                        inv.setdefault(dg, []).append(name)
                    table[f"{rel}::{path}"] = {dg: names[0] for dg, names in inv.items() if len(names) == 1}
    return table


def build_shapes(root: str) -> dict:
    table = {}
    pkg = os.path.join(root, "inferno")
    for dp, _, fs in os.walk(pkg):
        for f in sorted(fs):
            if f.endswith(".py"):
                p = os.path.join(dp, f)
                rel = os.path.relpath(p, root)
                for path, fn in functions_with_paths(ast.parse(open(p).read())):
                    sh = shapes_of(fn)
                    table.setdefault("__functions__", []).append(f"{rel}::{path}")
                    if sh["cmp"] or sh["tests"] or sh["locals"]:
                        table[f"{rel}::{path}"] = sh
    return table


def is_reference_function(rel: str, cls: str | None, name: str) -> bool:
    """Does the reference tree have a function of this module / class / name?  (A helper that a refactoring introduced does
    not: the decision tables inline it, since its body is part of the behaviour of whoever calls it.)"""
    fs = load_shapes().get("__functions__")
    if fs is None:
        return True
    key = f"{rel}::{cls + '.' if cls else ''}{name}"
    global _fn_set
    if _fn_set is None:
        _fn_set = {k.split("@")[0] for k in fs}
    return key in _fn_set


_fn_set = None


_table_cache = None
_shapes_cache = None


def load_shapes():
    global _shapes_cache
    if _shapes_cache is None:
        _shapes_cache = json.load(open(SHAPES)) if os.path.exists(SHAPES) else {}
    return _shapes_cache


def load_table():
    global _table_cache
    if _table_cache is None:
        _table_cache = json.load(open(TABLE)) if os.path.exists(TABLE) else {}
    return _table_cache


def normalise(tree: ast.Module, rel: str) -> int:
    """Alpha-rename locals of every function in `tree` to the reference names; returns the number of renames."""
    table = load_table()
    shapes = load_shapes()
    total = 0
    for path, fn in functions_with_paths(tree):
        total += _rename(fn, table.get(f"{rel}::{path}"))
        sh = shapes.get(f"{rel}::{path}")
        total += inline_new_temporaries(fn, sh.get("locals", ()) if sh else ())
        if sh:
            total += orient(fn, sh)
    return total


def _rename(fn, ref) -> int:
    total = 0
    if True:
        if not ref:
            return 0
        cur = local_digests(fn)
        params = _params(fn)
        names_in_use = {n.id for n in ast.walk(fn) if isinstance(n, ast.Name)} | params
        ren = {}
        for name, dg in cur.items():
            want = ref.get(dg)
            if want and want != name:
                ren[name] = want
        # a target name must not collide with a different live name
        for name, want in list(ren.items()):
            if want in names_in_use and want not in ren:
                del ren[name]
        if len(set(ren.values())) != len(ren):
            return 0
        if not ren:
            return 0
        for n in ast.walk(fn):
            if isinstance(n, ast.Name) and n.id in ren:
                n.id = ren[n.id]
                total += 1
            elif isinstance(n, ast.MatchAs) and n.name in ren:
                n.name = ren[n.name]
    return total


if __name__ == "__main__":
    if "--build" in sys.argv:
        root = sys.argv[sys.argv.index("--build") + 1] if len(sys.argv) > sys.argv.index("--build") + 1 else "/repo"
        t = build_reference(root)
        json.dump(t, open(TABLE, "w"), indent=0, sort_keys=True)
        print(f"{len(t)} functions with locals; {sum(len(v) for v in t.values())} reference locals -> {TABLE}")
        sh = build_shapes(root)
        json.dump(sh, open(SHAPES, "w"), indent=0, sort_keys=True)
        print(f"{len(sh)} functions with comparisons / conditionals -> {SHAPES}")
