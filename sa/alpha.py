"""Reference-guided alpha-normalisation of local variable names.

The rules of sa/props name a few local variables of the analysed functions (``data``, ``ptr``, ``t_delta`` ...) because that
is how the repository's own code reads.  A rename of a *local* variable is a behaviour-preserving edit, so before the rules
run every function is alpha-renamed back to the names of the reference tree: each local gets a digest of its defining
expression in which other locals are replaced by *their* digests (so the digest does not depend on any local's spelling);
a local whose digest equals that of a reference local is renamed to the reference name.  Locals whose definition changed
keep their current name.  The reference table (sa/reference_locals.json) is generated from /repo by
``python3 -I sa/alpha.py --build`` and committed; it is only a naming aid: no rule reads it.
"""
from __future__ import annotations

import ast
import hashlib
import json
import os
import sys

HERE = os.path.dirname(os.path.abspath(__file__))
TABLE = os.path.join(HERE, "reference_locals.json")


def _params(fn):
    a = fn.args
    return {x.arg for x in a.posonlyargs + a.args + a.kwonlyargs} | ({a.vararg.arg} if a.vararg else set()) | ({a.kwarg.arg} if a.kwarg else set())


def _own_nodes(fn):
    """Nodes of fn's own scope, descending into nested defs / lambdas (closures see the locals) in source order."""
    out = []

    def rec(n):
        for ch in ast.iter_child_nodes(n):
            out.append(ch)
            rec(ch)
    rec(fn)
    return out


def _locals(fn):
    params = _params(fn)
    declared = {nm for n in ast.walk(fn) if isinstance(n, (ast.Global, ast.Nonlocal)) for nm in n.names}
    nested_bound = set()
    for n in ast.walk(fn):
        if n is not fn and isinstance(n, (ast.FunctionDef, ast.AsyncFunctionDef, ast.Lambda)):
            nested_bound |= _params(n)
            if not isinstance(n, ast.Lambda):
                for m in ast.walk(n):
                    if isinstance(m, ast.Name) and isinstance(m.ctx, ast.Store):
                        nested_bound.add(m.id)
    stored = []
    for n in _own_nodes(fn):
        if isinstance(n, ast.Name) and isinstance(n.ctx, ast.Store) and n.id not in stored:
            stored.append(n.id)
        elif isinstance(n, ast.MatchAs) and n.name and n.name not in stored:
            stored.append(n.name)
    return [x for x in stored if x not in params and x not in declared and x not in nested_bound and x != "_" and not x.startswith("__")]


def _first_defs(fn, locs):
    """local -> (kind, expr, position) of its first binding in source order."""
    out = {}
    nodes = sorted([n for n in _own_nodes(fn) if hasattr(n, "lineno")], key=lambda n: (n.lineno, n.col_offset))
    for n in nodes:
        if isinstance(n, ast.Assign):
            for tg in n.targets:
                _bind(tg, n.value, out, locs, ())
        elif isinstance(n, ast.AnnAssign) and n.value is not None:
            _bind(n.target, n.value, out, locs, ())
        elif isinstance(n, ast.AugAssign):
            _bind(n.target, n.value, out, locs, ("aug",))
        elif isinstance(n, (ast.For, ast.AsyncFor)):
            _bind(n.target, n.iter, out, locs, ("iter",))
        elif isinstance(n, (ast.GeneratorExp, ast.ListComp, ast.SetComp, ast.DictComp)):
            for g in n.generators:
                _bind(g.target, g.iter, out, locs, ("iter",))
        elif isinstance(n, (ast.With, ast.AsyncWith)):
            for it in n.items:
                if it.optional_vars is not None:
                    _bind(it.optional_vars, it.context_expr, out, locs, ("with",))
        elif isinstance(n, ast.NamedExpr):
            _bind(n.target, n.value, out, locs, ("walrus",))
        elif isinstance(n, ast.ExceptHandler) and n.name:
            if n.name in locs and n.name not in out:
                out[n.name] = (("except",), n.type, n.lineno)
    return out


def _bind(tg, value, out, locs, path):
    if isinstance(tg, ast.Name):
        if tg.id in locs and tg.id not in out:
            out[tg.id] = (path, value, tg.lineno)
    elif isinstance(tg, (ast.Tuple, ast.List)):
        for i, el in enumerate(tg.elts):
            sub = value.elts[i] if isinstance(value, (ast.Tuple, ast.List)) and len(value.elts) == len(tg.elts) and not any(isinstance(e, ast.Starred) for e in tg.elts) else None
            if sub is not None:
                _bind(el, sub, out, locs, path)
            else:
                _bind(el, value, out, locs, path + (i,))
    elif isinstance(tg, ast.Starred):
        _bind(tg.value, value, out, locs, path + ("*",))


def local_digests(fn) -> dict:
    """local name -> spelling-independent digest of its first definition."""
    locs = set(_locals(fn))
    defs = _first_defs(fn, locs)
    memo: dict = {}

    def dig(name, stack=()):
        if name in memo:
            return memo[name]
        if name in stack or name not in defs:
            return "<rec>" if name in stack else f"<undef>"
        path, expr, _ = defs[name]
        memo[name] = hashlib.sha256((repr(path) + "|" + render(expr, stack + (name,))).encode()).hexdigest()[:16]
        return memo[name]

    def render(e, stack):
        if e is None:
            return "None"
        e2 = _Sub(lambda nm: f"L_{dig(nm, stack)}" if nm in locs else nm).visit(_copy(e))
        return ast.unparse(e2)
    order = sorted(defs, key=lambda n: defs[n][2])
    out, seen = {}, {}
    for n in order:
        d = dig(n)
        k = seen.get(d, 0)
        seen[d] = k + 1
        out[n] = d if k == 0 else f"{d}#{k}"
    return out


def _copy(e):
    import copy
    return copy.deepcopy(e)


class _Sub(ast.NodeTransformer):
    def __init__(self, f):
        self.f = f

    def visit_Name(self, n):
        return ast.copy_location(ast.Name(id=self.f(n.id), ctx=n.ctx), n)


def functions_with_paths(tree):
    """Yield (qualified path, FunctionDef) for every function (nested ones too)."""
    def rec(node, prefix):
        for ch in ast.iter_child_nodes(node):
            if isinstance(ch, (ast.FunctionDef, ast.AsyncFunctionDef)):
                decs = "".join("@" + ast.unparse(d).split(".")[-1] for d in ch.decorator_list if ast.unparse(d).endswith((".setter", ".deleter", ".getter")))
                path = f"{prefix}{ch.name}{decs}"
                yield path, ch
                yield from rec(ch, path + ".")
            elif isinstance(ch, ast.ClassDef):
                yield from rec(ch, f"{prefix}{ch.name}.")
            else:
                yield from rec(ch, prefix)
    yield from rec(tree, "")


def build_reference(root: str) -> dict:
    table = {}
    pkg = os.path.join(root, "inferno")
    for dp, _, fs in os.walk(pkg):
        for f in sorted(fs):
            if not f.endswith(".py"):
                continue
            p = os.path.join(dp, f)
            rel = os.path.relpath(p, root)
            tree = ast.parse(open(p).read())
            for path, fn in functions_with_paths(tree):
                d = local_digests(fn)
                if d:
                    inv = {}
                    for name, dg in d.items():
                        inv.setdefault(dg, []).append(name)
                    table[f"{rel}::{path}"] = {dg: names[0] for dg, names in inv.items() if len(names) == 1}
    return table


_table_cache = None


def load_table():
    global _table_cache
    if _table_cache is None:
        _table_cache = json.load(open(TABLE)) if os.path.exists(TABLE) else {}
    return _table_cache


def normalise(tree: ast.Module, rel: str) -> int:
    """Alpha-rename locals of every function in `tree` to the reference names; returns the number of renames."""
    table = load_table()
    total = 0
    for path, fn in functions_with_paths(tree):
        ref = table.get(f"{rel}::{path}")
        if not ref:
            continue
        cur = local_digests(fn)
        params = _params(fn)
        names_in_use = {n.id for n in ast.walk(fn) if isinstance(n, ast.Name)} | params
        ren = {}
        for name, dg in cur.items():
            want = ref.get(dg)
            if want and want != name:
                ren[name] = want
        # a target name must not collide with a different live name
        for name, want in list(ren.items()):
            if want in names_in_use and want not in ren:
                del ren[name]
        if len(set(ren.values())) != len(ren):
            continue
        if not ren:
            continue
        for n in ast.walk(fn):
            if isinstance(n, ast.Name) and n.id in ren:
                n.id = ren[n.id]
                total += 1
            elif isinstance(n, ast.MatchAs) and n.name in ren:
                n.name = ren[n.name]
    return total


if __name__ == "__main__":
    if "--build" in sys.argv:
        root = sys.argv[sys.argv.index("--build") + 1] if len(sys.argv) > sys.argv.index("--build") + 1 else "/repo"
        t = build_reference(root)
        json.dump(t, open(TABLE, "w"), indent=0, sort_keys=True)
        print(f"{len(t)} functions with locals; {sum(len(v) for v in t.values())} reference locals -> {TABLE}")
