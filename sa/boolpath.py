"""Truth-table evaluation of small loop-free functions (DESIGN C15.c / C15.h): for every assignment of the
syntactic atoms, follow the statement structure and report whether a target statement is reached."""
from __future__ import annotations

import ast
import itertools


class Undecided(Exception):
    pass


def eval_bool(e: ast.AST, atoms: dict, assign: dict):
    """Evaluate a boolean test under an assignment of atom names; atoms maps unparse-text -> name."""
    txt = ast.unparse(e)
    if txt in atoms:
        return assign[atoms[txt]]
    if isinstance(e, ast.BoolOp):
        vals = [eval_bool(v, atoms, assign) for v in e.values]
        return all(vals) if isinstance(e.op, ast.And) else any(vals)
    if isinstance(e, ast.UnaryOp) and isinstance(e.op, ast.Not):
        return not eval_bool(e.operand, atoms, assign)
    if isinstance(e, ast.Constant) and isinstance(e.value, bool):
        return e.value
    raise Undecided(txt)


def reaches(stmts, atoms, assign, target) -> bool:
    """Does straight-line execution of `stmts` under `assign` execute a statement satisfying target(stmt)?
    Returns True/False; control leaves at return/raise/continue/break."""
    r = _run(stmts, atoms, assign, target)
    return r == "hit"


def _run(stmts, atoms, assign, target):
    for st in stmts:
        if target(st):
            return "hit"
        if isinstance(st, ast.If):
            br = st.body if eval_bool(st.test, atoms, assign) else st.orelse
            r = _run(br, atoms, assign, target)
            if r in ("hit", "left"):
                return r
        elif isinstance(st, (ast.Return, ast.Raise, ast.Continue, ast.Break)):
            return "left"
        elif isinstance(st, ast.Assign) and len(st.targets) == 1 and isinstance(st.targets[0], ast.Name) and st.targets[0].id in atoms:
            # a tested flag is rebound (e.g. `adapt = adapt or (adapt is None and self.training)`): follow the new value
            name = st.targets[0].id
            val = eval_bool(st.value, atoms, assign)      # Undecided propagates: the rule then reports it cannot decide
            assign[atoms[name]] = bool(val)
            if f"{name} is None" in atoms:
                assign[atoms[f"{name} is None"]] = False
            if f"{name} is not None" in atoms:
                assign[atoms[f"{name} is not None"]] = True
        elif isinstance(st, (ast.With,)):
            r = _run(st.body, atoms, assign, target)
            if r in ("hit", "left"):
                return r
    return "fell"


def table(stmts, atoms: dict, target, constraint=None):
    """{assignment tuple (sorted atom names) -> reached?}"""
    names = sorted(set(atoms.values()))
    out = {}
    for vals in itertools.product([False, True], repeat=len(names)):
        a = dict(zip(names, vals))
        if constraint is not None and not constraint(a):
            continue
        out[vals] = reaches(stmts, atoms, dict(a), target)
    return names, out
