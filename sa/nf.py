"""Normal forms for value-flow terms (DESIGN 2.3).

A term is a rational function num/den over *atoms* with exact Fraction coefficients.
Atoms are interned uninterpreted applications ``op(args...)`` whose arguments are terms
(compared modulo rational-function equality through an equivalence-class intern table),
strings, or tuples.  Equality of two terms is decided by cross-multiplication.

Nothing here evaluates repository code; the only inputs are syntax trees.
"""
from __future__ import annotations

from fractions import Fraction

# --------------------------------------------------------------------------- atoms


class Atom:
    __slots__ = ("op", "args", "uid", "_s")
    _table: dict = {}
    _count = 0

    def __init__(self, op, args, uid):
        self.op, self.args, self.uid, self._s = op, args, uid, None

    def __repr__(self):
        return show_atom(self)

    def __lt__(self, other):
        return self.sortkey() < other.sortkey()

    def sortkey(self):
        if self._s is None:
            self._s = show_atom(self)
        return self._s


_rat_classes: list = []  # representatives of Rat equivalence classes


def _arg_id(a):
    if isinstance(a, Rat):
        single = a.as_atom()
        if single is not None:
            return ("a", single.uid)
        c = a.as_const()
        if c is not None:
            return ("c", c)
        ha = _has_ite(a)
        for i, r in enumerate(_rat_classes):
            if r.eq(a) or (ha and _has_ite(r) and tree_eq(lift(r), lift(a))):
                return ("r", i)
        _rat_classes.append(a)
        return ("r", len(_rat_classes) - 1)
    if isinstance(a, Atom):
        return ("a", a.uid)
    if isinstance(a, tuple):
        return ("t",) + tuple(_arg_id(x) for x in a)
    return ("s", a)


def atom(op, *args) -> Atom:
    key = (op,) + tuple(_arg_id(a) for a in args)
    at = Atom._table.get(key)
    if at is None:
        Atom._count += 1
        at = Atom(op, args, Atom._count)
        Atom._table[key] = at
    return at


def reset():
    SCALAR_CONDS.clear()
    BOOLEAN_ATOMS.clear()
    Atom._table.clear()
    Atom._count = 0
    _rat_classes.clear()


# --------------------------------------------------------------------------- polynomials
# poly: dict[monomial -> Fraction]; monomial: frozenset[(Atom, int)]

_ONE_M = frozenset()


def _padd(p, q, k=1):
    r = dict(p)
    for m, c in q.items():
        v = r.get(m, 0) + c * k
        if v == 0:
            r.pop(m, None)
        else:
            r[m] = v
    return r


def _mmul(m1, m2):
    if not m1 and all(e == 1 for _, e in m2):
        return m2
    if not m2 and all(e == 1 for _, e in m1):
        return m1
    d = dict(m1)
    for a, e in m2:
        d[a] = d.get(a, 0) + e
    # exp law: merge exp atoms
    exps = [(a, e) for a, e in d.items() if a.op == "exp" and e != 0]
    if len(exps) > 1 or any(e != 1 for _, e in exps):
        tot = Rat.const(0)
        for a, e in exps:
            tot = tot + a.args[0] * Rat.const(e)
            del d[a]
        if not tot.is_zero():
            na = atom("exp", tot)
            d[na] = d.get(na, 0) + 1
    # idempotent boolean atoms: b*b = b
    for a in list(d):
        if d[a] > 1 and a.op in BOOL_OPS:
            d[a] = 1
    return frozenset((a, e) for a, e in d.items() if e != 0)


def _pmul(p, q):
    r = {}
    for m1, c1 in p.items():
        for m2, c2 in q.items():
            m = _mmul(m1, m2)
            v = r.get(m, 0) + c1 * c2
            if v == 0:
                r.pop(m, None)
            else:
                r[m] = v
    return r


# ops through which an element-wise path fact may be pushed (restrict); any other
# application (reductions, user callables, indexing) is left untouched.
ELEMENTWISE = {"exp", "abs", "clamp", "gt", "ge", "lt", "le", "eq", "ne", "and", "or", "not", "log", "sqrt",
               "round", "ceil", "floor", "pow", "mod", "sign", "erf", "lgamma", "max", "min", "heaviside"}
SCALAR_CONDS: set = set()    # uids of condition atoms that stem from Python-level `if` / conditional expressions (one truth value per call)
BOOLEAN_ATOMS: set = set()   # uids of atoms used as the condition of a tensor-level where(): boolean by torch's contract
BOOL_OPS = {"gt", "ge", "lt", "le", "eq", "ne", "and", "or", "not", "isnone", "bool"}


def _mono_key(m):
    return tuple(sorted((a.sortkey(), e) for a, e in m))


def _sorted_poly(p):
    return sorted(p.items(), key=lambda kv: _mono_key(kv[0]))


class Rat:
    __slots__ = ("n", "d")

    def __init__(self, n, d=None):
        self.n = n
        self.d = d if d is not None else {_ONE_M: Fraction(1)}

    # constructors
    @staticmethod
    def const(c):
        c = Fraction(c)
        return Rat({_ONE_M: c} if c != 0 else {})

    @staticmethod
    def of(a: Atom):
        return Rat({frozenset([(a, 1)]): Fraction(1)})

    # algebra
    def __add__(a, b):
        if a.d == b.d:
            return Rat(_padd(a.n, b.n), a.d)._red()
        return Rat(_padd(_pmul(a.n, b.d), _pmul(b.n, a.d)), _pmul(a.d, b.d))._red()

    def __neg__(a):
        return Rat({m: -c for m, c in a.n.items()}, a.d)

    def __sub__(a, b):
        return a + (-b)

    def __mul__(a, b):
        return Rat(_pmul(a.n, b.n), _pmul(a.d, b.d))._red()

    def inv(a):
        return Rat(a.d, a.n)._red()

    def __truediv__(a, b):
        return a * b.inv()

    def pow(a, k: int):
        if k < 0:
            return a.inv().pow(-k)
        r = Rat.const(1)
        for _ in range(k):
            r = r * a
        return r

    def _red(a):
        n, d = a.n, a.d
        if not n:
            return Rat({})
        if len(d) == 1:
            (m, c), = d.items()
            if not m:
                if c == 1:
                    return a
                return Rat({k: v / c for k, v in n.items()})
            # monomial denominator: move into numerator with negative exponents
            invm = frozenset((x, -e) for x, e in m)
            return Rat(_pmul(n, {invm: 1 / c}))
        if n == d:
            return Rat.const(1)
        return a

    # predicates
    def is_zero(a):
        return not a.n

    def eq(a, b):
        if a.d == b.d:
            return a.n == b.n
        return _pmul(a.n, b.d) == _pmul(b.n, a.d)

    def as_const(a):
        if not a.n:
            return Fraction(0)
        if len(a.n) == 1 and len(a.d) == 1 and _ONE_M in a.n and _ONE_M in a.d:
            return a.n[_ONE_M] / a.d[_ONE_M]
        return None

    def as_atom(a):
        if len(a.n) == 1 and len(a.d) == 1 and _ONE_M in a.d and a.d[_ONE_M] == 1:
            (m, c), = a.n.items()
            if c == 1 and len(m) == 1:
                (at, e), = m
                if e == 1:
                    return at
        return None

    def atoms(a):
        out = set()
        for p in (a.n, a.d):
            for m in p:
                for at, _ in m:
                    out.add(at)
        return out

    def all_atoms(a):
        """Transitive set of atoms occurring anywhere in the term."""
        out, stack = set(), list(a.atoms())
        while stack:
            at = stack.pop()
            if at in out:
                continue
            out.add(at)
            for x in at.args:
                stack.extend(_atoms_of(x))
        return out

    def __repr__(a):
        return show(a)


def _atoms_of(x):
    if isinstance(x, Rat):
        return list(x.atoms())
    if isinstance(x, Atom):
        return [x]
    if isinstance(x, tuple):
        r = []
        for y in x:
            r.extend(_atoms_of(y))
        return r
    return []


# --------------------------------------------------------------------------- printing


def show_atom(a: Atom) -> str:
    if a.op == "sym":
        return str(a.args[0])
    if a.op == "const":
        return str(a.args[0])
    return f"{a.op}({', '.join(show(x) for x in a.args)})"


def _show_poly(p) -> str:
    if not p:
        return "0"
    parts = []
    for m, c in _sorted_poly(p):
        fs = []
        for at, e in sorted(m, key=lambda ae: ae[0].sortkey()):
            s = at.sortkey()
            fs.append(s if e == 1 else f"{s}^{e}")
        body = "*".join(fs)
        if not body:
            parts.append(str(c))
        elif c == 1:
            parts.append(body)
        elif c == -1:
            parts.append("-" + body)
        else:
            parts.append(f"{c}*{body}")
    return " + ".join(parts).replace("+ -", "- ")


def show(x) -> str:
    if isinstance(x, Rat):
        if len(x.d) == 1 and _ONE_M in x.d and x.d[_ONE_M] == 1:
            return _show_poly(x.n)
        return f"({_show_poly(x.n)})/({_show_poly(x.d)})"
    if isinstance(x, Atom):
        return x.sortkey()
    if isinstance(x, tuple):
        return "(" + ", ".join(show(y) for y in x) + ")"
    return str(x)


# --------------------------------------------------------------------------- helpers


def sym(name: str) -> Rat:
    return Rat.of(atom("sym", name))


def app(op: str, *args) -> Rat:
    return Rat.of(atom(op, *args))


def C(c) -> Rat:
    return Rat.const(c)


def equal(a, b) -> bool:
    """Structural equality of terms (Rat, tuple of terms, str)."""
    if isinstance(a, Rat) and isinstance(b, Rat):
        return a.eq(b)
    if isinstance(a, tuple) and isinstance(b, tuple):
        return len(a) == len(b) and all(equal(x, y) for x, y in zip(a, b))
    if isinstance(a, Rat) or isinstance(b, Rat):
        return False
    return a == b


REDUCED: set = set()   # sortkeys of atoms declared to lie in [0, modulus) for the current proof (mod(x, n) = x)


def mk_mod(a: Rat, n: Rat) -> Rat:
    """Canonical a mod n (n > 0): inner residues with the same modulus are absorbed ((x mod n) + y) mod n = (x + y) mod n,
    integer multiples of n are dropped, and a declared-reduced atom is its own residue."""
    if not isinstance(a, Rat) or not isinstance(n, Rat):
        return app("mod", a, n)
    nat = n.as_atom()
    if len(a.d) != 1 or _ONE_M not in a.d:
        return app("mod", a, n)
    den = a.d[_ONE_M]
    out = Rat.const(0)
    for m, c in a.n.items():
        c = c / den
        term = None
        if len(m) == 1:
            (at, e), = m
            if e == 1 and c.denominator == 1:
                if at.op == "mod" and isinstance(at.args[1], Rat) and at.args[1].eq(n) and isinstance(at.args[0], Rat):
                    term = at.args[0] * Rat.const(c)
                elif nat is not None and at is nat:
                    term = Rat.const(0)          # k * n == 0 (mod n)
        if term is None:
            term = Rat({m: c})
        out = out + term
    cst = out.as_const()
    if cst is not None and cst == 0:
        return Rat.const(0)
    oat = out.as_atom()
    if oat is not None and oat.sortkey() in REDUCED:
        return out
    return app("mod", out, n)


def mk_exp(a: Rat) -> Rat:
    if a.is_zero():
        return C(1)
    return app("exp", a)


def _lead_sign_scale(r: Rat):
    """Return (scaled rat, sign) where the leading coefficient (stable monomial order) is +1."""
    items = _sorted_poly(r.n)
    if not items:
        return r, 0
    lead = items[0][1]
    # also fold a constant denominator / leading den coefficient
    k = abs(lead)
    r2 = Rat({m: c / k for m, c in r.n.items()}, r.d)
    if lead < 0:
        return -r2, -1
    return r2, 1


_FLIP = {"gt": "lt", "ge": "le", "lt": "gt", "le": "ge", "eq": "eq", "ne": "ne"}
_NEG = {"gt": "le", "ge": "lt", "lt": "ge", "le": "gt", "eq": "ne", "ne": "eq"}


def mk_cmp(op: str, a: Rat, b: Rat, positive=()) -> Rat:
    """Canonical comparison atom for `a op b` (op in gt ge lt le eq ne)."""
    d = a - b
    # clear denominators made of positive symbols (sign preserving)
    pos = set(positive)

    def positive_atom(at):
        return (at.op == "sym" and at.args[0] in pos) or at.op == "exp"

    changed = True
    while changed:
        changed = False
        if len(d.d) == 1 and _ONE_M in d.d:
            for m in list(d.n):
                for at, e in m:
                    if e < 0 and positive_atom(at):
                        d = d * Rat.of(at).pow(-e)
                        changed = True
                        break
                if changed:
                    break
        else:
            # polynomial denominator: only clear when it is a single positive monomial
            break
    cst = d.as_const()
    if cst is not None:
        val = {"gt": cst > 0, "ge": cst >= 0, "lt": cst < 0, "le": cst <= 0, "eq": cst == 0, "ne": cst != 0}[op]
        return C(1 if val else 0)
    d, s = _lead_sign_scale(d)
    if s < 0:
        op = _FLIP[op]
    return app(op, d)


def mk_not(c: Rat) -> Rat:
    cst = c.as_const()
    if cst is not None:
        return C(0 if cst != 0 else 1)
    at = c.as_atom()
    if at is not None:
        if at.op in _NEG:
            return app(_NEG[at.op], at.args[0])
        if at.op == "not":
            return at.args[0]
    return app("not", c)


def mk_bool(op: str, *cs: Rat) -> Rat:
    """and / or, flattened, sorted, deduplicated."""
    flat = []
    for c in cs:
        at = c.as_atom()
        if at is not None and at.op == op:
            flat.extend(at.args)
        else:
            flat.append(c)
    out, seen = [], set()
    for c in flat:
        cst = c.as_const()
        if cst is not None:
            truth = cst != 0
            if op == "and" and not truth:
                return C(0)
            if op == "or" and truth:
                return C(1)
            continue
        k = _arg_id(c)
        if k not in seen:
            seen.add(k)
            out.append(c)
    if not out:
        return C(1 if op == "and" else 0)
    if len(out) == 1:
        return out[0]
    out.sort(key=show)
    return app(op, *out)


class Facts:
    """Path facts: truth value of condition atoms known on the current path."""

    def __init__(self, m=None):
        self.m = dict(m or {})

    def assume(self, c: Rat, val: bool):
        f = Facts(self.m)
        f._add(c, val)
        return f

    def _add(self, c: Rat, val: bool):
        at = c.as_atom()
        if at is None:
            return
        if at.op == "not":
            self._add(at.args[0], not val)
            return
        if at.op == "and" and val:
            for x in at.args:
                self._add(x, True)
        if at.op == "or" and not val:
            for x in at.args:
                self._add(x, False)
        self.m[at.uid] = val
        if at.op in _NEG:
            neg = atom(_NEG[at.op], at.args[0])
            self.m[neg.uid] = not val

    def scalar_only(self):
        return Facts({k: v for k, v in self.m.items() if k in SCALAR_CONDS})

    def lookup(self, c: Rat):
        cst = c.as_const()
        if cst is not None:
            return cst != 0
        at = c.as_atom()
        if at is None:
            return None
        if at.op == "const":      # Python truthiness of literal None / False / True
            if at.args[0] in ("None", "False"):
                return False
            if at.args[0] == "True":
                return True
        if at.op == "not":
            v = self.lookup(at.args[0])
            return None if v is None else not v
        v = self.m.get(at.uid)
        if v is not None:
            return v
        if at.op == "and":
            vs = [self.lookup(x) for x in at.args]
            if any(x is False for x in vs):
                return False
            if all(x is True for x in vs):
                return True
        if at.op == "or":
            vs = [self.lookup(x) for x in at.args]
            if any(x is True for x in vs):
                return True
            if all(x is False for x in vs):
                return False
        return None


def restrict(x, facts: "Facts"):
    """Rewrite a term under path facts: ite atoms with a decided condition collapse,
    boolean atoms with a known truth value become 1 / 0."""
    if not facts.m:
        return x
    if isinstance(x, tuple):
        return tuple(restrict(y, facts) for y in x)
    if not isinstance(x, Rat):
        return x
    ats = x.atoms()
    if not ats:
        return x
    at0 = x.as_atom()
    if at0 is not None and at0.op == "ite" and (isinstance(at0.args[1], tuple) or isinstance(at0.args[2], tuple)):
        # a conditional between tuples (pairs of update parts ...): the decided / rewritten result is again a tuple or an ite of tuples
        c, a, b = at0.args
        c2 = _restrict_cond(c, facts)
        v = facts.lookup(c2)
        if v is True:
            return restrict(a, facts)
        if v is False:
            return restrict(b, facts)
        return mk_ite(c2, restrict(a, facts.assume(c2, True)), restrict(b, facts.assume(c2, False)), _restricted=True)
    sub = {}
    for at in ats:
        r = _restrict_atom(at, facts)
        if r is not None:
            sub[at] = r
    if not sub:
        return x

    def conv(p):
        out = Rat.const(0)
        for m, c in p.items():
            term = Rat.const(c)
            for at, e in m:
                term = term * (sub[at].pow(e) if at in sub else Rat({frozenset([(at, e)]): Fraction(1)}))
            out = out + term
        return out

    num = conv(x.n)
    if len(x.d) == 1 and _ONE_M in x.d:
        return num * Rat.const(1 / x.d[_ONE_M])
    return num / conv(x.d)


def _restrict_cond(c, facts: "Facts"):
    """Restrict a term that stands in *condition position* (ite condition, operand of and / or / not): there any atom
    whose truth value the facts fix becomes 1 / 0, whatever its operator (in value position only boolean operators
    and registered boolean atoms are replaced)."""
    if not isinstance(c, Rat):
        return c
    v = facts.lookup(c)
    if v is not None:
        return Rat.const(1 if v else 0)
    at = c.as_atom()
    if at is not None and at.op == "ite" and all(isinstance(x, Rat) for x in at.args):
        c0 = _restrict_cond(at.args[0], facts)
        v0 = facts.lookup(c0)
        if v0 is True:
            return _restrict_cond(at.args[1], facts)
        if v0 is False:
            return _restrict_cond(at.args[2], facts)
        return mk_ite(c0, _restrict_cond(at.args[1], facts.assume(c0, True)), _restrict_cond(at.args[2], facts.assume(c0, False)), _restricted=True)
    if at is not None and at.op in ("and", "or") and all(isinstance(x, Rat) for x in at.args):
        return mk_bool(at.op, *[_restrict_cond(x, facts) for x in at.args])
    if at is not None and at.op == "not" and isinstance(at.args[0], Rat):
        return mk_not(_restrict_cond(at.args[0], facts))
    return restrict(c, facts)


def _restrict_atom(at: Atom, facts: "Facts"):
    """Replacement Rat for atom under facts, or None when unchanged."""
    if at.op in ("and", "or", "not") and all(isinstance(x, Rat) for x in at.args):
        r = _restrict_cond(Rat.of(at), facts)
        return None if (r.as_atom() is at) else r
    if at.op in BOOL_OPS or at.uid in BOOLEAN_ATOMS:
        v = facts.lookup(Rat.of(at))
        if v is not None:
            return Rat.const(1 if v else 0)
    if at.op == "ite":
        c, a, b = at.args
        c2 = _restrict_cond(c, facts)
        v = facts.lookup(c2)
        if v is True:
            return restrict(a, facts) if isinstance(a, Rat) else None
        if v is False:
            return restrict(b, facts) if isinstance(b, Rat) else None
        na = restrict(a, facts.assume(c2, True))
        nb = restrict(b, facts.assume(c2, False))
        if na is not a or nb is not b or c2 is not c:
            r = mk_ite(c2, na, nb, _restricted=True)
            return r if isinstance(r, Rat) else None
        return None
    inner = facts
    if at.op not in ELEMENTWISE:
        # a Python-level condition has one truth value for the whole call: it may be pushed through any application;
        # element-wise (tensor) conditions may not
        inner = facts.scalar_only()
        if not inner.m or at.op in ("sym", "const", "opaque", "lambda", "expr"):
            return None
    newargs, changed = [], False
    for x in at.args:
        nx = restrict(x, inner) if isinstance(x, (Rat, tuple)) else x
        if nx is not x:
            changed = True
        newargs.append(nx)
    if changed:
        if at.op == "exp":
            return mk_exp(newargs[0])
        if at.op in ("and", "or") and all(isinstance(x, Rat) for x in newargs):
            return mk_bool(at.op, *newargs)
        if at.op == "not" and isinstance(newargs[0], Rat):
            return mk_not(newargs[0])
        if at.op in _NEG and len(newargs) == 1 and isinstance(newargs[0], Rat):
            return mk_cmp(at.op, newargs[0], Rat.const(0))
        return Rat.of(atom(at.op, *newargs))
    return None


def mk_ite(c: Rat, a, b, _restricted=False):
    """ite; arms are rewritten under the fact c / not c."""
    cst = c.as_const()
    if cst is not None:
        return a if cst != 0 else b
    lit = Facts().lookup(c)
    if lit is not None:
        return a if lit else b
    if not _restricted:
        a = restrict(a, Facts().assume(c, True))
        b = restrict(b, Facts().assume(c, False))
    # inside a Shannon expansion (restricted) only the flat test is used: the expansion itself decides the remaining
    # conditions, and a nested joint expansion per constructed ite would be exponential in the number of conditions
    if _flat_equal(a, b) if _restricted else equal(a, b):
        return a
    if isinstance(a, tuple) and isinstance(b, tuple) and len(a) == len(b):
        return tuple(mk_ite(c, x, y) for x, y in zip(a, b))
    at = c.as_atom()
    if at is not None and (at.op in BOOL_OPS or at.uid in BOOLEAN_ATOMS) and isinstance(a, Rat) and isinstance(b, Rat):
        # `True if c else False` is c (and the mirror image its negation): truth values written out are the condition itself
        def tv(x):
            k = x.as_const()
            if k is not None and k in (0, 1):
                return bool(k)
            xa = x.as_atom()
            if xa is not None and xa.op == "const" and xa.args in (("True",), ("False",)):
                return xa.args == ("True",)
            return None
        ta, tb = tv(a), tv(b)
        if ta is True and tb is False:
            return c
        if ta is False and tb is True:
            return mk_not(c)
    if at is not None and at.op == "isnone" and isinstance(a, Rat) and isinstance(b, Rat) and isinstance(at.args[0], Rat):
        aa = a.as_atom()
        if aa is not None and aa.op == "const" and aa.args == ("None",) and at.args[0].eq(b):
            return b   # `None if x is None else x` is x
    if at is not None and at.op == "not":
        return mk_ite(at.args[0], b, a)
    if at is not None and at.op in ("le", "lt", "ne"):
        # canonical polarity: gt / ge / eq
        return mk_ite(mk_not(c), b, a)
    if not isinstance(a, Rat) or not isinstance(b, Rat):
        return app("ite", c, _wrap(a), _wrap(b))
    return app("ite", c, a, b)


def _wrap(x):
    return x


BOTTOM = "⊥"  # result of a path that raises


# --------------------------------------------------------------------------- decision-tree canonical form
# Terms that mix arithmetic and ite are compared as reduced ordered decision trees over the
# *atomic* conditions (Shannon expansion by restrict): canonical up to the order of nesting,
# distribution of arithmetic over ite, and / or / not structure of the conditions.

def _has_ite(x, _memo={}):
    if isinstance(x, Rat):
        return any(_has_ite(a) for a in x.atoms())
    if isinstance(x, tuple):
        return any(_has_ite(y) for y in x)
    if isinstance(x, Atom):
        v = _memo.get(x.uid)
        if v is None:
            v = x.op == "ite" or (x.op in ELEMENTWISE and any(_has_ite(y) for y in x.args)) \
                or (x.op not in ELEMENTWISE and any(_has_scalar_ite(y) for y in x.args))
            if len(_memo) > 200000:
                _memo.clear()
            _memo[x.uid] = v
        return v
    return False


def _has_scalar_ite(x) -> bool:
    """An ite with a Python-level condition occurs somewhere inside x (through any application)."""
    if isinstance(x, Rat):
        return any(_has_scalar_ite(a) for a in x.atoms())
    if isinstance(x, tuple):
        return any(_has_scalar_ite(y) for y in x)
    if isinstance(x, Atom):
        if x.op == "ite":
            cs: dict = {}
            _atomic_conds(x.args[0], cs)
            if cs and all(u in SCALAR_CONDS for u in cs):
                return True
        return any(_has_scalar_ite(y) for y in x.args)
    return False


def _atomic_conds(c: Rat, out: dict):
    at = c.as_atom()
    if at is None:
        return
    if at.op == "ite" and all(isinstance(x, Rat) for x in at.args):
        # a condition that is itself a conditional (`a if t else b` used as a test) is decided by its three parts
        for x in at.args:
            _atomic_conds(x, out)
        return
    if at.op in ("and", "or"):
        for x in at.args:
            _atomic_conds(x, out)
    elif at.op == "not":
        _atomic_conds(at.args[0], out)
    elif at.op in ("le", "lt", "ne"):
        n = atom(_NEG[at.op], at.args[0])
        out[n.uid] = n
    else:
        out[at.uid] = at


def _collect_conds(x, out: dict, seen: set):
    if isinstance(x, tuple):
        for y in x:
            _collect_conds(y, out, seen)
        return
    if not isinstance(x, Rat):
        return
    for at in x.atoms():
        if at.uid in seen:
            continue
        seen.add(at.uid)
        if at.op == "ite":
            _atomic_conds(at.args[0], out)
            _collect_conds(at.args[1], out, seen)
            _collect_conds(at.args[2], out, seen)
        elif at.op in ELEMENTWISE:
            for y in at.args:
                _collect_conds(y, out, seen)
        else:
            sub: dict = {}
            for y in at.args:
                _collect_conds(y, sub, seen) if isinstance(y, (Rat, tuple)) else None
            for u, a_ in sub.items():
                if u in SCALAR_CONDS:
                    out[u] = a_


def lift(x, depth=0):
    """Reduced ordered decision tree: ('leaf', term) | ('node', cond_atom, hi, lo)."""
    if not _has_ite(x) or depth > 14:
        return ("leaf", x)
    conds: dict = {}
    _collect_conds(x, conds, set())
    if not conds:
        return ("leaf", x)
    # expand first on conditions that do not themselves contain an ite (innermost first): a condition with a
    # nested ite changes identity once the inner one is decided, which would make the tree shape order-dependent
    simple = [a for a in conds.values() if not any(_has_ite(y) for y in a.args)]
    c = min(simple or list(conds.values()), key=lambda a: a.sortkey())
    cr = Rat.of(c)
    hi = lift(restrict(x, Facts().assume(cr, True)), depth + 1)
    lo = lift(restrict(x, Facts().assume(cr, False)), depth + 1)
    if tree_eq(hi, lo):
        return hi
    return ("node", c, hi, lo)


def tree_eq(a, b) -> bool:
    if a[0] != b[0]:
        return False
    if a[0] == "leaf":
        return _flat_equal(a[1], b[1])
    return a[1] is b[1] and tree_eq(a[2], b[2]) and tree_eq(a[3], b[3])


def _flat_equal(a, b) -> bool:
    if isinstance(a, Rat) and isinstance(b, Rat):
        return a.eq(b)
    if isinstance(a, tuple) and isinstance(b, tuple):
        return len(a) == len(b) and all(_flat_equal(x, y) for x, y in zip(a, b))
    if isinstance(a, Rat) or isinstance(b, Rat):
        return False
    return a == b


def show_tree(t, indent=0) -> str:
    pad = "  " * indent
    if t[0] == "leaf":
        return pad + show(t[1])
    return f"{pad}if {t[1].sortkey()}:\n{show_tree(t[2], indent + 1)}\n{pad}else:\n{show_tree(t[3], indent + 1)}"


def equal(a, b) -> bool:  # noqa: F811  (full equality: flat first, then joint Shannon expansion)
    if _flat_equal(a, b):
        return True
    if _has_ite(a) or _has_ite(b):
        return _joint_eq(a, b, 0)
    return False


def _joint_eq(a, b, depth) -> bool:
    """Expand both terms over the union of their atomic conditions (innermost first).  Conditions that occur as
    plain factors in the other term (mask * x vs where(mask, x, 0)) are decided consistently on both sides."""
    if _flat_equal(a, b):
        return True
    if depth > 14:
        return False
    conds: dict = {}
    _collect_conds(a, conds, set())
    _collect_conds(b, conds, set())
    if not conds:
        return False
    simple = [x for x in conds.values() if not any(_has_ite(y) for y in x.args)]
    c = min(simple or list(conds.values()), key=lambda x: x.sortkey())
    cr = Rat.of(c)
    for val in (True, False):
        f = Facts().assume(cr, val)
        if not _joint_eq(restrict(a, f), restrict(b, f), depth + 1):
            return False
    return True


# --------------------------------------------------------------------------- sign domain over terms
def sign_of(x, assume: dict, depth=0) -> str:
    """Abstract sign of a term: 'Z' (=0), 'P' (>=0), 'N' (<=0), 'T' (unknown).
    `assume` maps symbol names (or atom sortkeys) to a sign."""
    if isinstance(x, tuple):
        return "T"
    if not isinstance(x, Rat):
        return "T"
    if x.is_zero():
        return "Z"

    def atom_sign(at: Atom) -> str:
        k = at.sortkey()
        if k in assume:
            return assume[k]
        if at.op == "exp" or at.op in BOOL_OPS or at.op in ("abs", "sqrt") or at.uid in BOOLEAN_ATOMS:
            return "P"
        if at.op == "ite":
            return _join(sign_of(at.args[1], assume, depth + 1), sign_of(at.args[2], assume, depth + 1))
        if at.op == "clamp":
            v, lo, hi = at.args
            sv = sign_of(v, assume, depth + 1)
            slo = sign_of(lo, assume, depth + 1) if isinstance(lo, Rat) and lo.as_const() is not None else None
            shi = sign_of(hi, assume, depth + 1) if isinstance(hi, Rat) and hi.as_const() is not None else None
            if slo in ("P", "Z"):
                return "P"
            if shi in ("N", "Z"):
                return "N"
            return sv
        if at.op in ("m.sum", "m.nansum", "m.mean", "f.sum", "f.nansum", "f.mean", "m.view", "m.unsqueeze", "m.reshape", "index"):
            return sign_of(at.args[0], assume, depth + 1) if at.args and isinstance(at.args[0], Rat) else "T"
        return "T"

    def poly_sign(p) -> str:
        acc = "Z"
        for m, c in p.items():
            s = "P" if c > 0 else "N"
            for at, e in m:
                a = atom_sign(at)
                if a == "T":
                    if e % 2 == 0:
                        a = "P"
                    else:
                        return "T"
                if a == "Z":
                    s = "Z"
                    break
                if a == "N" and e % 2 != 0:
                    s = "P" if s == "N" else "N"
            acc = _add_sign(acc, s)
            if acc == "T":
                return "T"
        return acc

    n, d = poly_sign(x.n), poly_sign(x.d)
    if n == "Z":
        return "Z"
    if n == "T" or d in ("T", "Z"):
        return "T"
    return n if d == "P" else ("N" if n == "P" else "P")


def _join(a, b):
    if a == b:
        return a
    if a == "Z":
        return b
    if b == "Z":
        return a
    return "T"


def _add_sign(a, b):
    if a == "Z":
        return b
    if b == "Z":
        return a
    return a if a == b else "T"
