"""Rule framework: obligations, findings, known-findings matching, evidence (DESIGN 2.6, 8)."""
from __future__ import annotations

import ast
import json
import os
import pathlib
import time
from dataclasses import dataclass, field

from .model import Program, Func, AnalysisError, stmt_digest

VERIF = pathlib.Path(__file__).resolve().parent.parent


@dataclass
class Obligation:
    rule: str
    construct: str
    ok: bool
    detail: str
    where: str = ""
    digest: str = ""

    def key(self):
        return (self.rule, self.construct)

    def as_sample(self):
        d = {"rule": self.rule, "construct": self.construct, "where": self.where, "holds": self.ok}
        if self.detail:
            d["detail"] = self.detail[:600]
        return d


class Ctx:
    def __init__(self, prog: Program, prop: str, tier: str = "quick"):
        self.prog, self.prop, self.tier = prog, prop, tier
        self.obs: list[Obligation] = []
        self.notes: list[str] = []
        self.assumptions: list[str] = []
        self.counts: dict[str, int] = {}
        self.analysed_funcs: set[str] = set()

    @property
    def thorough(self):
        return self.tier == "thorough"

    def ob(self, rule: str, construct: str, ok: bool, detail: str = "", where: str = "", node: ast.AST | None = None):
        if not ok and not detail:
            detail = "the code does not have the structure this clause requires (see the construct description)"
        o = Obligation(rule, construct, bool(ok), detail, where, stmt_digest(node) if node is not None else "")
        self.obs.append(o)
        return o

    def touch(self, *funcs):
        for f in funcs:
            if isinstance(f, Func):
                self.analysed_funcs.add(f.short)
            else:
                self.analysed_funcs.add(str(f))

    def require(self, rule: str, what: str, found: int, minimum: int):
        """Fail closed: fewer rule instances than were confirmed by hand on the reference tree means that a site
        implementing the mechanism was removed (or moved out of the analysed scope).  It is reported as a finding of the
        rule - never a silent, vacuous pass."""
        self.counts[f"{rule}:{what}"] = found
        self.ob(rule + "/count", f"{what}: at least {minimum} instance(s)", found >= minimum,
                f"{found} found" if found >= minimum else
                f"only {found} instance(s) of {what} found, {minimum} were confirmed on the reference tree: a site of this mechanism was removed "
                f"or no longer has the shape the rule recognises", "")

    def assume(self, text: str):
        if text not in self.assumptions:
            self.assumptions.append(text)

    _sub_cache: dict = {}

    def import_clauses(self, other: str, rules, as_rule: str, pick=None, minimum: int = 1):
        """Mechanisms are shared between properties (a record that the delay setter does not reach breaks the synapse
        property and the connection-delay property alike).  Re-decide the named clauses of property `other` on the same
        program and record them here under `as_rule/<their rule>`; `pick(construct)` narrows them to the shared mechanism.
        Fails closed when fewer than `minimum` instances are found."""
        import importlib
        if getattr(self, "_importing", False):
            return 0            # shared clauses are not imported transitively
        key = (id(self.prog), other, self.tier)
        sub = Ctx._sub_cache.get(key)
        if sub is None:
            sub = Ctx(self.prog, other, self.tier)
            sub._importing = True
            importlib.import_module(f"sa.props.{other.lower()}").check(sub)
            Ctx._sub_cache[key] = sub
        if any(r.endswith(".t") for r in rules) and not getattr(sub, "_tables_done", False):
            from . import tables as _tables
            _tables.check_registered(sub, other)
            sub._tables_done = True
        n = 0
        for o in sub.obs:
            base = o.rule.split("/")[0]
            if (o.rule in rules or base in rules) and not o.rule.endswith("/count") and (pick is None or pick(o.construct)):
                n += 1
                self.obs.append(Obligation(f"{as_rule}/{o.rule}", o.construct, o.ok, o.detail, o.where, o.digest))
        self.analysed_funcs |= sub.analysed_funcs if n else set()
        self.require(as_rule, f"clauses shared with {other} {sorted(rules)}", n, minimum)
        return n

    def note(self, text: str):
        self.notes.append(text)

    def findings(self):
        seen, out = set(), []
        for o in self.obs:
            if not o.ok and (o.rule, o.construct, o.detail) not in seen:
                seen.add((o.rule, o.construct, o.detail))
                out.append(o)
        return out


def load_known():
    p = VERIF / "known_findings.json"
    if not p.exists():
        return {"known": [], "fixed": []}
    return json.loads(p.read_text())


def is_known(known, prop, o: Obligation):
    for k in known.get("known", []):
        if k["property"] == prop and k["rule"] == o.rule and k["construct"] == o.construct:
            return k
    return None


def write_evidence(ctx: Ctx, explanation: str, technique: str, wall: float, nviol: int, known_hits: list, seed: int,
                   trusted_base: list[str], checker_cmd: str):
    findings = ctx.findings()
    ok = [o for o in ctx.obs if o.ok]
    # samples: a spread of discharged obligations (one per rule first), plus every finding
    samples, seen_rules = [], set()
    for o in ok:
        if o.rule not in seen_rules:
            seen_rules.add(o.rule)
            samples.append(o.as_sample())
    for o in ok:
        if len(samples) >= 40:
            break
        s = o.as_sample()
        if s not in samples:
            samples.append(s)
    for o in findings:
        samples.append(o.as_sample())
    per_rule = {}
    for o in ctx.obs:
        r = per_rule.setdefault(o.rule, [0, 0])
        r[0] += 1
        r[1] += 1 if o.ok else 0
    distinct = len({(o.rule, o.construct) for o in ctx.obs})
    ev = {
        "property_id": ctx.prop,
        "tier": ctx.tier,
        "seed": seed,
        "level": "other",
        "coverage": {
            "explanation": explanation,
            "technique": technique,
            "obligations": len(ctx.obs),
            "discharged": len(ok),
            "evaluations": max(len(ctx.obs), 1),
            "distinct_nontrivial": distinct,
            "rule": "one obligation per rule instance (call site / sibling / path / formula) enumerated from /repo's "
                    "current syntax trees; distinct = distinct (rule, construct) pairs",
            "per_rule": {k: {"instances": v[0], "discharged": v[1]} for k, v in sorted(per_rule.items())},
            "instance_counts": ctx.counts,
            "modules_parsed": len(ctx.prog.modules),
            "classes": len(ctx.prog.all_classes),
            "functions_in_tree": ctx.prog.n_functions,
            "functions_analysed": sorted(ctx.analysed_funcs)[:400],
            "n_functions_analysed": len(ctx.analysed_funcs),
            "source_digest": ctx.prog.digest,
            "root": str(ctx.prog.root),
            "samples": samples,
            "known_findings_matched": [f"{k['rule']} {k['construct']}" for k in known_hits],
            "notes": ctx.notes,
            "checker_cmd": checker_cmd,
            "trusted_base": trusted_base,
            "exhaustive": True,
        },
        "assumptions": ctx.assumptions,
        "wall_s": round(wall, 3),
        "violations": nviol,
    }
    evdir = VERIF / "evidence"
    evdir.mkdir(exist_ok=True)
    (evdir / f"{ctx.prop}.json").write_text(json.dumps(ev, indent=1, sort_keys=False) + "\n")
    return ev
