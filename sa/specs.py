"""Documented-formula oracle helpers (DESIGN 4): compare the value-flow term of a repo function
with a spec term written as Python source over the callee's parameter roles."""
from __future__ import annotations

import ast

from . import nf, terms
from .model import Func, strip_doc
from .framework import Ctx


def spec_term(src: str, env=None, **opts):
    """`src` is either an expression or a `def spec(...)` whose body is evaluated like repo code
    (but with no repo inlining: the spec is self-contained)."""
    src = src.strip()
    tree = ast.parse(src)
    b = terms.Builder(None, None, dict(env or {}), **opts)
    if len(tree.body) == 1 and isinstance(tree.body[0], ast.FunctionDef):
        return b.run(strip_doc(tree.body[0].body))
    if len(tree.body) == 1 and isinstance(tree.body[0], ast.Expr):
        return b.t(tree.body[0].value)
    raise ValueError("spec must be one expression or one def")


def code_term(ctx: Ctx, func: Func, env=None, **opts):
    ctx.touch(func)
    t, b = terms.function_term(ctx.prog, func, env, **opts)
    return t, b


def compare(ctx: Ctx, rule: str, construct: str, func: Func, spec_src: str, *, env=None, spec_env=None,
            source: str = "", select=None, **opts):
    """Obligation: term returned by `func` == spec term (modulo the normal form)."""
    if ctx.thorough and "inline_depth" not in opts:
        opts = dict(opts, inline_depth=8)
    try:
        code, _ = code_term(ctx, func, env, **opts)
    except terms.Opaque as e:
        ctx.ob(rule, construct, False, f"function body left the analysable fragment ({e}); formula cannot be confirmed", func.where)
        return False
    spec = spec_term(spec_src, spec_env if spec_env is not None else env, **{k: v for k, v in opts.items() if k in ("positive", "erase_casts")})
    if select is not None:
        code = select(code)
    ok = code is not None and code is not nf.BOTTOM and nf.equal(code, spec)
    ctx.ob(rule, construct, ok,
           (f"computes  {nf.show(code)[:400]}\n      documented ({source}):  {nf.show(spec)[:400]}" if not ok
            else f"normal form equals the documented formula ({source}): {nf.show(spec)[:160]}"),
           func.where)
    return ok
