"""Documented-formula oracle helpers (DESIGN 4): compare the value-flow term of a repo function
with a spec term written as Python source over the callee's parameter roles."""
from __future__ import annotations

import ast

from . import nf, terms
from .model import Func, strip_doc
from .framework import Ctx


def spec_term(src: str, env=None, **opts):
    """`src` is either an expression or a `def spec(...)` whose body is evaluated like repo code
    (but with no repo inlining: the spec is self-contained)."""
    src = src.strip()
    tree = ast.parse(src)
    b = terms.Builder(None, None, dict(env or {}), **opts)
    if len(tree.body) == 1 and isinstance(tree.body[0], ast.FunctionDef):
        return b.run(strip_doc(tree.body[0].body))
    if len(tree.body) == 1 and isinstance(tree.body[0], ast.Expr):
        return b.t(tree.body[0].value)
    raise ValueError("spec must be one expression or one def")


def code_term(ctx: Ctx, func: Func, env=None, **opts):
    ctx.touch(func)
    t, b = terms.function_term(ctx.prog, func, env, **opts)
    return t, b


def compare(ctx: Ctx, rule: str, construct: str, func: Func, spec_src: str, *, env=None, spec_env=None,
            source: str = "", select=None, **opts):
    """Obligation: term returned by `func` == spec term (modulo the normal form)."""
    if ctx.thorough and "inline_depth" not in opts:
        opts = dict(opts, inline_depth=8)
    try:
        code, _ = code_term(ctx, func, env, **opts)
    except terms.Opaque as e:
        ctx.ob(rule, construct, False, f"function body left the analysable fragment ({e}); formula cannot be confirmed", func.where)
        return False
    spec = spec_term(spec_src, spec_env if spec_env is not None else env, **{k: v for k, v in opts.items() if k in ("positive", "erase_casts")})
    if select is not None:
        code = select(code)
    ok = code is not None and code is not nf.BOTTOM and nf.equal(code, spec)
    ctx.ob(rule, construct, ok,
           (f"computes  {nf.show(code)[:400]}\n      documented ({source}):  {nf.show(spec)[:400]}" if not ok
            else f"normal form equals the documented formula ({source}): {nf.show(spec)[:160]}"),
           func.where)
    return ok


def compare_full(ctx: Ctx, rule: str, construct: str, func: Func, spec_src: str, *, env=None, source: str = "", **opts):
    """Obligation: returned term *and* every attribute / subscript store of `func` equal those of the spec function."""
    try:
        code, cb = code_term(ctx, func, env, **opts)
    except terms.Opaque as e:
        ctx.ob(rule, construct, False, f"function body left the analysable fragment ({e}); behaviour cannot be confirmed", func.where)
        return False
    tree = ast.parse(spec_src.strip())
    # the table is read in the resolution context of the function it describes (same module aliases, same callees), without inlining
    sopts = {k: v for k, v in opts.items() if k in ("positive", "erase_casts", "erase_validation", "keep_raises", "track_locals", "track_effects",
                                                   "summarise_loops", "erase_persistence", "bind_args")}
    sb = terms.Builder(ctx.prog, func, dict(env or {}), inline_depth=0, inline_new=0, **sopts)
    spec = sb.run(strip_doc(tree.body[0].body))
    if sb.track_effects:
        sb.stores["!signature"] = terms.signature_term(terms.Builder(ctx.prog, func, {}, inline_depth=0), tree.body[0])
        sb.stores["!decorators"] = terms.decorators_term(tree.body[0])
    none = terms.app("const", "None")
    code = none if code is None else code
    spec = none if spec is None else spec
    bad = []
    if code is nf.BOTTOM or not nf.equal(code, spec):
        bad.append(f"returns  {nf.show(code)[:300]}\n      documented ({source}):  {nf.show(spec)[:300]}")
    for k in sorted(set(cb.stores) | set(sb.stores)):
        a, b_ = cb.stores.get(k), sb.stores.get(k)
        if a is None or b_ is None or not nf.equal(a, b_):
            bad.append(f"store `{k}`: code {nf.show(a)[:200] if a is not None else 'absent'}; documented {nf.show(b_)[:200] if b_ is not None else 'absent'}")
    ctx.ob(rule, construct, not bad, "; ".join(bad) if bad else f"return value and {len(sb.stores)} store(s) equal the documented behaviour ({source})", func.where)
    return not bad


def equivalent(prog, func: Func, spec_src: str, **opts) -> bool:
    """Summary of `func` equals the summary of the table text (returned value, stores, effects), modulo the normal form.
    When the plain summaries differ, a second reading executes delegations to base-class methods (`Base.m(self, ...)`,
    `super().m(...)`) in place on both sides: replacing a repeated block by a call of the inherited method is the same function."""
    if _equivalent_once(prog, func, spec_src, **opts):
        return True
    if "inline_delegation" not in opts:
        return _equivalent_once(prog, func, spec_src, **dict(opts, inline_delegation=2))
    return False


def _equivalent_once(prog, func: Func, spec_src: str, **opts) -> bool:
    try:
        code, cb = terms.function_term(prog, func, None, **opts)
        tree = ast.parse(spec_src.strip())
        sopts = {k: v for k, v in opts.items() if k in ("positive", "erase_casts", "erase_validation", "keep_raises", "track_locals", "track_effects",
                                                       "summarise_loops", "erase_persistence", "bind_args", "inline_delegation")}
        sb = terms.Builder(prog, func, {}, inline_depth=0, inline_new=0, **sopts)
        spec = sb.run(strip_doc(tree.body[0].body))
        if sb.track_effects:
            sb.stores["!signature"] = terms.signature_term(terms.Builder(prog, func, {}, inline_depth=0), tree.body[0])
            sb.stores["!decorators"] = terms.decorators_term(tree.body[0])
    except terms.Opaque:
        return False
    none = terms.app("const", "None")
    code = none if code is None else code
    spec = none if spec is None else spec
    if code is nf.BOTTOM or not nf.equal(code, spec):
        return False
    for k in set(cb.stores) | set(sb.stores):
        a, b_ = cb.stores.get(k), sb.stores.get(k)
        if a is None or b_ is None or not nf.equal(a, b_):
            return False
    return True
