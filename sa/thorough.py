"""Thorough tier: the property's quick clauses plus a sweep of the generic rules G1, G2, G3, G5, G6, G7, G9, G10, G11 over
*every* function / class whose primary property (attribution table below) is the one being checked.  A generic finding is
attributed to exactly one property, so a defect in one component never raises another property's alarm."""
from __future__ import annotations

from . import grules as G

# (module suffix, class name or None) -> primary property.  First match wins.
ATTRIBUTION = [
    ("core.infrastructure", "Module", "C12"), ("core.infrastructure", "ShapedTensor", "C13"), ("core.infrastructure", "RecordTensor", "C01"),
    ("core.infrastructure", "VirtualTensor", "C13"), ("core.infrastructure", "Hook", "C16"), ("core.infrastructure", "ContextualHook", "C16"),
    ("core.infrastructure", "StateHook", "C16"), ("core.infrastructure", None, "C01"),
    ("functional.bounding", None, "C10"), ("neural.modeling", None, "C10"),
    ("neural.network", None, "C17"), ("neural.base", None, "C14"), ("neural.mixins", None, "C14"),
    ("neural.synapses.", None, "C04"), ("neural.neurons.", None, "C03"), ("neural.functional.neuron_", None, "C03"),
    ("neural.connections.", None, "C05"), ("neural.functional.encoding", None, "C19"), ("neural.encoders.", None, "C19"),
    ("neural.hooks", None, "C16"), ("observe.reducers.", None, "C07"), ("core.trace", None, "C07"),
    ("observe.pooling", None, "C15"), ("observe.monitors", None, "C15"), ("learn.base", None, "C15"),
    ("learn.trainers.two_factor_stdp", None, "C08"), ("learn.trainers.three_factor_stdp", None, "C08"),
    ("learn.trainers.delay_adj_", None, "C18"), ("learn.trainers.kernel_stdp", None, "C18"), ("functional.stdkernels", None, "C18"),
    ("learn.trainers.homeostasis", None, "C09"), ("stats.", None, "C20"), ("functional.interpolation", None, "C20"),
    ("functional.extrapolation", None, "C20"), ("core.math", None, "C20"), ("learn.classifiers.", None, "C12"),
    ("functional.dimreductiion", None, "C11"), ("core.tensor", None, "C11"),
]


def primary(modname: str, clsname: str | None):
    for suffix, cname, prop in ATTRIBUTION:
        key = "inferno." + suffix
        if (modname == key.rstrip(".") or modname.startswith(key)) and (cname is None or cname == clsname):
            return prop
    return None


def sweep(ctx):
    P, pid = ctx.prog, ctx.prop
    funcs = [f for f in P.funcs if primary(f.module.name, f.cls.name if f.cls else None) == pid]
    classes = [c for c in P.all_classes if primary(c.module.name, c.name) == pid]
    ctx.note(f"thorough sweep: {len(funcs)} functions / {len(classes)} classes attributed to {pid}")
    pre = "T/"
    G.g1_signatures(ctx, funcs, rule=pre + "G1")
    G.g2_name_swap(ctx, funcs, rule=pre + "G2")
    G.g3_mangled(ctx, classes, rule=pre + "G3")
    G.g5_typed_property_call(ctx, funcs, rule=pre + "G5")
    G.g6_mapping_iter(ctx, funcs, G.dict_typed_attrs(P), rule=pre + "G6")
    G.g7_getset(ctx, classes, rule=pre + "G7")
    G.g8_derived_state(ctx, classes, rule=pre + "G8")
    G.g9_self_recursion(ctx, funcs, rule=pre + "G9")
    G.g10_identical_arms(ctx, funcs, rule=pre + "G10")
    G.g11_einops(ctx, funcs, rule=pre + "G11")
