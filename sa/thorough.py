"""Generic-rule sweep (both tiers; the thorough tier additionally inlines callees to depth 8 in the formula rules): the
generic rules G1, G2, G2b, G3, G5, G6, G7, G8, G9, G10, G11, G13 ... G18 over *every* function / class whose primary
property (attribution table below) is the one being checked.  A generic finding is
attributed to exactly one property, so a defect in one component never raises another property's alarm."""
from __future__ import annotations

from . import grules as G

# (module suffix, class name or None) -> primary property.  First match wins.
ATTRIBUTION = [
    ("core.infrastructure", "Module", "C12"), ("core.infrastructure", "ShapedTensor", "C13"), ("core.infrastructure", "RecordTensor", "C01"),
    ("core.infrastructure", "VirtualTensor", "C13"), ("core.infrastructure", "Hook", "C16"), ("core.infrastructure", "ContextualHook", "C16"),
    ("core.infrastructure", "StateHook", "C16"), ("core.infrastructure", None, "C01"),
    ("functional.bounding", None, "C10"), ("neural.modeling", None, "C10"),
    ("neural.network", None, "C17"), ("neural.base", None, "C14"), ("neural.mixins", None, "C14"),
    ("neural.synapses.", None, "C04"), ("neural.neurons.", None, "C03"), ("neural.functional.neuron_", None, "C03"),
    ("neural.connections.", None, "C05"), ("neural.functional.encoding", None, "C19"), ("neural.encoders.", None, "C19"),
    ("neural.hooks", None, "C16"), ("observe.reducers.", None, "C07"), ("core.trace", None, "C07"),
    ("observe.pooling", None, "C15"), ("observe.monitors", None, "C15"), ("learn.base", None, "C15"),
    ("learn.trainers.two_factor_stdp", None, "C08"), ("learn.trainers.three_factor_stdp", None, "C08"),
    ("learn.trainers.delay_adj_", None, "C18"), ("learn.trainers.kernel_stdp", None, "C18"), ("functional.stdkernels", None, "C18"),
    ("learn.trainers.homeostasis", None, "C09"), ("stats.", None, "C20"), ("functional.interpolation", None, "C20"),
    ("functional.extrapolation", None, "C20"), ("core.math", None, "C20"), ("learn.classifiers.", None, "C12"),
    ("functional.dimreductiion", None, "C11"), ("core.tensor", None, "C11"),
]


# Supporting code: modules a property's mechanism is built on although another property owns them.  The call- and
# argument-level rules (G1, G2, G2b, G13, G14, G15, G17, G18) are also run over these for that property: a crossed wire in a synapse
# constructor breaks the connection-delay property as much as the synapse property.
SECONDARY = {
    "C02": ["functional.interpolation", "functional.extrapolation", "core.tensor"],
    "C05": ["neural.base"],
    "C06": ["neural.synapses.", "neural.base", "neural.mixins"],
    "C09": ["learn.trainers."],
    "C13": ["core.tensor"],
    "C14": ["neural.synapses.", "neural.neurons.", "observe.reducers.", "neural.connections."],
    "C18": ["learn.trainers.delay_adj_", "learn.trainers.kernel_stdp"],
}


def secondary(pid: str, modname: str) -> bool:
    for suffix in SECONDARY.get(pid, ()):
        key = "inferno." + suffix
        if modname == key.rstrip(".") or modname.startswith(key):
            return True
    return False


def primary(modname: str, clsname: str | None):
    for suffix, cname, prop in ATTRIBUTION:
        key = "inferno." + suffix
        if (modname == key.rstrip(".") or modname.startswith(key)) and (cname is None or cname == clsname):
            return prop
    return None


def sweep(ctx):
    P, pid = ctx.prog, ctx.prop
    funcs = [f for f in P.funcs if primary(f.module.name, f.cls.name if f.cls else None) == pid]
    classes = [c for c in P.all_classes if primary(c.module.name, c.name) == pid]
    ctx.note(f"generic-rule sweep: {len(funcs)} functions / {len(classes)} classes attributed to {pid}")
    pre = "S/"
    G.g1_signatures(ctx, funcs, rule=pre + "G1")
    G.g2_name_swap(ctx, funcs, rule=pre + "G2")
    G.g3_mangled(ctx, classes, rule=pre + "G3")
    G.g5_typed_property_call(ctx, funcs, rule=pre + "G5")
    G.g6_mapping_iter(ctx, funcs, G.dict_typed_attrs(P), rule=pre + "G6")
    G.g7_getset(ctx, classes, rule=pre + "G7")
    G.g8_derived_state(ctx, classes, rule=pre + "G8")
    G.g9_self_recursion(ctx, funcs, rule=pre + "G9")
    G.g10_identical_arms(ctx, funcs, rule=pre + "G10")
    G.g11_einops(ctx, funcs, rule=pre + "G11")
    G.g2b_role_tokens(ctx, funcs, rule=pre + "G2b")
    G.g12_dead_parameter(ctx, funcs, rule=pre + "G18")
    G.g13_inplace_alias(ctx, funcs, rule=pre + "G13")
    G.g14_exact_compare(ctx, funcs, rule=pre + "G14")
    G.g15_leaked_loop_variable(ctx, funcs, rule=pre + "G15")
    G.g16_symmetric_arms(ctx, funcs, rule=pre + "G16")
    G.g17_keyword_namesake(ctx, funcs, rule=pre + "G17")
    sec = [f for f in P.funcs if f not in set(funcs) and secondary(pid, f.module.name)]
    if sec:
        ctx.note(f"supporting code: {len(sec)} functions of modules {SECONDARY[pid]}")
        pre2 = "S2/"
        G.g1_signatures(ctx, sec, rule=pre2 + "G1")
        G.g2_name_swap(ctx, sec, rule=pre2 + "G2")
        G.g2b_role_tokens(ctx, sec, rule=pre2 + "G2b")
        G.g12_dead_parameter(ctx, sec, rule=pre2 + "G18")
        if pid != "C14":     # configuration-path independence is about options and their forwarding, not about aliasing or rounding
            G.g13_inplace_alias(ctx, sec, rule=pre2 + "G13")
            G.g14_exact_compare(ctx, sec, rule=pre2 + "G14")
        G.g15_leaked_loop_variable(ctx, sec, rule=pre2 + "G15")
        G.g17_keyword_namesake(ctx, sec, rule=pre2 + "G17")
